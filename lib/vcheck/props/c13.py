"""C13 — a crash at any point leaves an account that opens and is consistent.
Real accounts (harness/src/c13.rs): the last step of each generated history is the interrupted
operation.  At every storage probe (--cfg sos_verif) the device's and the server's storage are
copied; between consecutive copies every file that grew or was rewritten also yields torn images
(cut at every byte of the written region).  Every image is re-opened through the normal path and
observed; the oracle states the property directly: it opens, every log equals its state before or
after the operation, and every folder served equals the replay of its log.
Correspondence: the byte-level log model (model/Crash.v: the forward scan of load_tree over the
file bytes) replays every torn event-log file the implementation produced and must predict, for
every cut, whether the log loads and how many records it then has."""
from vcheck import acct

ID = "C13"
SUB = "c13"
LEVEL = "proof"
RESILIENT = True
IMPL_TIMEOUT = 6000
RULE = ("a case = a generated history whose last operation is interrupted; explored = every probe image and "
        "every byte cut of every written region of that operation, device and server side; non-trivial = the "
        "operation changed storage in at least two separately observable steps or appended at least one record; "
        "distinct by (backend, operation kind, probe sequence)")
TRUSTED_BASE = [
    "model/Crash.v transcribes the forward iteration of filesystem/src/formats/stream.rs as used by load_tree "
    "(row length, fixed 76-byte record head, data length, trailing length; end only at exact EOF) and the "
    "primitive step lists of the vault writer; SQLite's own atomic commit is trusted (each transaction is one step)",
    "crash images are taken at the probes of /repo commit 'verif hooks: storage step probes' (program order; the "
    "harness copies the directory synchronously inside the probe)",
]
ASSUMPTIONS = [
    "writes reach the disk in program order (no model of page-cache reordering or missing fsync)",
    "a torn write leaves a byte prefix of the written buffer (no sector-granular garbage)",
    "SQLite journal/WAL recovery is trusted: database images are taken at transaction boundaries only",
]

LAST_OPS = ["c%(d)d:%(s)s", "u%(d)d:%(s)s", "x%(d)d:%(s)s", "u%(d)d:%(s)s", "x%(d)d:%(s)s", "s%(d)d", "s%(d)d",
            "f%(d)d:1", "r%(d)d:0:1", "p%(d)d:0", "g%(d)d:0:16", "z%(d)d:0", "w%(d)d:0", "a%(d)d:%(s)s",
            "m%(d)d:%(s)s:1", "k%(d)d:1", "h%(d)d:0:%(o)d"]


def corpus():
    """every interrupted operation kind on both backends, after a small fixed life; plus named witnesses"""
    out = [
        "c13 k_update_mid cbe=fs sbe=fs hist=s0|c0:a|c0:b|u0:a",
        "c13 k_sync_two cbe=fs sbe=fs hist=s0|c0:a|c0:b|s0",
        "c13 k_db_update cbe=db sbe=db hist=s0|c0:a|c0:b|u0:a",
        "c13 k_compact cbe=fs sbe=fs hist=s0|c0:a|u0:a|x0:a|c0:b|z0:0",
        "c13 k_pull cbe=fs sbe=fs hist=s0|s1|c0:a|c0:b|s0|s1",
        "c13 k_first_sync cbe=fs sbe=fs hist=c0:a|s0",
        "c13 k_chpw cbe=fs sbe=fs hist=c0:a|w0:0",
        "c13 k_chpw_db cbe=db sbe=db hist=c0:a|w0:0",
        "c13 k_flags cbe=fs sbe=fs hist=c0:a|g0:0:16",
        "c13 k_force cbe=fs sbe=fs hist=s0|s1|c0:a|c1:b|h1:0:0",
        "c13 k_conflict cbe=fs sbe=fs hist=s0|s1|c0:a|c1:b|s0|s1",
        "c13 k_conflict_db cbe=db sbe=db hist=s0|s1|c0:a|c1:b|s0|s1",
    ]
    life = "s0|s1|c0:a|c0:b|u0:a|f0:1|c0:c@1|s0"
    lasts = ["c0:d", "u0:b", "x0:a", "m0:b:1", "a0:b", "f0:2", "r0:1:2", "p0:1", "g0:1:16", "k0:1", "z0:0", "w0:1",
             "s1", "h1:0:0", "s0", "W0", "Z0", "i0:1"]
    for be in ("fs", "db"):
        for k, last in enumerate(lasts):
            pre = life if last != "s0" else life + "|c0:d|x0:c"
            out.append("c13 op_%s_%d cbe=%s sbe=%s hist=%s|%s" % (be, k, be, be, pre, last))
    return out


def gen_cases(rng, tier):
    n = 12 if tier == "quick" else 400
    out = []
    for j in range(n):
        pre = acct.gen_history(rng, 2, rng.randrange(3, 9), with_folders=(j % 3 == 0), with_clock=False)
        pre = pre[:len(pre) - 2 * acct.ROUNDS]          # no quiescent rounds: crash in the middle of a life
        if rng.random() < 0.5: pre.append("s%d" % rng.randrange(2))
        d = rng.randrange(2)
        last = rng.choice(LAST_OPS) % {"d": d, "s": rng.choice("abcd"), "o": 1 - d}
        if last[0] in "mk" and not any(x.startswith("f") for x in pre):
            pre.append("f%d:1" % d)
        be = "db" if j % 3 == 1 else "fs"
        out.append("c13 g%d cbe=%s sbe=%s hist=%s" % (j, be, be, "|".join(pre + [last])))
    return out


# ---------------------------------------------------------------------------------------------
def parse(obs):
    """-> dict(op, res, probes, images=[{k, side, probe, torn, cut, file, open, logs, folders}], torn=[...])"""
    R = {"op": None, "res": None, "probes": [], "images": [], "torn": [], "tornlog": []}
    cur = {}
    probe_of = {}
    for o in obs:
        t = o.split()
        if not t: continue
        bang = t[0].startswith("!")
        head = t[0].lstrip("!")
        if head.startswith("op=") and not bang:
            R["op"] = head[3:]; R["res"] = t[1][4:] if len(t) > 1 else None
        elif head == "probes":
            R["probes"] = t[1].split(",") if len(t) > 1 else []
        elif head == "img":
            kv = dict(x.split("=", 1) for x in t[1:] if "=" in x)
            probe_of[(kv["k"], kv["side"])] = kv.get("probe", "?")
        elif head == "torn":
            kv = dict(x.split("=", 1) for x in t[1:] if "=" in x)
            kv["probe"] = probe_of.get((kv["k"], kv["side"]), "?")
            R["torn"].append(kv)
        elif head == "tornlog":
            R["tornlog"].append(dict(x.split("=", 1) for x in t[1:] if "=" in x))
        elif head in ("rec", "trec"):
            kv = {}
            i = 1
            while i < len(t) and "=" in t[i] and t[i].split("=", 1)[0] in ("k", "side", "cut", "file", "open"):
                a, b = t[i].split("=", 1); kv[a] = b; i += 1
            key = (head, kv.get("k"), kv.get("side"), kv.get("cut"))
            if "open" in kv:
                probe = probe_of.get((kv["k"], kv["side"]), "?")
                torn = head == "trec"
                if torn and kv.get("file", "").endswith("-wal"):
                    # a transaction boundary inside the write-ahead log: a step-level crash image that no probe marks
                    torn, probe = False, probe + "~txn"
                img = {"k": kv["k"], "side": kv["side"], "probe": probe,
                       "torn": torn, "cut": kv.get("cut"), "file": kv.get("file", ""), "open": kv["open"],
                       "logs": {}, "folders": {}}
                cur[key] = img
                R["images"].append(img)
                continue
            img = cur.get(key)
            if img is None or bang: continue
            rest = t[i:]
            if len(rest) >= 3 and rest[1] == "log":
                kvs = dict(x.split("=", 1) for x in rest[3:] if "=" in x)
                img["logs"][rest[2]] = [x.split("@")[0] for x in kvs.get("toks", "").split(",") if x]
            elif len(rest) >= 4 and rest[1] == "folder":
                img["folders"].setdefault(rest[2], {})[rest[3]] = " ".join(rest[4:])
    return R


def file_kind(rel):
    if rel.endswith(".events"): return "events"
    if rel.endswith(".vault"): return "vault"
    if rel.endswith("-wal"): return "wal"
    return "other"


# steps between two probes that change more than one file: an unprobed storage step hides between
# them.  The ones below exist on the unchanged tree (server account creation writes the vault with a
# plain fs write next to the log it creates); anything else breaks the tie between probes and steps.
COARSE_ALLOWED = {("srv", "fs_log.initialize.identity_written", ("events:created", "vault:created"))}


def coarse_steps(obs):
    out = []
    for o in obs:
        t = o.split()
        if t and t[0] == "img":
            kv = dict(x.split("=", 1) for x in t[1:] if "=" in x)
            ch = [x for x in kv.get("changed", "").split(";") if x and ".db" not in x]
            if len(ch) >= 2 or any(x.split(":")[1] == "rewrite" for x in ch):
                kinds = tuple(sorted(x.split(":")[0].rsplit(".", 1)[-1] + ":" + x.split(":")[1] for x in ch))
                key = (kv.get("side"), kv.get("probe"), kinds)
                if key not in COARSE_ALLOWED:
                    out.append("coarse side=%s probe=%s changed=%s" % (key[0], key[1], ",".join(kinds)))
    return out


def oracle(case, obs):
    R = parse(obs)
    toks = case.split()
    be = dict(x.split("=", 1) for x in toks[2:] if "=" in x)
    fails = []
    op = (R["op"] or "?")[:1]
    for side in ("dev", "srv"):
        imgs = [i for i in R["images"] if i["side"] == side]
        steps = [i for i in imgs if not i["torn"] and not i["probe"].endswith("~txn")]
        if not steps: continue
        before, after = steps[0], steps[-1]
        backend = be.get("cbe" if side == "dev" else "sbe", "fs")
        for im in imgs:
            common = {"side": side, "probe": im["probe"], "torn": int(im["torn"]), "op": op, "be": backend,
                      "filekind": file_kind(im["file"]) if im["torn"] else "-"}
            where = "image k=%s%s at probe %s (%s side, op %s)" % (
                im["k"], (" cut=%s of %s" % (im["cut"], im["file"].split("/")[-1])) if im["torn"] else "", im["probe"], side, R["op"])
            if not im["open"].startswith("ok"):
                fails.append(dict(common, oracle="crash_open", detail="%s does not open: %s" % (where, im["open"])))
                continue
            if im["open"] != before["open"] and im["open"] != after["open"]:
                fails.append(dict(common, oracle="crash_open", detail="%s opens as %s (before %s, after %s)" % (where, im["open"], before["open"], after["open"])))
            for name in sorted(set(before["logs"]) | set(after["logs"]) | set(im["logs"])):
                got = im["logs"].get(name)
                if got != before["logs"].get(name) and got != after["logs"].get(name):
                    fails.append(dict(common, oracle="crash_log", log=name.split(":")[0],
                                      detail="%s: log %s = %s, neither before %s nor after %s" % (
                                          where, name, got, before["logs"].get(name), after["logs"].get(name))))
            for f, views in im["folders"].items():
                if "served" in views and "reduced" in views and views["served"] != views["reduced"]:
                    fails.append(dict(common, oracle="crash_folder",
                                      detail="%s: folder %s serves [%s] but its log replays to [%s]" % (where, f, views["served"], views["reduced"])))
    # every byte cut of every written region (light re-open)
    for tr in R["torn"]:
        backend = be.get("cbe" if tr["side"] == "dev" else "sbe", "fs")
        common = {"side": tr["side"], "probe": tr["probe"], "torn": 1, "op": op, "be": backend, "filekind": file_kind(tr["file"])}
        runs = [x.rsplit("*", 1) for x in tr.get("light", "").split(",") if "*" in x]
        kinds = set(r[0] for r in runs)
        if "err" in kinds:
            n = sum(int(r[1]) for r in runs if r[0] == "err")
            fails.append(dict(common, oracle="torn_unreadable",
                              detail="%s of %s cut inside the region written before probe %s: %d of %d cuts leave a file that does not load" % (
                                  tr["kind"], tr["file"].split("/")[-1], tr["probe"], n, sum(int(r[1]) for r in runs))))
        oks = sorted(set(int(k[2:]) for k in kinds if k.startswith("ok")))
        if tr["file"].endswith(".events") and len(oks) > 0:
            # loads with a record count strictly between before and after = a partially applied patch
            fails.append(dict(common, oracle="torn_partial",
                              detail="%s of %s: cuts at record boundaries load with %s records (a partially applied patch)" % (
                                  tr["kind"], tr["file"].split("/")[-1], oks)))
    return fails


STEP_PROBES = {"C": ["fs_vault.insert_secret.row_appended", "fs_log.append.written"],
               "U": ["fs_vault.splice.truncated", "fs_vault.splice.row_written", "fs_vault.splice.tail_written", "fs_log.append.written"],
               "D": ["fs_vault.splice.truncated", "fs_vault.splice.tail_written", "fs_log.append.written"]}


def step_view(case, obs):
    """for a create / update / delete of one secret on the file-system backend: the folder, the event the operation
    appended, the stored rows before it, and the stored rows observed at every probe image of that folder's files"""
    toks = case.split()
    kv = dict(x.split("=", 1) for x in toks[2:] if "=" in x)
    hist = [x for x in kv.get("hist", "").split("|") if x]
    if kv.get("cbe") != "fs" or not hist or hist[-1][:1] not in "cux":
        return None
    ev, rows, probe_of = {}, {}, {}
    for o in obs:
        t = o.split()
        if not t: continue
        if t[0] == "img":
            d = dict(x.split("=", 1) for x in t[1:] if "=" in x)
            if d.get("side") == "dev": probe_of[d["k"]] = d.get("probe")
        elif t[0] == "!rec" and len(t) >= 6 and t[2] == "side=dev" and t[4] in ("events", "rows"):
            k = t[1][2:]
            (ev if t[4] == "events" else rows).setdefault(k, {})[t[5]] = t[6].split(",") if len(t) > 6 else []
    ks = sorted(ev, key=int)
    if len(ks) < 2: return None
    first, last = ks[0], ks[-1]
    target = None
    for f in ev[last]:
        a, b = ev[first].get(f), ev[last][f]
        if a is not None and len(b) == len(a) + 1 and b[:len(a)] == a and b[-1][:1] in "CUD":
            target = (f, b[-1]); break
    if target is None: return None
    f, event = target
    parts = event.split(":", 2)
    observed = []
    for k in ks[1:]:
        p = probe_of.get(k)
        if p in STEP_PROBES[parts[0]] and f in rows.get(k, {}):
            observed.append((p, rows[k][f]))
    return {"folder": f, "op": parts[0], "sid": parts[1], "body": parts[2] if len(parts) > 2 else "-",
            "before": rows.get(first, {}).get(f, []), "observed": observed}


def model_input(cases, impl):
    out = []
    for c in cases:
        cid = c.split()[1]
        n = 0
        sv = step_view(c, impl.get(cid, []))
        if sv and sv["before"] is not None:
            out.append("%s %s steps op=%s sid=%s body=%s folder=%s before=%s" % (
                SUB, cid, sv["op"], sv["sid"], sv["body"], sv["folder"], ",".join(sv["before"])))
            n += 1
        for o in impl.get(cid, []):
            t = o.split()
            if t and t[0] == "!tornlog":
                kv = dict(x.split("=", 1) for x in t[1:] if "=" in x)
                out.append("%s %s k=%s side=%s file=%s kind=%s old=%s hex=%s" % (SUB, cid, kv["k"], kv["side"], kv["file"], kv["kind"], kv["old"], kv["hex"]))
                n += 1
        if n == 0:
            out.append("%s %s" % (SUB, cid))
    return out


PROJECTION_TAKES_CASE = True


def impl_projection(obs, case=None):
    steps = []
    if case is not None:
        sv = step_view(case, obs)
        if sv and sv["before"] is not None:
            # one line per model step: the stored rows at the image taken at that step's probe
            seen = {}
            for p, r in sv["observed"]:
                seen.setdefault(p, r)
            cur = sv["before"]
            for p in STEP_PROBES[sv["op"]]:
                # a probe at which nothing changed on disk yields no image of its own: the state is the previous one
                cur = seen.get(p, cur)
                steps.append("rows %s %s %s" % (sv["folder"], p, ",".join(cur)))
    have = set()
    for o in obs:
        t = o.split()
        if t and t[0] == "!tornlog":
            kv = dict(x.split("=", 1) for x in t[1:] if "=" in x)
            have.add((kv["k"], kv["side"], kv["file"]))
    out = []
    for o in obs:
        t = o.split()
        if t and t[0] == "torn":
            kv = dict(x.split("=", 1) for x in t[1:] if "=" in x)
            if (kv["k"], kv["side"], kv["file"]) in have:
                out.append("torn k=%s side=%s file=%s light=%s" % (kv["k"], kv["side"], kv["file"], kv["light"]))
        elif t and t[0] == "dirs":
            out.append(o)
    return steps + out + coarse_steps(obs)


def nontrivial(case, obs):
    R = parse(obs)
    return len([p for p in R["probes"] if p not in ("start", "end")]) >= 2 or bool(R["torn"])


def distinct_key(case):
    d = dict(x.split("=", 1) for x in case.split()[2:] if "=" in x)
    h = d.get("hist", "").split("|")
    return (d.get("cbe"), h[-1][:1] if h else "", len(h))


def distribution(cases, impl):
    ops, probes, opens = {}, {}, {}
    nimg = ntorn = ncuts = 0
    for c in cases:
        R = parse(impl.get(c.split()[1], []))
        k = (R["op"] or "?")[:1]
        ops[k] = ops.get(k, 0) + 1
        for p in R["probes"]:
            probes[p] = probes.get(p, 0) + 1
        for im in R["images"]:
            nimg += 1
            o = im["open"].split(":")[0] + (":" + im["open"].split(":")[1] if ":" in im["open"] else "")
            opens[o] = opens.get(o, 0) + 1
        for tr in R["torn"]:
            ntorn += 1
            ncuts += sum(int(x.rsplit("*", 1)[1]) for x in tr.get("light", "").split(",") if "*" in x)
    return {"interrupted_op_kinds": ops, "probes_passed": probes, "images_reopened": nimg, "open_results": opens,
            "torn_regions": ntorn, "byte_cuts_checked": ncuts}


def shrink(case):
    toks = case.split()
    d = dict(x.split("=", 1) for x in toks[2:] if "=" in x)
    h = d.get("hist", "").split("|")
    out = []
    for i in range(len(h) - 1):
        hh = h[:i] + h[i + 1:]
        out.append("c13 s cbe=%s sbe=%s hist=%s" % (d.get("cbe", "fs"), d.get("sbe", "fs"), "|".join(hh)))
    return out


MANIFEST = {
    "category": "proof",
    "text": ("Coq theorems over the byte-level log file model (a log that ends inside a record never loads; it loads with "
             "exactly the records whose last byte is present) and over the primitive step lists of the vault and folder "
             "writers (which crash prefixes are consistent, with refutation witnesses for those that are not); tied to the "
             "code by re-opening real accounts from the storage image at every probe and at every byte cut of every written "
             "region, device and server side, both backends, and by replaying every torn log file into the extracted scan"),
    "design_ref": "DESIGN.md §4 C13",
    "note": "partial: page-cache reordering, missing fsync and SQLite's own recovery are outside the model",
    "technique": "Coq proof (byte-level scan + crash-prefix theorems, refutation witnesses) + fault enumeration on the implementation with extracted-model correspondence",
}
