(* Path sanitiser model.  input: <sub> <case> mode=san N=<hex utf-8>; output "<case> san <hex>/<hex>/.." *)
open Model
open Glue

let decode_utf8 (s : string) : int list option =
  let n = String.length s in
  let rec go i acc =
    if i >= n then Some (List.rev acc)
    else
      let b0 = Char.code s.[i] in
      let cont k = if i + k < n then Char.code s.[i + k] land 0x3f else 0 in
      if b0 < 0x80 then go (i + 1) (b0 :: acc)
      else if b0 < 0xe0 then go (i + 2) ((((b0 land 0x1f) lsl 6) lor cont 1) :: acc)
      else if b0 < 0xf0 then go (i + 3) ((((b0 land 0x0f) lsl 12) lor (cont 1 lsl 6) lor cont 2) :: acc)
      else go (i + 4) ((((b0 land 0x07) lsl 18) lor (cont 1 lsl 12) lor (cont 2 lsl 6) lor cont 3) :: acc) in
  go 0 []

let encode_utf8 (cps : int list) : string =
  let b = Buffer.create 16 in
  List.iter (fun c ->
    if c < 0x80 then Buffer.add_char b (Char.chr c)
    else if c < 0x800 then (Buffer.add_char b (Char.chr (0xc0 lor (c lsr 6))); Buffer.add_char b (Char.chr (0x80 lor (c land 0x3f))))
    else if c < 0x10000 then (Buffer.add_char b (Char.chr (0xe0 lor (c lsr 12))); Buffer.add_char b (Char.chr (0x80 lor ((c lsr 6) land 0x3f))); Buffer.add_char b (Char.chr (0x80 lor (c land 0x3f))))
    else (Buffer.add_char b (Char.chr (0xf0 lor (c lsr 18))); Buffer.add_char b (Char.chr (0x80 lor ((c lsr 12) land 0x3f))); Buffer.add_char b (Char.chr (0x80 lor ((c lsr 6) land 0x3f))); Buffer.add_char b (Char.chr (0x80 lor (c land 0x3f))))) cps;
  Buffer.contents b

let run_line (line : string) : unit =
  let toks = String.split_on_char ' ' line |> List.filter (fun s -> s <> "") in
  match toks with
  | _ :: case :: rest when kv rest "mode" = Some "san" ->
    let raw = string_of_hex (match kv rest "N" with Some h -> h | None -> "") in
    (match decode_utf8 raw with
     | Some cps ->
       let comps = sanitize_file_path (List.map n_of_int cps) in
       Printf.printf "%s san %s\n" case
         (String.concat "/" (List.map (fun c -> hex_of_string (encode_utf8 (List.map int_of_n c))) comps))
     | None -> Printf.printf "%s unmodelled\n" case)
  | _ :: case :: _ -> Printf.printf "%s unmodelled\n" case
  | _ -> ()
