//! C03: plaintext scan.  Real accounts whose every secret field carries a high-entropy marker.
//! Case:  "c03 <id> cbe=fs|db sbe=fs|db seed=<n> kinds=<k,k,..> extra=<op|op|..>"
//!   kinds: note login list page card bank link password identity age pem totp contact file
//!   Script: device 0 creates one secret per kind (marker label, marker tags, every field a marker,
//!   marker comment / recovery note / custom field), sets a marker folder description, creates a
//!   second folder (its NAME is a marker that may be stored in the clear: the scanner's canary),
//!   updates and moves secrets, archives one, changes a folder password, compacts, syncs both
//!   devices, exports a backup archive; extra steps of acct.rs may follow.
//!   Then every file under both client directories and the server directory (SQLite files,
//!   write-ahead logs, archives, audit/log files included) and every wire buffer (each request and
//!   response of DirectClient in the protocol's own encoding) is searched for every marker — and for
//!   the folder passwords, the account password and the device signing key — in raw, hex, base64
//!   (3 alignments, 2 alphabets) and UTF-16 forms.
//!   <id> scan files=<n> bytes=<n> wire=<n> wirebytes=<n> markers=<n> patterns=<n> hits=<n> canary=<found|MISSING>
//!   <id> hit marker=<name> form=<form> where=<path or wire:kind>
use crate::acct::World;
use crate::sync::{Gate, WIRETAP};
use crate::util::{kv, rt, Rng};
use sos_account::Account;
use sos_client_storage::{AccessOptions, NewFolderOptions};
use sos_core::crypto::AccessKey;
use sos_login::DelegatedAccess;
use sos_test_utils::mock;
use sos_vault::secret::{Secret, SecretId, SecretMeta, SecretRow, UserData};
use std::collections::HashMap;
use std::io::Write;
use std::path::Path;

fn marker(r: &mut Rng, name: &str, all: &mut Vec<(String, Vec<u8>)>) -> String {
    const A: &[u8] = b"ABCDEFGHJKLMNPQRSTUVWXYZabcdefghijkmnopqrstuvwxyz23456789";
    let body: String = (0..26).map(|_| A[r.below(A.len() as u64) as usize] as char).collect();
    let m = format!("Mk{body}");
    all.push((name.to_string(), m.as_bytes().to_vec()));
    m
}

fn b64(data: &[u8], url: bool) -> String {
    let t: &[u8] = if url { b"ABCDEFGHIJKLMNOPQRSTUVWXYZabcdefghijklmnopqrstuvwxyz0123456789-_" } else { b"ABCDEFGHIJKLMNOPQRSTUVWXYZabcdefghijklmnopqrstuvwxyz0123456789+/" };
    let mut out = String::new();
    for c in data.chunks(3) {
        if c.len() < 3 {
            break;
        }
        let n = ((c[0] as u32) << 16) | ((c[1] as u32) << 8) | c[2] as u32;
        for i in (0..4).rev() {
            out.push(t[((n >> (6 * i)) & 63) as usize] as char);
        }
    }
    out
}

/// every form a marker could take inside a byte stream
fn forms(m: &[u8]) -> Vec<(String, Vec<u8>)> {
    let mut v: Vec<(String, Vec<u8>)> = vec![("raw".into(), m.to_vec())];
    v.push(("hex".into(), hex::encode(m).into_bytes()));
    v.push(("HEX".into(), hex::encode_upper(m).into_bytes()));
    for o in 0..3 {
        // whatever the alignment of the marker inside a base64-encoded buffer, one of these (the whole
        // 3-byte groups after skipping o bytes) appears verbatim; the first group may mix in foreign bits
        // when o > 0, so it is dropped
        if m.len() > o + 6 {
            v.push((format!("b64+{o}"), b64(&m[o..], false).into_bytes()));
            v.push((format!("b64url+{o}"), b64(&m[o..], true).into_bytes()));
        }
    }
    let le: Vec<u8> = m.iter().flat_map(|b| [*b, 0u8]).collect();
    let be: Vec<u8> = m.iter().flat_map(|b| [0u8, *b]).collect();
    v.push(("utf16le".into(), le));
    v.push(("utf16be".into(), be));
    v
}

fn find(hay: &[u8], needle: &[u8]) -> bool {
    if needle.is_empty() || hay.len() < needle.len() {
        return false;
    }
    let first = needle[0];
    let mut i = 0;
    while i + needle.len() <= hay.len() {
        match hay[i..hay.len() - needle.len() + 1].iter().position(|b| *b == first) {
            None => return false,
            Some(p) => {
                let s = i + p;
                if &hay[s..s + needle.len()] == needle {
                    return true;
                }
                i = s + 1;
            }
        }
    }
    false
}

fn read_tree(root: &Path, rel: &str, out: &mut Vec<(String, Vec<u8>)>) {
    let Ok(rd) = std::fs::read_dir(root) else { return };
    for e in rd.flatten() {
        let name = e.file_name().to_string_lossy().to_string();
        let r = if rel.is_empty() { name.clone() } else { format!("{rel}/{name}") };
        match e.file_type() {
            Ok(t) if t.is_dir() => read_tree(&e.path(), &r, out),
            Ok(_) => {
                if let Ok(b) = std::fs::read(e.path()) {
                    out.push((r, b));
                }
            }
            _ => {}
        }
    }
}

fn with_user_data(mut s: Secret, r: &mut Rng, kind: &str, all: &mut Vec<(String, Vec<u8>)>) -> Secret {
    let comment = marker(r, &format!("{kind}.comment"), all);
    let recovery = marker(r, &format!("{kind}.recovery_note"), all);
    let cl = marker(r, &format!("{kind}.custom.label"), all);
    let ct = marker(r, &format!("{kind}.custom.text"), all);
    let ud: &mut UserData = s.user_data_mut();
    ud.set_comment(Some(comment));
    ud.set_recovery_note(Some(recovery));
    let (cm, cs) = mock::note(&cl, &ct);
    ud.push(SecretRow::new(SecretId::new_v4(), cm, cs));
    s
}

pub fn run(text: &str, cases_path: &str, out: &mut impl Write) {
    let rt = rt();
    let base = std::path::Path::new(cases_path).parent().unwrap().join("data-c03");
    // the SDK's own file logger with its default filter, as applications enable it: the log directory is
    // part of what is scanned
    let logs_dir = base.join("sdk-logs");
    let _ = std::fs::remove_dir_all(&logs_dir);
    std::fs::create_dir_all(&logs_dir).unwrap();
    let _ = sos_logs::Logger::new_dir(logs_dir.clone(), sos_logs::LOG_FILE_NAME.to_string()).init_file_subscriber(None);
    for line in text.lines() {
        let toks: Vec<&str> = line.split_whitespace().collect();
        if toks.len() < 2 || toks[0].starts_with('#') {
            continue;
        }
        let id = toks[1].to_string();
        let cdb = kv(&toks, "cbe") == Some("db");
        let sdb = kv(&toks, "sbe") == Some("db");
        let seed: u64 = kv(&toks, "seed").and_then(|s| s.parse().ok()).unwrap_or(1);
        let kinds: Vec<String> = kv(&toks, "kinds").unwrap_or("note").split(',').map(|s| s.to_string()).collect();
        let extra: Vec<String> = kv(&toks, "extra").unwrap_or("").split('|').filter(|s| !s.is_empty()).map(|s| s.to_string()).collect();
        writeln!(out, "{id} !begin").unwrap();
        out.flush().unwrap();
        rt.block_on(async {
            let mut r = Rng::new(seed);
            let mut all: Vec<(String, Vec<u8>)> = vec![];
            *WIRETAP.lock().unwrap() = Some(vec![]);
            let mut w = World::new(base.join(&id), cdb, sdb, 2, Gate::default()).await;
            let _ = w.step("s0").await;
            let _ = w.step("s1").await;
            let acct = w.devs[0].bridge.account.clone();
            let mut created: Vec<(SecretId, String)> = vec![];
            let default = { *acct.lock().await.default_folder().await.unwrap().id() };
            // a folder whose NAME is a marker (may be stored in the clear): shows that the scanner sees storage
            let canary = marker(&mut r, "canary.folder_name", &mut all);
            let second = {
                let mut a = acct.lock().await;
                a.create_folder(NewFolderOptions::new(canary.clone())).await.ok().map(|f| *f.folder.id())
            };
            {
                let mut a = acct.lock().await;
                let d = marker(&mut r, "folder.description", &mut all);
                let _ = a.set_folder_description(&default, d).await;
            }
            for kind in &kinds {
                let label = marker(&mut r, &format!("{kind}.label"), &mut all);
                let m1 = marker(&mut r, &format!("{kind}.field1"), &mut all);
                let m2 = marker(&mut r, &format!("{kind}.field2"), &mut all);
                let m3 = marker(&mut r, &format!("{kind}.field3"), &mut all);
                let (mut meta, secret): (SecretMeta, Secret) = match kind.as_str() {
                    "note" => mock::note(&label, &m1),
                    "login" => mock::login_websites(&label, &m1, m2.clone().into(), vec![format!("https://{}.example/{}", m3.to_lowercase(), m3).parse().unwrap()]),
                    "list" => {
                        let mut h: HashMap<&str, &str> = HashMap::new();
                        h.insert(&m1, &m2);
                        mock::list(&label, h)
                    }
                    "page" => mock::page(&label, &m1, &m2),
                    "card" => {
                        let (m, s) = mock::card(&label, &m1, &m2);
                        let s = match s {
                            Secret::Card { number, cvv, expiry, user_data, .. } => Secret::Card { number, cvv, expiry, name: Some(m3.clone().into()), atm_pin: Some(marker(&mut r, "card.atm_pin", &mut all).into()), user_data },
                            o => o,
                        };
                        (m, s)
                    }
                    "bank" => {
                        let (m, s) = mock::bank(&label, &m1, &m2);
                        let s = match s {
                            Secret::Bank { number, routing, user_data, .. } => Secret::Bank { number, routing, iban: Some(m3.clone().into()), swift: Some(marker(&mut r, "bank.swift", &mut all).into()), bic: Some(marker(&mut r, "bank.bic", &mut all).into()), user_data },
                            o => o,
                        };
                        (m, s)
                    }
                    "link" => {
                        let (m, s) = mock::link(&label, &format!("https://example.com/{m1}"));
                        let s = match s {
                            Secret::Link { url, user_data, .. } => Secret::Link { url, label: Some(m2.clone().into()), title: Some(m3.clone().into()), user_data },
                            o => o,
                        };
                        (m, s)
                    }
                    "password" => {
                        let (m, s) = mock::password(&label, m1.clone().into());
                        let s = match s {
                            Secret::Password { password, user_data, .. } => Secret::Password { password, name: Some(m2.clone().into()), user_data },
                            o => o,
                        };
                        (m, s)
                    }
                    "identity" => mock::identity(&label, sos_vault::secret::IdentityKind::IdCard, &m1),
                    "age" => {
                        let (m, s) = mock::age(&label);
                        if let Secret::Age { key, .. } = &s {
                            use secrecy::ExposeSecret;
                            all.push(("age.key".into(), key.expose_secret().as_bytes().to_vec()));
                        }
                        (m, s)
                    }
                    "pem" => mock::pem(&label),
                    "totp" => mock::totp(&label),
                    "contact" => mock::contact(&label, &m1),
                    "file" => mock::internal_file(&label, &m1, "text/plain", m2.as_bytes()),
                    _ => mock::note(&label, &m1),
                };
                let tag = marker(&mut r, &format!("{kind}.tag"), &mut all);
                meta.set_tags([tag].into_iter().collect());
                meta.set_favorite(true);
                let secret = with_user_data(secret, &mut r, kind, &mut all);
                let mut a = acct.lock().await;
                match a.create_secret(meta, secret, AccessOptions { folder: Some(default), ..Default::default() }).await {
                    Ok(res) => created.push((res.id, kind.clone())),
                    Err(e) => writeln!(out, "{id} !create-failed {kind} {e:?}").unwrap(),
                }
            }
            // update the first, move the second into the other folder, archive the third
            {
                let mut a = acct.lock().await;
                if let Some((sid, kind)) = created.first().cloned() {
                    let label = marker(&mut r, &format!("{kind}.updated.label"), &mut all);
                    let text = marker(&mut r, &format!("{kind}.updated.text"), &mut all);
                    let (m, s) = mock::note(&label, &text);
                    let _ = a.update_secret(&sid, m, Some(s), AccessOptions { folder: Some(default), ..Default::default() }).await;
                }
                if let (Some((sid, _)), Some(dest)) = (created.get(1).cloned(), second) {
                    let _ = a.move_secret(&sid, &default, &dest, Default::default()).await;
                }
                if let Some((sid, _)) = created.get(2).cloned() {
                    let _ = a.archive(&default, &sid, Default::default()).await;
                }
                // a new folder password, then compaction
                let key: AccessKey = secrecy::SecretString::new(marker(&mut r, "folder.new_password", &mut all).into()).into();
                let _ = a.change_folder_password(&default, key).await;
                let _ = a.compact_folder(&default).await;
                // the keys the account itself holds
                for f in a.list_folders().await.unwrap_or_default() {
                    if let Ok(Some(AccessKey::Password(p))) = a.find_folder_password(f.id()).await {
                        use secrecy::ExposeSecret;
                        all.push((format!("folder_password.{}", &f.id().to_string()[..8]), p.expose_secret().as_bytes().to_vec()));
                    }
                }
                if let Ok(ds) = a.device_signer().await {
                    all.push(("device_signing_key".into(), ds.signing_key().to_bytes()));
                }
                {
                    use secrecy::ExposeSecret;
                    all.push(("account_password".into(), crate::sync::password().expose_secret().as_bytes().to_vec()));
                }
            }
            let _ = w.step("s0").await;
            let _ = w.step("s1").await;
            for op in &extra {
                let _ = w.step(op).await;
            }
            let _ = w.step("s0").await;
            let _ = w.step("s1").await;
            // a backup archive next to the account data
            {
                let a = acct.lock().await;
                let zip = w.base.join("d0").join("backup-export.zip");
                let res = a.export_backup_archive(&zip).await;
                writeln!(out, "{id} !export {}", res.is_ok()).unwrap();
            }
            // ---- scan
            let mut files: Vec<(String, Vec<u8>)> = vec![];
            read_tree(&w.base, "", &mut files);
            read_tree(&logs_dir, "sdk-logs", &mut files);
            // the names of the files are stored bytes too
            let names: Vec<u8> = files.iter().flat_map(|f| f.0.as_bytes().iter().copied().chain(std::iter::once(b'\n'))).collect();
            files.push(("<file-names>".into(), names));
            let wire: Vec<(String, Vec<u8>)> = WIRETAP.lock().unwrap().take().unwrap_or_default();
            let mut patterns = 0usize;
            let mut hits: Vec<String> = vec![];
            let mut canary_found = false;
            for (name, m) in &all {
                for (form, pat) in forms(m) {
                    patterns += 1;
                    for (rel, bytes) in &files {
                        if find(bytes, &pat) {
                            if name.starts_with("canary") {
                                canary_found = true;
                            } else {
                                hits.push(format!("marker={name} form={form} where={}", rel.replace(' ', "_")));
                            }
                        }
                    }
                    let mut seen_kinds = std::collections::BTreeSet::new();
                    for (kind, bytes) in &wire {
                        if find(bytes, &pat) && seen_kinds.insert(kind.clone()) {
                            if !name.starts_with("canary") {
                                hits.push(format!("marker={name} form={form} where=wire:{kind}"));
                            }
                        }
                    }
                }
            }
            writeln!(
                out,
                "{id} scan files={} bytes={} wire={} wirebytes={} markers={} patterns={patterns} secrets={} hits={} canary={}",
                files.len(),
                files.iter().map(|f| f.1.len()).sum::<usize>(),
                wire.len(),
                wire.iter().map(|f| f.1.len()).sum::<usize>(),
                all.len(),
                created.len(),
                hits.len(),
                if canary_found { "found" } else { "MISSING" }
            )
            .unwrap();
            for h in hits.iter().take(40) {
                writeln!(out, "{id} hit {h}").unwrap();
            }
            // the public fields of every stored folder event, as the SDK decodes them, next to the raw bytes
            // (the byte-level model splits the bytes into public and ciphertext chunks and must agree)
            {
                use futures::{pin_mut, StreamExt};
                use sos_core::events::{EventLog, WriteEvent};
                use sos_sync::StorageEventLogs;
                let a = acct.lock().await;
                let mut n = 0usize;
                for f in a.list_folders().await.unwrap_or_default() {
                    let Ok(log) = a.folder_log(f.id()).await else { continue };
                    let log = log.read().await;
                    let stream = EventLog::<WriteEvent>::record_stream(&*log, false).await;
                    pin_mut!(stream);
                    while let Some(Ok(rec)) = stream.next().await {
                        let bytes = rec.event_bytes().to_vec();
                        let Ok(ev) = rec.decode_event::<WriteEvent>().await else { continue };
                        let pack = |a: &sos_core::crypto::AeadPack| format!("{}:{}", hex::encode(a.nonce.as_ref()), a.ciphertext.len());
                        let desc = match &ev {
                            WriteEvent::CreateSecret(sid, c) => format!("kind=C id={} commit={} meta={} secret={}", hex::encode(sid.as_bytes()), hex::encode(c.0.as_ref()), pack(&c.1 .0), pack(&c.1 .1)),
                            WriteEvent::UpdateSecret(sid, c) => format!("kind=U id={} commit={} meta={} secret={}", hex::encode(sid.as_bytes()), hex::encode(c.0.as_ref()), pack(&c.1 .0), pack(&c.1 .1)),
                            WriteEvent::DeleteSecret(sid) => format!("kind=D id={}", hex::encode(sid.as_bytes())),
                            WriteEvent::SetVaultMeta(m) => format!("kind=M meta={}", pack(m)),
                            WriteEvent::SetVaultName(nm) => format!("kind=N name={}", hex::encode(nm.as_bytes())),
                            WriteEvent::SetVaultFlags(fl) => format!("kind=G flags={}", fl.bits()),
                            WriteEvent::CreateVault(b) => format!("kind=V len={}", b.len()),
                            _ => "kind=?".to_string(),
                        };
                        writeln!(out, "{id} ev {n} {desc}").unwrap();
                        writeln!(out, "{id} !evbytes {n} {}", hex::encode(&bytes)).unwrap();
                        n += 1;
                    }
                }
            }
            crate::acct::set_clock(0);
        });
        let _ = std::fs::remove_dir_all(base.join(&id));
    }
}
