(* Extraction of the executable model.  ExtrOcamlBasic only: bool, option, unit, list, prod,
   sumbool map to OCaml's; numbers stay Coq datatypes; no Extract Constant. *)
From Coq Require Extraction.
From Coq Require Import ExtrOcamlBasic.
From Coq Require Import List NArith.
From SosModel Require Import base.Sha256 model.Merkle base.Bytes model.Formats model.EventLog model.MergePatches model.Folder model.SyncProto model.Search model.SrvReq model.Paths model.Crash model.Auth model.Upgrade model.Taint model.Files model.ChangePassword.
Extraction "../driver/model.ml"
  Sha256.sha256
  Merkle.root Merkle.head Merkle.proof_at Merkle.tree_compare Merkle.verify_leaves
  Merkle.verify_leaves_pinned
  Formats.p_time Formats.e_time Formats.p_aead Formats.e_aead Formats.p_vcommit Formats.e_vcommit
  Formats.p_write_event Formats.e_write_event Formats.p_account_event Formats.e_account_event
  Formats.p_file_event Formats.e_file_event Formats.p_record Formats.e_record
  Formats.p_cproof Formats.e_cproof Formats.p_cstate Formats.e_cstate
  Formats.p_comparison Formats.e_comparison Formats.decode_top Formats.tagset_reencode
  EventLog.log_apply EventLog.log_reopen EventLog.log_clear EventLog.log_rewind
  EventLog.log_patch_checked EventLog.log_replace_all EventLog.rewind_and_patch EventLog.proof_eqb
  MergePatches.merge_patches
  Folder.vstep Folder.reduce Folder.build Folder.compact Folder.op_create Folder.op_update Folder.op_delete
  SyncProto.sync_log
  Search.empty_index Search.new_index Search.ix_add Search.ix_remove Search.ix_update Search.ix_remove_vault Search.ix_force Search.ix_forget Search.count_folder
  SrvReq.srv_step
  Paths.sanitize_file_path
  Crash.open_kind Crash.open_kind_rev Crash.steps_create Crash.steps_update Crash.steps_delete Crash.run
  Auth.authorize Auth.reduce_devices
  Upgrade.import Upgrade.db_log
  Taint.split_event Taint.join
  Files.freduce Files.receive
  ChangePassword.id_lookup ChangePassword.id_save.
