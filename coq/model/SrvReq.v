(* The server's side of the sync protocol at request granularity (handlers/account.rs +
   server_helpers.rs), one event log.  Every request runs under the per-account write lock, so
   requests of different devices interleave only at request boundaries.
     ReqDiff  root patch        : a MaybeDiff::Diff inside a sync packet (checked patch)
     ReqPatch c root patch      : event_patch = rewind to c, checked patch, rollback on conflict
   The checked patch applies iff the root of the (rewound) tree equals the checkpoint's root —
   the Equal branch of CommitTree::compare.  Definitions only. *)
From Coq Require Import List NArith Bool.
From SosModel Require Import model.Merkle model.EventLog.
Import ListNotations.

Section SrvReq.
Variable hash : Type.
Variable hash_eqb : hash -> hash -> bool.
Variable H2 : hash -> hash -> hash.
Variables tm dat : Type.
Notation elog := (@elog hash tm dat).
Notation erec := (@erec hash tm dat).

Inductive request :=
| ReqDiff (checkpoint_root : hash) (patch : list erec)
| ReqPatch (c : hash) (checkpoint_root : hash) (patch : list erec)
| ReqInit (default_root : hash) (patch : list erec)   (* files log: checkpoint = CommitProof::default() *)
| ReqRead.                                  (* status / scan / diff: no effect *)

Definition head_is (l : elog) (r : hash) : bool :=
  match root hash H2 (l_tree l) with Some x => hash_eqb x r | None => false end.

Definition srv_step (l : elog) (q : request) : elog * bool :=
  match q with
  | ReqRead => (l, true)
  | ReqDiff r patch => if head_is l r then (log_apply hash tm dat l patch, true) else (l, false)
  | ReqInit r patch =>
      (* merge_files: an initial diff is applied unchecked only when the log is empty; otherwise
         it goes through the checked patch like any other diff *)
      match l_tree l with
      | [] => (log_apply hash tm dat l patch, true)
      | _ => if head_is l r then (log_apply hash tm dat l patch, true) else (l, false)
      end
  | ReqPatch c r patch =>
      match log_rewind hash hash_eqb tm dat l c with
      | RwOk l1 removed =>
          if head_is l1 r then (log_apply hash tm dat l1 patch, true)
          else (log_apply hash tm dat l1 removed, false)
      | _ => (l, false)
      end
  end.

Definition srv_run (l : elog) (qs : list request) : elog := fold_left (fun s q => fst (srv_step s q)) qs l.
End SrvReq.
Arguments ReqDiff {hash tm dat}. Arguments ReqPatch {hash tm dat}. Arguments ReqRead {hash tm dat}.
Arguments ReqInit {hash tm dat}.
