(* Folders at the level of decrypted values: Vault contents (IndexMap = insertion-ordered
   association list), the FolderReducer (reduce / build / compact), the effect of local
   operations and of merge replay (folder_sync.rs, after fix 'merge replay follows the event
   log') on the in-memory vault.  Encryption is symbolic: [val] is the decrypted content.
   Definitions only. *)
From Coq Require Import List NArith Bool.
Import ListNotations.

Section Folder.
Variables id val name meta : Type.
Variable id_eqb : id -> id -> bool.

(* IndexMap<SecretId, VaultCommit> *)
Definition imap := list (id * val).
Fixpoint im_get (i : id) (m : imap) : option val :=
  match m with [] => None | (j, v) :: r => if id_eqb j i then Some v else im_get i r end.
(* IndexMap::insert: replace in place, or append *)
Fixpoint im_insert (i : id) (v : val) (m : imap) : imap :=
  match m with
  | [] => [(i, v)]
  | (j, w) :: r => if id_eqb j i then (j, v) :: r else (j, w) :: im_insert i v r
  end.
(* IndexMap::shift_remove (keys are unique; written as a filter so that it is total on any list) *)
Definition im_remove (i : id) (m : imap) : imap :=
  filter (fun p => negb (id_eqb (fst p) i)) m.
(* entry(id).or_insert(v) *)
Definition im_or_insert (i : id) (v : val) (m : imap) : imap :=
  match im_get i m with Some _ => m | None => m ++ [(i, v)] end.

Record vault := mkVault { v_name : name; v_flags : N; v_meta : option meta; v_secrets : imap }.

Inductive wevent :=
| EvCreateVault (v : vault)
| EvSetName (n : name) | EvSetFlags (f : N) | EvSetMeta (m : meta)
| EvCreate (i : id) (v : val) | EvUpdate (i : id) (v : val) | EvDelete (i : id).

(* what one event does to a vault when the log is replayed: FolderReducer::reduce + build,
   and (after the fix) the merge replay of folder_sync.rs *)
Definition vstep (v : vault) (e : wevent) : vault :=
  match e with
  | EvCreateVault _ => v
  | EvSetName n => mkVault n (v_flags v) (v_meta v) (v_secrets v)
  | EvSetFlags f => mkVault (v_name v) f (v_meta v) (v_secrets v)
  | EvSetMeta m => mkVault (v_name v) (v_flags v) (Some m) (v_secrets v)
  | EvCreate i x | EvUpdate i x => mkVault (v_name v) (v_flags v) (v_meta v) (im_insert i x (v_secrets v))
  | EvDelete i => mkVault (v_name v) (v_flags v) (v_meta v) (im_remove i (v_secrets v))
  end.

(* ---- FolderReducer ---- *)
Record reducer := mkRed {
  r_vault : vault;            (* the decoded CreateVault snapshot *)
  r_name : option name; r_flags : option N; r_meta : option meta; r_secrets : imap }.

Definition rstep (r : reducer) (e : wevent) : option reducer :=
  match e with
  | EvCreateVault _ => None                     (* Error::CreateEventOnlyFirst *)
  | EvSetName n => Some (mkRed (r_vault r) (Some n) (r_flags r) (r_meta r) (r_secrets r))
  | EvSetFlags f => Some (mkRed (r_vault r) (r_name r) (Some f) (r_meta r) (r_secrets r))
  | EvSetMeta m => Some (mkRed (r_vault r) (r_name r) (r_flags r) (Some m) (r_secrets r))
  | EvCreate i x | EvUpdate i x =>
      Some (mkRed (r_vault r) (r_name r) (r_flags r) (r_meta r) (im_insert i x (r_secrets r)))
  | EvDelete i => Some (mkRed (r_vault r) (r_name r) (r_flags r) (r_meta r) (im_remove i (r_secrets r)))
  end.
Fixpoint rfold (r : reducer) (es : list wevent) : option reducer :=
  match es with
  | [] => Some r
  | e :: es' => match rstep r e with Some r' => rfold r' es' | None => None end
  end.
Definition reduce (log : list wevent) : option reducer :=
  match log with
  | EvCreateVault v0 :: es => rfold (mkRed v0 None None None []) es
  | _ => None                                   (* CreateEventMustBeFirst / empty *)
  end.

Definition opt_or {A} (o : option A) (d : A) : A := match o with Some a => a | None => d end.
(* FolderReducer::build(true): overrides applied, every reduced secret inserted *)
Definition build (r : reducer) : vault :=
  mkVault (opt_or (r_name r) (v_name (r_vault r))) (opt_or (r_flags r) (v_flags (r_vault r)))
          (match r_meta r with Some m => Some m | None => v_meta (r_vault r) end)
          (fold_left (fun m p => im_insert (fst p) (snd p) m) (r_secrets r) (v_secrets (r_vault r))).

(* FolderReducer::compact (flags applied since fix 'compact keeps folder flags') *)
Definition compact (r : reducer) : list wevent :=
  EvCreateVault (mkVault (opt_or (r_name r) (v_name (r_vault r))) (opt_or (r_flags r) (v_flags (r_vault r)))
                         (match r_meta r with Some m => Some m | None => v_meta (r_vault r) end)
                         (v_secrets (r_vault r)))
  :: map (fun p => EvCreate (fst p) (snd p)) (r_secrets r).

(* ---- local operations: new vault and the event appended to the log ---- *)
Definition op_create (v : vault) (i : id) (x : val) : vault * option wevent :=
  let s := im_or_insert i x (v_secrets v) in
  (mkVault (v_name v) (v_flags v) (v_meta v) s,
   match im_get i s with Some y => Some (EvCreate i y) | None => None end).
Definition op_update (v : vault) (i : id) (x : val) : vault * option wevent :=
  match im_get i (v_secrets v) with
  | Some _ => (mkVault (v_name v) (v_flags v) (v_meta v) (im_insert i x (v_secrets v)), Some (EvUpdate i x))
  | None => (v, None)
  end.
Definition op_delete (v : vault) (i : id) : vault * option wevent :=
  match im_get i (v_secrets v) with
  | Some _ => (mkVault (v_name v) (v_flags v) (v_meta v) (im_remove i (v_secrets v)), Some (EvDelete i))
  | None => (v, None)
  end.

(* observable content of a folder: name, flags, description, id |-> value (order-free) *)
Definition same_folder (a b : vault) : Prop :=
  v_name a = v_name b /\ v_flags a = v_flags b /\ v_meta a = v_meta b /\
  forall i, im_get i (v_secrets a) = im_get i (v_secrets b).

(* which part of the folder an event writes *)
Inductive key := KName | KFlags | KMeta | KId (i : id) | KNone.
Definition touches (e : wevent) : key :=
  match e with
  | EvCreateVault _ => KNone | EvSetName _ => KName | EvSetFlags _ => KFlags | EvSetMeta _ => KMeta
  | EvCreate i _ | EvUpdate i _ | EvDelete i => KId i
  end.
End Folder.
