(* C08 — Commit comparison tells the truth about who is ahead.
   Property theorems only: each is closed by [exact], pinned by [Check], followed by
   [Print Assumptions].  hash, hash_eqb (with its spec) and H2 are universally quantified:
   the theorems hold for every hash function, with collisions as an explicit disjunct. *)
From Coq Require Import List NArith.
From SosModel Require Import base.Sha256 model.Merkle proofs.Merkle_Lemmas proofs.Merkle_Sha.
Import ListNotations.

Section C08.
Variable hash : Type.
Variable hash_eqb : hash -> hash -> bool.
Hypothesis hash_eqb_spec : forall a b, hash_eqb a b = true <-> a = b.
Variable H2 : hash -> hash -> hash.
Notation Collision := (Collision hash H2).
Notation Confusion := (Confusion hash H2).
Notation head := (head hash H2).
Notation proof_at := (proof_at hash H2).
Notation cmp := (tree_compare hash hash_eqb H2).
Notation lenN := (lenN hash).

(* 'equal' only when both hold the same sequence *)
Theorem C08_equal_sound l1 l2 p : l1 <> [] -> l2 <> [] -> head l2 = Some p ->
  cmp l1 p = Some CmpEqual -> l1 = l2 \/ Collision \/ Confusion l1 l2.
Proof. exact (equal_sound hash hash_eqb hash_eqb_spec H2 l1 l2 p). Qed.

Theorem C08_equal_complete l p : l <> [] -> head l = Some p -> cmp l p = Some CmpEqual.
Proof. exact (equal_complete hash hash_eqb hash_eqb_spec H2 l p). Qed.

(* what 'contains' establishes in the code as written *)
Theorem C08_contains_char l1 l2 p ix : l1 <> [] -> l2 <> [] -> head l2 = Some p ->
  cmp l1 p = Some (CmpContains ix) ->
  ix = [(lenN l2 - 1)%N] /\ l1 <> l2 /\
  (nth_error l1 (N.to_nat (lenN l2 - 1)) = nth_error l2 (N.to_nat (lenN l2 - 1)) \/ Collision).
Proof. exact (contains_char hash hash_eqb hash_eqb_spec H2 l1 l2 p ix). Qed.

(* 'contains' only when the other log is a proper prefix, the suffix after the reported
   position being exactly what the other side lacks — outside the known class *)
Theorem C08_contains_sound_outside_known_class l1 l2 p ix :
  l1 <> [] -> l2 <> [] -> head l2 = Some p ->
  cmp l1 p = Some (CmpContains ix) -> ~ SameLeafNotPrefix hash l1 l2 ->
  (prefix hash l2 l1 /\ l1 <> l2 /\ ix = [(lenN l2 - 1)%N] /\ l1 = l2 ++ skipn (length l2) l1)
  \/ Collision.
Proof. exact (contains_sound_outside_known_class hash hash_eqb hash_eqb_spec H2 l1 l2 p ix). Qed.

Theorem C08_contains_complete l2 s p : l2 <> [] -> s <> [] -> head l2 = Some p ->
  cmp (l2 ++ s) p = Some (CmpContains [(lenN l2 - 1)%N]) \/ Collision \/ Confusion (l2 ++ s) l2.
Proof. exact (contains_complete hash hash_eqb hash_eqb_spec H2 l2 s p). Qed.

(* in every other case 'unknown': an Unknown answer is never given for a prefix *)
Theorem C08_unknown_not_prefix l1 l2 p : l1 <> [] -> l2 <> [] -> head l2 = Some p ->
  cmp l1 p = Some CmpUnknown -> prefix hash l2 l1 -> Collision \/ Confusion l1 l2.
Proof. exact (unknown_not_prefix hash hash_eqb hash_eqb_spec H2 l1 l2 p). Qed.

(* a proof from a log of one length verifies against a replica of any length exactly when
   the proven position agrees *)
Theorem C08_verify_leaves_sound l2 i p L : l2 <> [] -> (i < lenN l2)%N ->
  proof_at l2 i = Some p -> verify_leaves hash hash_eqb H2 p L = true ->
  nth_error L (N.to_nat i) = nth_error l2 (N.to_nat i) \/ Collision.
Proof. exact (verify_leaves_sound hash hash_eqb hash_eqb_spec H2 l2 i p L). Qed.

Theorem C08_verify_leaves_complete l2 i p L : l2 <> [] -> (i < lenN l2)%N ->
  proof_at l2 i = Some p ->
  nth_error L (N.to_nat i) = nth_error l2 (N.to_nat i) ->
  verify_leaves hash hash_eqb H2 p L = true.
Proof. exact (verify_leaves_complete hash hash_eqb hash_eqb_spec H2 l2 i p L). Qed.

Theorem C08_root_injective l1 l2 : l1 <> [] ->
  root hash H2 l1 = root hash H2 l2 -> l1 = l2 \/ Collision \/ Confusion l1 l2.
Proof. exact (root_inj hash hash_eqb hash_eqb_spec H2 l1 l2). Qed.
End C08.

(* the full 'contains ⇒ prefix' statement is refuted by the faithful model (finding O1) *)
Theorem C08_contains_sound_refuted :
  exists p, hd w_l2 = Some p /\ cmp w_l1 p = Some (CmpContains [1%N]) /\
            firstn (length w_l2) w_l1 <> w_l2.
Proof. exact contains_not_prefix_witness. Qed.

Theorem C08_nonvacuous_contains :
  exists p, hd [leaf 0; leaf 1] = Some p /\
            cmp [leaf 0; leaf 1; leaf 2] p = Some (CmpContains [1%N]).
Proof. exact nonvacuous_contains. Qed.
Theorem C08_nonvacuous_unknown :
  exists p, hd [leaf 0; leaf 1] = Some p /\ cmp [leaf 0; leaf 2; leaf 2] p = Some CmpUnknown.
Proof. exact nonvacuous_unknown. Qed.

Print Assumptions C08_equal_sound.
Print Assumptions C08_equal_complete.
Print Assumptions C08_contains_char.
Print Assumptions C08_contains_sound_outside_known_class.
Print Assumptions C08_contains_complete.
Print Assumptions C08_unknown_not_prefix.
Print Assumptions C08_verify_leaves_sound.
Print Assumptions C08_verify_leaves_complete.
Print Assumptions C08_root_injective.
Print Assumptions C08_contains_sound_refuted.
Print Assumptions C08_nonvacuous_contains.
Print Assumptions C08_nonvacuous_unknown.
