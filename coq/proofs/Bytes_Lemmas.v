(* Round-trip lemmas for the primitives of base/Bytes.v; all in the `++ rest` form so that
   composite formats follow by rewriting left to right. *)
From Coq Require Import List NArith ZArith Bool Lia Arith ZifyN ZifyNat ZifyBool.
From SosModel Require Import base.Bytes.
Import ListNotations.
Ltac Zify.zify_post_hook ::= Z.div_mod_to_equations.
Local Open Scope N_scope.
Arguments N.mul : simpl never. Arguments N.add : simpl never.
Arguments N.div : simpl never. Arguments N.modulo : simpl never.
Arguments N.pow : simpl never. Arguments N.of_nat : simpl never.

Lemma le_bytes_length k : forall x, length (le_bytes k x) = k.
Proof. induction k as [|k IH]; intro x; cbn [le_bytes length]; [reflexivity|]. rewrite IH. reflexivity. Qed.

Lemma of_le_le_bytes k : forall x, x < 256 ^ N.of_nat k -> of_le (le_bytes k x) = x.
Proof.
  induction k as [|k IH]; intros x Hx.
  - cbn [le_bytes of_le]. change (256 ^ N.of_nat 0) with 1 in Hx. lia.
  - cbn [le_bytes of_le]. rewrite IH.
    + pose proof (N.div_mod' x 256). lia.
    + replace (N.of_nat (S k)) with (N.succ (N.of_nat k)) in Hx by lia.
      rewrite N.pow_succ_r' in Hx. apply N.div_lt_upper_bound; lia.
Qed.

Lemma take_app n a rest : lenb a = n -> take n (a ++ rest) = Some (a, rest).
Proof.
  intro H. unfold take, lenb in *. rewrite app_length.
  assert ((N.of_nat (length a + length rest) <? n) = false) as -> by lia.
  assert (N.to_nat n = length a) as -> by lia.
  rewrite firstn_app, Nat.sub_diag, firstn_all, skipn_app, Nat.sub_diag, skipn_all. cbn.
  rewrite app_nil_r. reflexivity.
Qed.

Lemma take_short n s : lenb s < n -> take n s = None.
Proof. intro H. unfold take. assert ((lenb s <? n) = true) as -> by lia. reflexivity. Qed.

Lemma take_consumes n s a r : take n s = Some (a, r) -> s = a ++ r /\ lenb a = n.
Proof.
  unfold take. destruct (lenb s <? n) eqn:E; [discriminate|]. intro H. injection H as <- <-.
  split; [symmetry; apply firstn_skipn|]. unfold lenb in *. rewrite firstn_length. lia.
Qed.

Lemma p_uint_rt k x rest : x < 256 ^ N.of_nat k ->
  p_uint k (le_bytes k x ++ rest) = Some (x, rest).
Proof.
  intro Hx. unfold p_uint, bind. rewrite take_app.
  - unfold ret. rewrite of_le_le_bytes by exact Hx. reflexivity.
  - unfold lenb. rewrite le_bytes_length. reflexivity.
Qed.

Lemma p_u8_rt x rest : x < 256 -> p_u8 (e_u8 x ++ rest) = Some (x, rest).
Proof. intro H. apply p_uint_rt. exact H. Qed.
Lemma p_u16_rt x rest : x < 65536 -> p_u16 (e_u16 x ++ rest) = Some (x, rest).
Proof. intro H. apply p_uint_rt. exact H. Qed.
Lemma p_u32_rt x rest : x < 4294967296 -> p_u32 (e_u32 x ++ rest) = Some (x, rest).
Proof. intro H. apply p_uint_rt. exact H. Qed.
Lemma p_u64_rt x rest : x < two64 -> p_u64 (e_u64 x ++ rest) = Some (x, rest).
Proof. intro H. apply p_uint_rt. exact H. Qed.

Lemma p_i64_rt z rest : (- Z.of_N two63 <= z < Z.of_N two63)%Z ->
  p_i64 (e_i64 z ++ rest) = Some (z, rest).
Proof.
  intro Hz. unfold p_i64, e_i64, bind. rewrite p_u64_rt.
  - unfold ret. f_equal. f_equal. unfold two63, two64 in *.
    destruct (Z.to_N (z mod Z.of_N 18446744073709551616) <? 9223372036854775808) eqn:E; lia.
  - unfold two64. lia.
Qed.

Lemma p_bool_rt b rest : p_bool (e_bool b ++ rest) = Some (b, rest).
Proof.
  unfold p_bool, e_bool, bind. destruct b; rewrite p_u8_rt by lia; reflexivity.
Qed.

Section Guarded.
Variable MAX : N.

Lemma p_bytes_n_rt n b rest : lenb b = n -> n <= MAX ->
  p_bytes_n MAX n (b ++ rest) = Some (b, rest).
Proof.
  intros Hl Hm. unfold p_bytes_n. assert ((MAX <? n) = false) as -> by lia.
  apply take_app. exact Hl.
Qed.

Lemma p_bytes32_rt b rest : lenb b <= MAX -> lenb b < 4294967296 ->
  p_bytes32 MAX (e_bytes32 b ++ rest) = Some (b, rest).
Proof.
  intros Hm H32. unfold p_bytes32, e_bytes32, bind. rewrite <- app_assoc, p_u32_rt by exact H32.
  apply p_bytes_n_rt; [reflexivity|exact Hm].
Qed.

Lemma p_string_rt b rest : lenb b <= MAX -> lenb b < 4294967296 -> utf8_valid b = true ->
  p_string MAX (e_bytes32 b ++ rest) = Some (b, rest).
Proof.
  intros Hm H32 Hu. unfold p_string, bind. rewrite p_bytes32_rt by assumption. rewrite Hu. reflexivity.
Qed.

(* allocation guard: a guarded read never yields (hence never allocates) more than MAX bytes,
   and what it yields is a prefix of the input *)
Lemma p_bytes_n_bound n s b r : p_bytes_n MAX n s = Some (b, r) ->
  lenb b = n /\ n <= MAX /\ s = b ++ r.
Proof.
  unfold p_bytes_n. destruct (MAX <? n) eqn:E; [discriminate|]. intro H.
  apply take_consumes in H. destruct H as [Hs Hl]. repeat split; [exact Hl|lia|exact Hs].
Qed.
End Guarded.

(* Vec<T> *)
Lemma p_items_rt (A : Type) (p : parser A) (e : A -> bytes) (ok : A -> Prop) :
  (forall a rest, ok a -> p (e a ++ rest) = Some (a, rest)) ->
  forall l fuel rest, Forall ok l -> (length l <= fuel)%nat ->
  p_items fuel (N.of_nat (length l)) p (flat_map e l ++ rest) = Some (l, rest).
Proof.
  intros Hrt. induction l as [|a l IH]; intros fuel rest Hok Hf.
  - destruct fuel; reflexivity.
  - destruct fuel as [|f]; [cbn [length] in Hf; lia|].
    cbn [p_items]. assert ((N.of_nat (length (a :: l)) =? 0) = false) as -> by (cbn [length]; lia).
    unfold bind. cbn [flat_map]. rewrite <- app_assoc.
    inversion Hok as [|? ? Ha Hl]; subst. rewrite Hrt by exact Ha.
    replace (N.of_nat (length (a :: l)) - 1) with (N.of_nat (length l)) by (cbn [length]; lia).
    rewrite IH; [reflexivity|exact Hl|cbn [length] in Hf; lia].
Qed.

Lemma flat_map_length_ge (A : Type) (e : A -> bytes) (l : list A) :
  (forall a, (1 <= length (e a))%nat) -> (length l <= length (flat_map e l))%nat.
Proof.
  intro H1. induction l as [|a l IH]; [cbn; lia|]. cbn [flat_map length]. rewrite app_length.
  pose proof (H1 a). lia.
Qed.

Lemma p_vec_rt (A : Type) (p : parser A) (e : A -> bytes) (ok : A -> Prop) l rest :
  (forall a rest, ok a -> p (e a ++ rest) = Some (a, rest)) ->
  (forall a, (1 <= length (e a))%nat) ->
  Forall ok l -> N.of_nat (length l) < 4294967296 ->
  p_vec p (e_vec e l ++ rest) = Some (l, rest).
Proof.
  intros Hrt H1 Hok H32. unfold p_vec, e_vec, bind. rewrite <- app_assoc, p_u32_rt by exact H32.
  apply p_items_rt with (ok := ok); [exact Hrt|exact Hok|].
  rewrite !app_length. pose proof (flat_map_length_ge A e l H1). lia.
Qed.

Lemma p_option_rt (A : Type) (p : parser A) (e : A -> bytes) (ok : A -> Prop) o rest :
  (forall a rest, ok a -> p (e a ++ rest) = Some (a, rest)) ->
  (match o with Some a => ok a | None => True end) ->
  p_option p (e_option e o ++ rest) = Some (o, rest).
Proof.
  intros Hrt Ho. unfold p_option, e_option, bind. destruct o as [a|].
  - rewrite <- app_assoc, p_bool_rt, Hrt by exact Ho. reflexivity.
  - rewrite p_bool_rt. reflexivity.
Qed.

(* p_items cannot spin: it never returns more items than its fuel, whatever the count says *)
Lemma p_items_fuel (A : Type) (p : parser A) : forall fuel count s l r,
  p_items fuel count p s = Some (l, r) -> (length l <= fuel)%nat /\ N.of_nat (length l) = count.
Proof.
  induction fuel as [|f IH]; intros count s l r H; cbn [p_items] in H.
  - destruct (count =? 0) eqn:E; [|discriminate]. injection H as <- <-. cbn [length]. lia.
  - destruct (count =? 0) eqn:E.
    + injection H as <- <-. cbn [length]. lia.
    + unfold bind in H. destruct (p s) as [[a s']|]; [|discriminate].
      destruct (p_items f (count - 1) p s') as [[l' r']|] eqn:E'; [|discriminate].
      injection H as <- <-. apply IH in E'. cbn [length]. lia.
Qed.
