(* C06/C07: runs the extracted event-log model on an op sequence; prints the same lines as
   the harness.  time = string token, data = event bytes (string), hash = 32-byte string. *)
open Model
open Glue

type rc = (string, string, string) erec
type lg = (string, string, string) elog

let uuid_of k = String.init 16 (fun i ->
  if i < 4 then Char.chr ((k lsr (8 * i)) land 255) else if i = 6 then '\x40' else '\x00')
let event_bytes (k : int) : string =
  let ev = if k mod 2 = 0 then WDeleteSecret (bytes_of_string (uuid_of k))
           else WSetVaultName (bytes_of_string ("n" ^ string_of_int k)) in
  string_of_bytes (e_write_event ev)
let commit_of k = sha256_str (event_bytes k)

let record_for (spec : string) : rc =
  let forged = String.length spec > 0 && spec.[String.length spec - 1] = '!' in
  let spec = if forged then String.sub spec 0 (String.length spec - 1) else spec in
  match String.split_on_char '@' spec with
  | [k; t] ->
    let k = int_of_string k in
    { er_time = t; er_commit = (if forged then commit_of (k + 1000) else commit_of k);
      er_data = event_bytes k }
  | _ -> failwith ("bad record spec " ^ spec)
let records_for s = List.map record_for (split_on ',' s)

let fmt_rec (r : rc) : string =
  Printf.sprintf "%s:%s@%s" (String.sub (hex_of_string r.er_commit) 0 8)
    (String.sub (hex_of_string (sha256_str r.er_data)) 0 4) r.er_time
let fmt_recs rs = String.concat "," (List.map fmt_rec rs)
let root_hex leaves = match root h2 leaves with Some r -> hex_of_string r | None -> "-"

let observe id step (logs : lg array) =
  Array.iteri (fun i (l : lg) ->
    let stored = List.map (fun r -> r.er_commit) l.l_recs in
    Printf.printf "%s %d L%d len=%d root=%s fwd=%s rev=%s hashok=%d re=%s/%d\n" id step i
      (List.length l.l_tree) (root_hex l.l_tree) (fmt_recs l.l_recs) (fmt_recs (List.rev l.l_recs))
      (if List.for_all (fun r -> sha256_str r.er_data = r.er_commit) l.l_recs then 1 else 0)
      (root_hex stored) (List.length stored)) logs

let server_mode = ref (fun (_ : string) -> ())
let run_line (line : string) : unit =
  let toks = String.split_on_char ' ' line |> List.filter (fun s -> s <> "") in
  match toks with
  | _ :: _ :: ("init" | "req") :: _ -> !server_mode line
  | _ :: id :: rest ->
    let ops = match kv rest "ops" with Some o -> split_on '|' o | None -> [] in
    let logs : lg array = Array.make 4 { l_recs = []; l_tree = [] } in
    let prev : string proof option array = Array.make 4 None in
    let head_of (l : lg) = head h2 l.l_tree in
    let proof_for l kind =
      if kind = "head" then head_of logs.(l)
      else if kind = "prev" then prev.(l)
      else if String.length kind > 5 && String.sub kind 0 5 = "other" then
        head_of logs.(int_of_string (String.sub kind 5 (String.length kind - 5)))
      else if String.length kind >= 3 && String.sub kind 0 3 = "seq" then
        head h2 (List.map (fun k -> commit_of (int_of_string k))
                   (split_on ';' (String.sub kind 3 (String.length kind - 3))))
      else None in
    observe id 0 logs;
    List.iteri (fun n op ->
      let step = n + 1 in
      let parts = Array.of_list (String.split_on_char ':' op) in
      let arg i = if i < Array.length parts then parts.(i) else "" in
      let res = match parts.(0) with
        | "ro" -> Array.iteri (fun i l -> logs.(i) <- log_reopen l) logs; "ok"
        | "ar" | "pu" ->
          let l = int_of_string (arg 1) in
          let rs = records_for (arg 2) in
          prev.(l) <- head_of logs.(l);
          if rs <> [] then logs.(l) <- log_apply logs.(l) rs; "ok"
        | "ap" ->
          let l = int_of_string (arg 1) in
          let rs = List.map (fun k -> record_for (k ^ "@*")) (split_on ',' (arg 2)) in
          prev.(l) <- head_of logs.(l);
          if rs <> [] then logs.(l) <- log_apply logs.(l) rs; "ok"
        | "pc" ->
          let l = int_of_string (arg 1) in
          (match proof_for l (arg 2) with
           | None -> "noproof"
           | Some p ->
             let before = head_of logs.(l) in
             let rs = records_for (arg 3) in
             (match log_patch_checked hash_eqb h2 logs.(l) p rs with
              | PcSuccess l' -> if rs <> [] then logs.(l) <- l'; prev.(l) <- before; "success"
              | PcConflict c -> "conflict:" ^ (if c then "contains" else "none")
              | PcNoRoot -> "err:NoRootCommit"))
        | "rw" ->
          let l = int_of_string (arg 1) in
          let target = arg 2 in
          let commit =
            if target.[0] = 'i' then
              List.nth_opt logs.(l).l_tree (int_of_string (String.sub target 1 (String.length target - 1)))
            else Some (commit_of (int_of_string (String.sub target 1 (String.length target - 1)))) in
          (match commit with
           | None -> "notarget"
           | Some c ->
             prev.(l) <- head_of logs.(l);
             (match log_rewind hash_eqb logs.(l) c with
              | RwOk (l', removed) -> logs.(l) <- l'; "ok rewound=" ^ fmt_recs removed
              | RwNotFound -> "err:CommitNotFound"
              | RwLeaves -> "err:RewindLeavesLength"))
        | "cl" ->
          let l = int_of_string (arg 1) in
          prev.(l) <- head_of logs.(l); logs.(l) <- log_clear logs.(l); "ok"
        | "ra" ->
          let l = int_of_string (arg 1) in
          let rs = records_for (arg 3) in
          let ckpt = match arg 2 with
            | "ok" -> head h2 (List.map (fun r -> r.er_commit) rs)
            | "cur" -> head_of logs.(l)
            | k -> proof_for l k in
          (match ckpt with
           | None -> "noproof"
           | Some p ->
             prev.(l) <- head_of logs.(l);
             (match log_replace_all hash_eqb h2 logs.(l) p rs with
              | RaOk l' -> logs.(l) <- l'; "ok"
              | RaNoRoot -> "err:NoRootCommit"
              | RaCheckpoint -> "err:CheckpointVerification"))
        | _ -> "badop" in
      Printf.printf "%s %d res=%s\n" id step res;
      observe id step logs) ops
  | _ -> ()
