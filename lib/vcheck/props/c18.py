"""C18 — backup archives restore the same account and cannot escape their target.
(1) sanitiser: generated hostile entry names through the real sos_archive::sanitize_file_path
    and the extracted Coq model, byte-exact;
(2) restore: accounts built by generated histories are exported and imported into empty
    storage (v2 file-system, v3 SQLite), signed in, decrypted snapshots compared;
(3) hostile archives: every archive is rewritten (python zipfile) with one mutation at a time —
    a content byte of an entry, a manifest checksum, extra entries whose names try to leave
    the target — and imported into a sandbox; the tree of the sandbox is listed afterwards."""
import json, os, zipfile, shutil
from vcheck import core

ID = "C18"
SUB = "c18"
LEVEL = "proof"
RESILIENT = True
IMPL_TIMEOUT = 3000
RULE = ("sanitiser: names built from path-attack fragments (../, ..\\\\, absolute, drive prefixes, control and reserved "
        "characters, over-long components, multi-byte characters around the 255-byte cut); restore: accounts with several "
        "folders, flags, descriptions, deleted secrets; hostile archives: one mutation each (content byte, checksum, "
        "escaping entry name); non-trivial = name contains a separator or dot component / archive differs from the exported "
        "one; distinct by case line")
TRUSTED_BASE = ["model/Paths.v transcribes sanitize-filename 0.6 (non-windows options) and sanitize_file_path's PathBuf collection",
                "zip parsing (async_zip) is trusted; python's zipfile rewrites the archives for the hostile cases"]
ASSUMPTIONS = ["symlinks inside the target directory are out of scope"]
FRAG = ["..", ".", "", "files", "a", "con", "x" * 300, "\u00e9" * 130, "\u65e5" * 90, "a\u0001b", "a:b", "C:", "b|c", " ..", ".. ", "...", "\u0085", "a\u009fb", "\U0001F511" * 70, "q?*<>\"", "tab\tx"]
SEPS = ["/", "\\", "//", "/./", "\\..\\", "/../"]


def corpus():
    hx = lambda s: s.encode("utf-8").hex()
    return ["c18 k1 mode=san N=" + hx("files/../../etc/passwd"),
            "c18 k2 mode=san N=" + hx("a\\..\\b/./c:d/.."),
            "c18 k3 mode=san N=" + hx("/abs/..//x"),
            "c18 k4 mode=san N=" + hx("." * 255 + "a/b"),
            "c18 k5 mode=san N=" + hx("\u00e9" * 128 + "/..")]


def gen_names(rng, n):
    out = []
    for j in range(n):
        parts = [rng.choice(FRAG) for _ in range(rng.randrange(1, 6))]
        name = ""
        for i, p in enumerate(parts):
            name += p
            if i + 1 < len(parts) or rng.random() < 0.2:
                name += rng.choice(SEPS)
        if rng.random() < 0.15:
            name = rng.choice(SEPS) + name
        out.append("c18 n%d mode=san N=%s" % (j, name.encode("utf-8").hex()))
    return out


def rewrite(src, dst, mutate):
    """copy a zip applying mutate(name, data) -> data | None (drop) and optional extra entries"""
    zin = zipfile.ZipFile(src)
    zout = zipfile.ZipFile(dst, "w", zipfile.ZIP_DEFLATED)
    extra = []
    for info in zin.infolist():
        data = zin.read(info.filename)
        res = mutate(info.filename, data, extra)
        if res is not None:
            zout.writestr(info.filename, res)
    for name, data in extra:
        zi = zipfile.ZipInfo(name)           # ZipInfo keeps the name exactly as given
        zout.writestr(zi, data)
    zout.close()


def gen_cases(rng, tier):
    out = gen_names(rng, 3000 if tier == "quick" else 50000)
    wd = os.path.join(core.WORK, "C18", "zips")
    shutil.rmtree(wd, ignore_errors=True); os.makedirs(wd)
    naccounts = 2 if tier == "quick" else 12
    spec = []
    for j in range(naccounts):
        for be in ("fs", "db"):
            ops = []
            for _ in range(rng.randrange(4, 10)):
                r = rng.random()
                ops.append(("c0:%s" if r < 0.5 else "u0:%s" if r < 0.7 else "x0:%s") % rng.choice("abc"))
            ops += ["f0:1", "c0:d@1", "p0:1", "g0:1:4"]
            if j % 2 == 1:
                # a folder created early and deleted later (a gap in the database's folder row ids before a
                # folder that still holds a secret), and a folder deleted last
                ops = ["f0:2"] + ops + ["f0:3", "c0:b@3", "k0:2", "f0:4", "k0:4"]
            # every other account carries a file secret with two further attachments (external file blobs in the archive)
            spec.append("c18 e%d%s mode=export cbe=%s att=%d out=%s hist=%s" % (j, be, be, 1 if j % 2 == 0 else 0, os.path.join(wd, "e%d%s.zip" % (j, be)), "|".join(ops)))
    sp = os.path.join(wd, "export.txt")
    open(sp, "w").write("\n".join(spec) + "\n")
    rc, txt = core.run_impl("c18", sp, timeout=900)
    exported = {}
    for ln in txt.splitlines():
        t = ln.split()
        if len(t) >= 3 and t[1] == "exported":
            kv = dict(x.split("=", 1) for x in t[2:] if "=" in x)
            exported[t[0]] = kv
    k = 0
    for line in spec:
        t = line.split(); cid = t[1]; kv = dict(x.split("=", 1) for x in t[2:] if "=" in x)
        be, z = kv["cbe"], kv["out"]
        if cid not in exported or exported[cid].get("res") != "ok" or not os.path.exists(z):
            out.append("c18 x%s mode=exportfailed" % cid); continue
        want = exported[cid].get("folders", "")
        acct = exported[cid].get("account", "")
        out.append("c18 r%s mode=import cbe=%s zip=%s expect=restore want=%s" % (cid, be, z, want))
        names = zipfile.ZipFile(z).namelist()
        entries = [n for n in names if not n.endswith("sos-manifest.json")]
        # (a) content byte of every entry (sampled positions)
        for n in entries:
            size = zipfile.ZipFile(z).getinfo(n).file_size
            for pos in sorted(set([0, size // 2, size - 1]) if size else []):
                dst = os.path.join(wd, "m%d.zip" % k)
                def mut(name, data, extra, n=n, pos=pos):
                    if name == n:
                        b = bytearray(data); b[pos] ^= 0xff; return bytes(b)
                    return data
                rewrite(z, dst, mut)
                kind = "blob" if (n.startswith("blobs/") or n.startswith("files/")) else "data"
                out.append("c18 m%d mode=import cbe=%s zip=%s expect=reject what=content:%s:%d entry=%s" % (k, be, dst, n.replace(" ", "_")[-24:], pos, kind)); k += 1
        # (b) manifest checksum edited
        dst = os.path.join(wd, "m%d.zip" % k)
        def mutm(name, data, extra):
            if name.endswith("sos-manifest.json"):
                txt = data.decode("utf-8")
                import re
                m = re.search(r'"([0-9a-f]{64})"', txt)
                if m:
                    h = m.group(1); h2 = ("0" if h[0] != "0" else "1") + h[1:]
                    txt = txt.replace(h, h2, 1)
                return txt.encode("utf-8")
            return data
        rewrite(z, dst, mutm)
        out.append("c18 m%d mode=import cbe=%s zip=%s expect=reject what=checksum" % (k, be, dst)); k += 1
        # (c) extra entries with escaping names
        vault = "00000000-0000-4000-8000-000000000001"
        for evil in ["files/%s/../../../../escape_a.txt" % vault, "files/%s/../../../../../../escape_a6.txt" % vault,
                     "files/%s/x/../../../../../../../../../escape_a9.txt" % vault, "files/%s/../../../../../../../../../../escape_a10.txt" % vault,
                     "blobs/%s/%s/%s/../../../../../../../../../escape_f9" % (acct, vault, vault), "files/%s/..\\..\\..\\..\\escape_b.txt" % vault, "/escape_c.txt",
                     "../escape_d.txt", "files/../../escape_e.txt", "blobs/%s/%s/%s/../../../../../escape_f" % (acct, vault, vault),
                     "files/%s/sub/./../x/\u0001ctl" % vault, "C:\\escape_g.txt", "files/%s/%s" % (vault, "y" * 400)]:
            dst = os.path.join(wd, "m%d.zip" % k)
            rewrite(z, dst, lambda name, data, extra, evil=evil: (extra.append((evil, b"evil")) if not extra else None) or data)
            out.append("c18 m%d mode=import cbe=%s zip=%s expect=confined what=name:%s" % (k, be, dst, evil.encode("utf-8").hex()[:80])); k += 1
    return out


def fields(case):
    t = case.split()
    return t[1], dict(x.split("=", 1) for x in t[2:] if "=" in x)


def oracle(case, obs):
    cid, kv = fields(case)
    plain = [o for o in obs if not o.startswith("!")]
    fails = []
    mode = kv.get("mode")
    if mode == "san":
        if not plain:
            return [{"oracle": "no_result", "detail": "no observation"}]
        comps = plain[0].split(" ", 1)[1] if " " in plain[0] else ""
        if comps == "PANIC":
            return [{"oracle": "sanitiser_panics", "detail": "sanitize_file_path panicked"}]
        for c in [x for x in comps.split("/") if x]:
            s = bytes.fromhex(c).decode("utf-8", "replace")
            if s in (".", "..") or any(ch in s for ch in "/\\:") or any(ord(ch) < 32 for ch in s):
                fails.append({"oracle": "path_confined", "detail": "component %r survives sanitisation" % s})
        return fails
    if mode == "exportfailed":
        return [{"oracle": "export", "detail": "exporting the generated account failed"}]
    imp = next((o for o in plain if o.startswith("import ")), None)
    tree = next((o for o in plain if o.startswith("tree")), "tree ")
    got = next((o for o in plain if o.startswith("imported ")), None)
    if imp is None:
        return [{"oracle": "no_result", "detail": "no import observation"}]
    ikv = dict(x.split("=", 1) for x in imp.split()[1:] if "=" in x)
    files = [f for f in tree.split(" ", 1)[1].split(",") if f] if " " in tree else []
    outside = [f for f in files if not f.startswith("o1/o2/o3/o4/o5/o6/target/")]
    if outside:
        fails.append({"oracle": "no_escape", "detail": "import wrote outside the target directory: %s" % outside[:4]})
    exp = kv.get("expect")
    if exp == "restore":
        if ikv.get("res") != "ok":
            fails.append({"oracle": "restore", "backend": kv.get("cbe"), "detail": "importing an untouched archive failed: %s" % ikv.get("res")})
        elif got is None or "signin=ok" not in got:
            fails.append({"oracle": "restore", "backend": kv.get("cbe"), "detail": "cannot sign in to the restored account with the same password: %s" % (got or "")[:120]})
        else:
            have = got.split("folders=", 1)[1] if "folders=" in got else ""
            if have != kv.get("want", ""):
                fails.append({"oracle": "restore", "backend": kv.get("cbe"), "detail": "restored folders %s differ from the exported %s" % (have[:200], kv.get("want", "")[:200])})
    elif exp == "reject":
        if ikv.get("res") == "ok" or ikv.get("listed", "0") != "0":
            fails.append({"oracle": "checksum_gate", "backend": kv.get("cbe"), "what": kv.get("what", "").split(":")[0], "entry": kv.get("entry", "-"),
                          "detail": "archive with %s was imported (res=%s, accounts in target=%s)" % (kv.get("what"), ikv.get("res"), ikv.get("listed"))})
    return fails


def nontrivial(case, obs):
    cid, kv = fields(case)
    if kv.get("mode") == "san":
        s = bytes.fromhex(kv.get("N", "")).decode("utf-8", "replace")
        return "/" in s or "\\" in s or ".." in s
    return kv.get("mode") == "import"


def distinct_key(case):
    return case.split(" ", 2)[2]


def distribution(cases, impl):
    d = {}
    for c in cases:
        cid, kv = fields(c)
        k = kv.get("mode", "?") + (":" + kv.get("expect", "") if kv.get("expect") else "")
        d[k] = d.get(k, 0) + 1
    res = {}
    for cid, obs in impl.items():
        for o in obs:
            if o.startswith("import "):
                r = dict(x.split("=", 1) for x in o.split()[1:] if "=" in x).get("res", "?")
                res[r] = res.get(r, 0) + 1
    return {"cases_by_mode": d, "import_results": res}


MANIFEST = {
    "category": "proof",
    "text": ("Coq theorem: for every entry name (any string) the destination components produced by the sanitiser are "
             "non-empty, never '.' or '..' and contain no separator, drive colon or control character, hence lie under the "
             "import target; the sanitiser model is tied to the real sos_archive::sanitize_file_path byte-exactly on "
             "generated hostile names. Restore equivalence (export then import, sign in, decrypted snapshots, both archive "
             "versions) and the checksum gate are decided on the implementation with mutated and hostile archives, listing "
             "the sandbox around the target afterwards"),
    "design_ref": "DESIGN.md §4 C18",
    "note": "proof for path confinement; restore equivalence and checksum gate by fault enumeration on real archives; zip parsing trusted",
    "technique": "Coq proof (sanitiser confinement for all strings) + extracted-model correspondence + hostile-archive fault enumeration",
}
