"""C09 — concurrent syncs from several devices are safe in every interleaving.
The harness' DirectClient yields to a scheduler before EVERY request, so the real sync
procedures of 2–3 devices are driven through chosen request-granular interleavings against the
real server storage (same lock discipline as the HTTP handlers)."""
import itertools
from vcheck import acct

ID = "C09"
SUB = "c09"
LEVEL = "proof"
RESILIENT = True
IMPL_TIMEOUT = 3000
RULE = ("pre-histories of three classes (fast-forward on both devices, one device in soft conflict, both in soft conflict) "
        "x interleavings of the devices' request sequences (exhaustive over merges of up to 6+6 requests in the thorough "
        "tier, sampled in quick); non-trivial = the realised request order differs from running the syncs one after the "
        "other; distinct by (pre-history, schedule)")
TRUSTED_BASE = ["model/SrvReq.v: the server handles requests atomically (per-account write lock; the harness reproduces the "
                "handlers' lock discipline, it does not go through HTTP)",
                "the model replays the requests as observed on the implementation; roots are recomputed with the Merkle model"]
ASSUMPTIONS = ["true parallelism inside one request, lock fairness and the tokio scheduler are not modelled",
               "termination is checked by a deadline on the implementation, not proved"]
PRE = {
    "ff": "s0|s1|t:50|c0:a|t:60|u0:a",                                   # D0 ahead, D1 equal
    "ff2": "s0|s1|t:50|c1:a|s1|t:60|c1:c",                                # D1 ahead (server knows a)
    "soft": "s0|s1|t:50|c1:a|s1|t:60|c0:b|t:70|c1:c",                    # D0 diverged, D1 ahead
    "soft2": "s0|s1|t:50|c0:a|t:60|c1:b|s1|t:70|c1:c|t:80|c0:d",         # D0 diverged (2 events), D1 ahead
    "both": "s0|s1|t:50|c0:z|s0|t:60|c0:a|t:70|c1:b",                    # both diverged from [.., z]
}
POST = "s0|s1|s1|s0|s0|s1"
# three devices, staggered ancestors: the server holds [G, c1, c2] (from D2), D0 holds [G, c1, d] (ancestor c1),
# D1 holds [G, b] with b older than c1 (ancestor G): D1's accepted merge moves c1, so D0's patch, built on the
# scan it made before, rewinds to c1 and is refused — the server must roll that rewind back
PRE3 = "s0|s1|s2|t:40|c1:b|t:50|c2:a|s2|s0|t:60|c2:c|s2|t:70|c0:d"
POST3 = "s0|s1|s2|s0|s1|s2|s0|s1|s2"


def corpus():
    return [
        "c09 k_o13 cbe=fs sbe=fs devs=2 pre=%s sched=0,0,0,0,0,1,1,1,0 post=%s" % (PRE["soft"], POST),
        "c09 k_seq cbe=fs sbe=fs devs=2 pre=%s sched=0,0,0,0,0,0,0,1,1,1 post=%s" % (PRE["soft"], POST),
        "c09 k_db cbe=db sbe=db devs=2 pre=%s sched=0,1,0,1,0,1,0,1,0,1,0,1 post=%s" % (PRE["both"], POST),
        "c09 k_stagger cbe=fs sbe=fs devs=3 pre=%s sched=2,2,2,0,0,0,0,1,1,1,1,1,1,1,1,0,0,0 post=%s" % (PRE3, POST3),
        "c09 k_stagger_db cbe=db sbe=db devs=3 pre=%s sched=2,2,2,0,0,0,1,1,1,1,1,1,1,1,0,0,0,0 post=%s" % (PRE3, POST3),
    ]


def gen_cases(rng, tier):
    out, k = [], 0
    n = 40 if tier == "quick" else 1500
    for j in range(n):
        name = rng.choice(list(PRE))
        sched = [rng.randrange(2) for _ in range(14)]
        if j % 4 == 3:
            # staggered three-device pre-history: D2 idles first, then D0 and D1 interleave
            sched3 = [2, 2, 2] + [rng.randrange(2) for _ in range(16)]
            out.append("c09 g%d cbe=%s sbe=%s devs=3 pre=%s sched=%s post=%s" % (
                j, "db" if j % 5 == 1 else "fs", "db" if j % 7 == 2 else "fs", PRE3, ",".join(map(str, sched3)), POST3))
            continue
        out.append("c09 g%d cbe=%s sbe=%s devs=2 pre=%s sched=%s post=%s" % (
            j, "db" if j % 5 == 1 else "fs", "db" if j % 7 == 2 else "fs", PRE[name], ",".join(map(str, sched)), POST))
    if tier == "thorough":
        for name in ("soft", "both"):
            for combo in itertools.combinations(range(10), 5):
                sched = ["0" if i in combo else "1" for i in range(10)]
                out.append("c09 e%d cbe=fs sbe=fs devs=2 pre=%s sched=%s post=%s" % (k, PRE[name], ",".join(sched), POST)); k += 1
    return out


def parse_reqs(obs):
    """-> list of (n, dev, kind, ok, details), {n: {log: [hashes]}}, par results"""
    reqs, srv, par = [], {}, {}
    for o in obs:
        t = o.split()
        if len(t) >= 3 and t[0] == "req":
            n = int(t[1])
            if t[2] == "SRV":
                srv.setdefault(n, {})[t[3]] = [x for x in (t[4] if len(t) > 4 else "").split(",") if x]
            else:
                kv = dict(x.split("=", 1) for x in t[2:5] if "=" in x)
                reqs.append((n, kv.get("dev"), kv.get("kind"), kv.get("ok"), " ".join(t[5:])))
        elif len(t) >= 2 and t[0] == "par":
            if t[1].startswith("completed="): par["completed"] = t[1].split("=")[1]
            elif len(t) >= 3: par[t[1]] = o.split("res=", 1)[1] if "res=" in o else ""
    return reqs, srv, par


def model_input(cases, impl):
    out = []
    for c in cases:
        cid = c.split()[1]
        reqs, srv, _ = parse_reqs([o for o in impl.get(cid, []) if not o.startswith("!")])
        if 0 not in srv:
            out.append("%s %s" % (SUB, cid)); continue
        for name, hs in sorted(srv[0].items()):
            out.append("%s %s init %s %s" % (SUB, cid, name, ",".join(hs)))
        for (n, dev, kind, ok, details) in reqs:
            out.append("%s %s req %d %s %s" % (SUB, cid, n, kind, details))
    return out


def impl_projection(obs):
    reqs, srv, _ = parse_reqs([o for o in obs if not o.startswith("!")])
    init = set(srv.get(0, {}))
    out = []
    for (n, dev, kind, ok, details) in reqs:
        for name in sorted(init):
            out.append("req %d SRV %s %s" % (n, name, ",".join(srv.get(n, {}).get(name, []))))
    return out


def oracle(case, obs):
    plain = [o for o in obs if not o.startswith("!")]
    reqs, srv, par = parse_reqs(plain)
    fails = []
    if par.get("completed") != "1":
        fails.append({"oracle": "terminates", "detail": "the concurrent syncs did not all finish before the deadline: %s" % par})
    for d, r in par.items():
        if d.startswith("D") and r == "HANG":
            fails.append({"oracle": "terminates", "detail": "%s never returned" % d})
    # the server's logs change only by whole patches; nothing accepted is dropped
    for (n, dev, kind, ok, details) in reqs:
        before, after = srv.get(n - 1, {}), srv.get(n, {})
        dkv = dict(x.split("=", 1) for x in details.split() if "=" in x)
        for name, b in before.items():
            a = after.get(name)
            if a is None or a == b:
                continue
            allowed = []
            if kind == "sync":
                for entry in details.split(","):
                    if entry.startswith(name + ":diff:"):
                        allowed.append(b + [x for x in entry.split(":")[-1].split(";") if x])
            elif kind == "patch" and dkv.get("log") == name:
                patch = [x for x in dkv.get("patch", "").split(";") if x]
                c = dkv.get("commit", "-")
                if c == "-":
                    allowed.append(b + patch)
                elif c in b:
                    k = len(b) - 1 - b[::-1].index(c)
                    allowed.append(b[:k + 1] + patch)
            if a not in allowed:
                fails.append({"oracle": "whole_patches", "kind": kind,
                              "detail": "request %d (%s %s): server %s log changed from %d to %d records, which is neither 'patch appended' nor 'suffix after the ancestor replaced by the patch'" % (n, dev, kind, name.split(':')[0], len(b), len(a))})
            lost = [x for x in b if x not in a]
            if lost:
                fails.append({"oracle": "no_drop", "kind": kind, "request_rewinds": kind == "patch" and dkv.get("commit", "-") != "-",
                              "detail": "request %d (%s %s): %d event(s) the server had accepted are no longer in its %s log" % (n, dev, kind, len(lost), name.split(':')[0])})
    # convergence after the quiescent rounds (as C04)
    steps, _ = acct.parse(plain)
    if steps:
        last = steps[max(steps)]
        posts = [s for s in steps.values() if (s["op"] or "").startswith("s")]
        if any(s["res"] != "ok" for s in posts):
            fails.append({"oracle": "post_sync_ok", "detail": "a sync after the concurrent phase failed: %s" % [(s["op"], (s["res"] or "")[:60]) for s in posts if s["res"] != "ok"]})
        else:
            sig = {w: {k: (v[0], v[1]) for k, v in W["logs"].items() if k != "files"} for w, W in last["who"].items()}
            ref = sig.get("SRV")
            for w, sg in sig.items():
                if ref is not None and sg != ref:
                    fails.append({"oracle": "converges_after", "detail": "after the quiescent rounds %s differs from the server: %s vs %s" % (w, sg, ref)})
    return fails


def nontrivial(case, obs):
    reqs, _, _ = parse_reqs([o for o in obs if not o.startswith("!")])
    devs = [r[1] for r in reqs]
    # interleaved: some device appears, then another, then the first again
    seen, last = [], None
    for d in devs:
        if d != last:
            seen.append(d); last = d
    return len(seen) > len(set(seen))


def distinct_key(case):
    return case.split(" ", 2)[2]


def distribution(cases, impl):
    kinds, res = {}, {}
    for cid, obs in impl.items():
        reqs, _, par = parse_reqs([o for o in obs if not o.startswith("!")])
        for r in reqs: kinds[r[2]] = kinds.get(r[2], 0) + 1
        for d, r in par.items():
            if d.startswith("D"): res[r.split(":")[0]] = res.get(r.split(":")[0], 0) + 1
    return {"requests_by_kind": kinds, "concurrent_sync_results": res}


MANIFEST = {
    "category": "proof",
    "text": ("Coq theorems over the server's request-level state machine, for EVERY request sequence (any devices, any "
             "interleaving): storage/tree agreement is invariant, the log changes only by whole patches, refused requests "
             "change nothing, diff requests never remove a record and an accepted rewind-and-patch removes exactly the "
             "records after its ancestor (the unrestricted no-drop claim is refuted with a witness: known finding). The "
             "model is tied to the code by driving the real sync procedures of two devices through chosen request-granular "
             "schedules and replaying the observed requests on the extracted model; termination and later convergence are "
             "checked on the implementation"),
    "design_ref": "DESIGN.md §4 C09",
    "note": "requests assumed atomic (write lock); parallelism inside a request, fairness and the tokio scheduler not modelled; liveness checked by deadline only",
    "technique": "Coq proof (invariant + transition shapes over all request sequences) + scheduler-driven real syncs with extracted-model replay",
}
