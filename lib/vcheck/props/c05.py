"""C05 — merging never loses, duplicates or resurrects committed edits (merge function level).
AutoMerge::merge_patches is a default trait method; the harness reaches the real code through
its own RemoteSyncHandler implementation (`impl AutoMerge for Bridge {}`)."""
ID = "C05"
SUB = "c05"
LEVEL = "proof"
RULE = ("pairs of divergent suffixes (local, remote) over an 8-symbol event alphabet with timestamp ties, skew and "
        "reversed clocks, including byte-identical events on both sides; non-trivial = both suffixes non-empty and at "
        "least one of: unequal lengths, a timestamp tie, an identical event on both sides; distinct by (L,R)")
TRUSTED_BASE = ["model/MergePatches.v transcribes auto_merge.rs::merge_patches (HashSet subset test, Vec::sort_by as a "
                "stable sort); tied to the code by comparing the decision and the merged record order on every case"]
ASSUMPTIONS = ["Rust's slice::sort_by is stable (documented)", "the end-to-end consequence 'a secret created on one device "
               "appears on all' is checked on a few real-account histories here (E2E); converged logs and decrypted folders in "
               "general are C04's and C02's"]
ALPHABET = [2, 4, 6, 8, 3, 5, 10, 12]


def corpus():
    return E2E + ["c05 k1 L=2@1,8@3 R=2@2",            # identical delete on both sides kept twice
            "c05 k2 L=2@5 R=2@1,4@3",            # subset -> rewind local
            "c05 k3 L=2@5,4@1 R=6@3,4@1",        # tie at t=1: local first
            "c05 k4 L= R=2@1", "c05 k5 L=2@1 R="]


def recs(rng, n):
    out = []
    for _ in range(n):
        out.append("%d@%d" % (rng.choice(ALPHABET), rng.choice([1, 2, 3, 5, 8, 1000, 1001, 2000, rng.randrange(3000)])))
    return ",".join(out)


def gen_cases(rng, tier):
    n = 1000 if tier == "quick" else 50000
    return ["c05 g%d L=%s R=%s" % (j, recs(rng, rng.choice([0, 1, 1, 2, 3, 5])), recs(rng, rng.choice([0, 1, 2, 2, 3, 6])))
            for j in range(n)]


# ---- end to end: real accounts (the harness of C04); what the property promises in consequence:
# a secret created on one device and never deleted is served by every device once everyone has synced
E2E = [
    "c05 e_plain cbe=fs sbe=fs devs=2 obs=end hist=s0|s1|t:50|c0:a|t:60|c1:b|t:70|u0:a|s0|s1|s0|s1|s1|s0",
    "c05 e_plain_db cbe=db sbe=db devs=2 obs=end hist=s0|s1|t:50|c0:a|t:60|c1:b|t:55|c1:c|s0|s1|s0|s1|s1|s0",
    "c05 e_newfolder_one cbe=fs sbe=fs devs=2 obs=end hist=s0|s1|t:50|f0:1|c0:a@1|t:60|c1:b|s0|s1|s0|s1|s1|s0",
    "c05 e_newfolders_both cbe=fs sbe=fs devs=2 obs=end hist=s0|s1|t:50|f0:1|c0:a@1|t:60|f1:2|c1:b@2|s0|s1|s0|s1|s1|s0",
    "c05 e_three cbe=fs sbe=fs devs=3 obs=end hist=s0|s1|s2|t:50|c0:a|t:60|c1:b|t:70|c2:c|s0|s1|s2|s2|s1|s0|s1|s0|s2",
]


def e2e_oracle(case, obs):
    from vcheck import acct
    hist, kv = acct.hist_of(case)
    steps, _ = acct.parse(obs)
    fails = []
    if not steps:
        return [{"oracle": "no_result", "detail": "no observation"}]
    last = steps[max(steps)]
    ress = [o.split(" res=")[1] for o in obs if " op=s" in " " + o and " res=" in o]
    if any(r != "ok" for r in ress[-6:]):
        return []          # syncs that fail are C04's subject
    created, touched, new_folders = {}, set(), set()
    for h in hist:
        k = h[:1]
        if k == "f": new_folders.add(h.split(":")[1])
        if k == "c":
            slot = h.split(":")[1].split("@")[0]
            folder = h.split("@")[1] if "@" in h else "0"
            created.setdefault(slot, folder)
        if k in "xmaAkzhwiWZ":
            touched.add(h.split(":")[1].split("@")[0] if ":" in h else "")
    for slot, folder in sorted(created.items()):
        if slot in touched or folder in touched: continue
        label = "L%s=" % slot
        for w, W in last["who"].items():
            if not w.startswith("D"): continue
            have = any(label in v.get("served", "") for v in W["folders"].values())
            if not have:
                fails.append({"oracle": "created_secret_lost", "in_folder_created_in_history": folder in new_folders,
                              "detail": "secret L%s (created in folder %s, never deleted) is not served by %s after everyone synced" % (slot, folder, w)})
    return fails


def parse(case):
    d = dict(t.split("=", 1) for t in case.split()[2:] if "=" in t)
    f = lambda s: [(int(x.split("@")[0]), int(x.split("@")[1])) for x in s.split(",") if x]
    return f(d.get("L", "")), f(d.get("R", ""))


def oracle(case, obs):
    if " hist=" in case:
        return e2e_oracle(case, obs)
    L, R = parse(case)
    fails = []
    if not obs:
        return [{"oracle": "no_result", "detail": "no observation"}]
    kind, _, rest = obs[0].partition(" ")
    out = [x for x in rest.split(",") if x]
    times = [int(x.split("@")[1]) for x in out]
    lc, rc = set(k for k, _ in L), set(k for k, _ in R)
    if kind == "rewind":
        if not lc <= rc:
            fails.append({"oracle": "rewind_loses_local", "detail": "local commits %s not all in remote %s but local is rewound" % (sorted(lc), sorted(rc))})
        if len(out) != len(R):
            fails.append({"oracle": "rewind_events", "detail": "rewind did not return the remote events"})
    elif kind == "push":
        if lc <= rc:
            fails.append({"oracle": "push_without_new_event", "detail": "every local commit is on the remote but a push was chosen"})
        keep = [x for x in L if x[0] not in rc] + R
        if len(out) != len(keep):
            fails.append({"oracle": "merged_count", "detail": "merged %d records, expected %d (local events not on the remote + remote)" % (len(out), len(keep))})
        if times != sorted(times):
            fails.append({"oracle": "merged_sorted", "detail": "merged records are not in timestamp order: %s" % times})
        if sorted(times) != sorted([t for _, t in keep]):
            fails.append({"oracle": "merged_perm", "detail": "merged timestamps are not a permutation of the inputs"})
        # byte-identical events on both sides must count as one (property text)
        commits = [x.split(":")[0] for x in out]
        lk, rk = [k for k, _ in L], [k for k, _ in R]
        if len(set(lk)) == len(lk) and len(set(rk)) == len(rk) and len(set(commits)) != len(commits):
            fails.append({"oracle": "exactly_once", "identical_event_both_sides": True,
                          "detail": "an event present in both suffixes is kept twice in the merged patch"})
    else:
        fails.append({"oracle": "no_result", "detail": obs[0][:100]})
    return fails


def nontrivial(case, obs):
    if " hist=" in case: return True
    L, R = parse(case)
    if not L or not R: return False
    ts = [t for _, t in L + R]
    return len(L) != len(R) or len(ts) != len(set(ts)) or bool(set(k for k, _ in L) & set(k for k, _ in R))


def distinct_key(case):
    return case.split(" ", 2)[2]


def shrink(case):
    if " hist=" in case: return []
    L, R = parse(case)
    f = lambda l: ",".join("%d@%d" % x for x in l)
    c = []
    for i in range(len(L)): c.append("c05 s L=%s R=%s" % (f(L[:i] + L[i + 1:]), f(R)))
    for i in range(len(R)): c.append("c05 s L=%s R=%s" % (f(L), f(R[:i] + R[i + 1:])))
    return c


def distribution(cases, impl):
    d = {}
    for cid, obs in impl.items():
        k = obs[0].split()[0] if obs else "none"
        if k not in ("rewind", "push", "err"): k = "end-to-end history"
        d[k] = d.get(k, 0) + 1
    return {"decisions": d}


MANIFEST = {
    "category": "proof",
    "text": ("Coq theorems over a transcription of merge_patches: a pushed merge is a permutation of local++remote, sorted "
             "by timestamp, stable (ties keep local-first order); local events are only discarded when each is already on "
             "the remote; every event occurs exactly once when no commit hash occurs twice among the suffixes; the full "
             "'identical events count as one' statement is refuted with a witness (known finding). Tied to the real trait "
             "method by an extracted-model run on generated suffix pairs"),
    "design_ref": "DESIGN.md §4 C05",
    "note": "function-level proof; converged logs / last-writer-wins on decrypted folders are the C04 and C02 checks on real accounts",
    "technique": "Coq proof (permutation, StronglySorted, stability of insertion sort) + extracted-model correspondence on the real trait method",
}
