From Coq Require Import List Bool Lia.
From SosModel Require Import model.Integrity.
Import ListNotations.
Section IntegrityLemmas.
Variables hash content : Type.
Variable hash_eqb : hash -> hash -> bool.
Hypothesis hash_eqb_spec : forall a b, hash_eqb a b = true <-> a = b.
Variable H : content -> hash.
Notation row := (row hash content).
Notation row_ok := (row_ok hash content hash_eqb H).
Notation failures := (failures hash content hash_eqb H).
Notation check_folder := (check_folder hash content hash_eqb H).

Definition Sealed (rows : list row) : Prop := Forall (fun r => row_sum _ _ r = H (row_content _ _ r)) rows.
Definition ContentCollision : Prop := exists a b : content, a <> b /\ H a = H b.

Lemma sealed_no_failures rows : Sealed rows -> failures rows = [].
Proof.
  induction 1 as [|r l Hr _ IH]; [reflexivity|]. unfold Integrity.failures in *. cbn [filter].
  unfold Integrity.row_ok. rewrite Hr. assert (hash_eqb (H (row_content _ _ r)) (H (row_content _ _ r)) = true) as -> by (apply hash_eqb_spec; reflexivity).
  cbn [negb]. exact IH.
Qed.

(* sound: an untouched folder (every checksum is the hash of its content) reports nothing *)
Theorem report_sound v l : Sealed v -> Sealed l -> check_folder (Some v) (Some l) = Mismatches _ _ [].
Proof. intros Hv Hl. unfold Integrity.check_folder. rewrite (sealed_no_failures v Hv), (sealed_no_failures l Hl). reflexivity. Qed.

Lemma failures_set_nth_bad n x rows : n < length rows -> row_ok x = false -> In x (failures (set_nth _ _ n x rows)).
Proof.
  revert n. induction rows as [|h t IH]; intros n Hn Hx; [cbn in Hn; lia|].
  destruct n as [|k]; cbn [Integrity.set_nth]; unfold Integrity.failures in *; cbn [filter].
  - rewrite Hx. cbn [negb]. left. reflexivity.
  - destruct (negb (row_ok h)); [right|]; apply IH; [cbn [length] in Hn; lia|exact Hx|cbn [length] in Hn; lia|exact Hx].
Qed.

(* complete: changing the content of any row (to anything different) or its stored checksum
   makes the report non-empty — unless the new content collides under the hash *)
Theorem content_change_detected n r c' rows : n < length rows -> nth_error rows n = Some r ->
  row_sum _ _ r = H (row_content _ _ r) -> c' <> row_content _ _ r ->
  failures (set_nth _ _ n (mkRow _ _ (row_sum _ _ r) c') rows) <> [] \/ ContentCollision.
Proof.
  intros Hn _ Hs Hc. destruct (row_ok (mkRow _ _ (row_sum _ _ r) c')) eqn:E.
  - right. unfold Integrity.row_ok in E. cbn in E. apply hash_eqb_spec in E. exists c', (row_content _ _ r).
    split; [exact Hc|congruence].
  - left. intro Hnil. pose proof (failures_set_nth_bad n _ rows Hn E) as Hin. rewrite Hnil in Hin. exact Hin.
Qed.

Theorem checksum_change_detected n r s' rows : n < length rows -> nth_error rows n = Some r ->
  row_sum _ _ r = H (row_content _ _ r) -> s' <> row_sum _ _ r ->
  failures (set_nth _ _ n (mkRow _ _ s' (row_content _ _ r)) rows) <> [].
Proof.
  intros Hn _ Hs Hc.
  assert (row_ok (mkRow _ _ s' (row_content _ _ r)) = false) as E.
  { unfold Integrity.row_ok. cbn. destruct (hash_eqb (H (row_content _ _ r)) s') eqn:E; [|reflexivity].
    apply hash_eqb_spec in E. congruence. }
  intro Hnil. pose proof (failures_set_nth_bad n _ rows Hn E) as Hin. rewrite Hnil in Hin. exact Hin.
Qed.

Theorem removal_detected v l : check_folder None l = Missing _ _ /\ check_folder v None = Missing _ _.
Proof. split; [reflexivity|]. destruct v; reflexivity. Qed.
End IntegrityLemmas.
