(* C13 — a crash at any point leaves an account that opens and is consistent.
   Byte level (model/Crash.v, first part): [open_log] is what new_folder/new_account + load_tree
   make of the bytes of an event-log file.  A file that is header ++ whole records ++ the first
   c bytes of the records being appended loads iff c ends on a record boundary, and then as
   exactly the records whose last byte is present.  Consequences: an append of ONE record is
   atomic up to "does not load" — and a cut strictly inside it does not load (the account then
   fails to open: the full property is refuted there); an append of several records in one
   write, cut on an inner boundary, loads as a log that is neither before nor after.
   Step level (second part): the primitive steps of the vault writer and of
   Folder::{create,update,delete}_secret.  The log is before-or-after at every crash prefix;
   the completed operation is consistent; crash prefixes in between are not (witnesses). *)
From Coq Require Import List NArith ZArith Bool.
From SosModel Require Import base.Bytes model.Formats model.Crash proofs.Formats_Lemmas proofs.Crash_Lemmas.
Import ListNotations.

Theorem C13_log_loads_iff_whole_records ident ver rs ns c : length ident = 4 ->
  Forall wf_record rs -> Forall wf_record ns ->
  let pre := ident ++ ver in
  let file := pre ++ flat rs ++ firstn c (flat ns) in
  open_log ident (lenb pre) file =
  match cut_records ns c with Some l => Some (map r_commit rs ++ map r_commit l) | None => None end.
Proof. exact (open_log_cut ident ver rs ns c). Qed.

Theorem C13_append_one_cut rs n pre c : Forall wf_record rs -> wf_record n -> 0 < length pre ->
  let file := pre ++ flat rs ++ firstn c (e_record n) in
  scan (S (length file)) file (lenb pre) [] =
    if Nat.eqb c 0 then Some (map r_commit rs)
    else if Nat.ltb c (length (e_record n)) then None
    else Some (map r_commit rs ++ [r_commit n]).
Proof. exact (append_one_cut rs n pre c). Qed.

(* the property's "the account can still be opened", refuted for a torn append *)
Theorem C13_torn_append_unreadable_refuted rs n pre c : Forall wf_record rs -> wf_record n -> 0 < length pre ->
  0 < c < length (e_record n) ->
  let file := pre ++ flat rs ++ firstn c (e_record n) in
  scan (S (length file)) file (lenb pre) [] = None.
Proof. exact (torn_append_unreadable rs n pre c). Qed.

(* the property's "before or after, never a partial patch", refuted for a multi-record write *)
Theorem C13_torn_patch_partial_refuted rs n1 n2 pre : Forall wf_record rs -> wf_record n1 -> wf_record n2 ->
  0 < length pre ->
  let file := pre ++ flat rs ++ firstn (length (e_record n1)) (flat [n1; n2]) in
  scan (S (length file)) file (lenb pre) [] = Some (map r_commit rs ++ [r_commit n1]).
Proof. exact (torn_patch_partial rs n1 n2 pre). Qed.

Section Steps.
Variables id body : Type.
Variable id_eqb : id -> id -> bool.
Hypothesis id_eqb_spec : forall a b, id_eqb a b = true <-> a = b.

Theorem C13_log_before_or_after_at_every_step (s : fstate id body) vs e k :
  forallb (vault_only id body) vs = true ->
  let st := run id body s (firstn k (vs ++ [LAppend id body e])) in
  flog _ _ st = flog _ _ s \/ flog _ _ st = flog _ _ s ++ [e].
Proof. exact (log_atomic id body s vs e k). Qed.

Theorem C13_create_complete s i b :
  consistent id body id_eqb s -> consistent id body id_eqb (run id body s (steps_create id body i b)).
Proof. exact (create_complete id body id_eqb s i b). Qed.
Theorem C13_update_complete s i b :
  consistent id body id_eqb s -> consistent id body id_eqb (run id body s (steps_update id body id_eqb s i b)).
Proof. exact (update_complete id body id_eqb id_eqb_spec s i b). Qed.
Theorem C13_delete_complete s i : consistent id body id_eqb s ->
  (forall n, find_row id body id_eqb i (rows _ _ s) = Some n ->
             lookup id body id_eqb i (skipn (S n) (rows _ _ s)) = None) ->
  consistent id body id_eqb (run id body s (steps_delete id body id_eqb s i)).
Proof. exact (delete_complete id body id_eqb id_eqb_spec s i). Qed.
End Steps.

(* crash prefixes of an update that are NOT consistent (the property refuted at those points) *)
Theorem C13_update_crash_after_truncate_refuted :
  consistent nat nat Nat.eqb w_state /\
  let st := run nat nat w_state (firstn 1 (steps_update nat nat Nat.eqb w_state 1 11)) in
  lookup nat nat Nat.eqb 2 (rows _ _ st) = None /\
  lookup nat nat Nat.eqb 2 (replay nat nat Nat.eqb (flog _ _ st)) = Some 20.
Proof. exact (conj w_state_consistent update_crash_after_truncate). Qed.
Theorem C13_update_crash_before_event_refuted :
  consistent nat nat Nat.eqb w_state /\
  let st := run nat nat w_state (firstn 3 (steps_update nat nat Nat.eqb w_state 1 11)) in
  lookup nat nat Nat.eqb 1 (rows _ _ st) = Some 11 /\
  lookup nat nat Nat.eqb 1 (replay nat nat Nat.eqb (flog _ _ st)) = Some 10.
Proof. exact (conj w_state_consistent update_crash_before_event). Qed.

(* non-vacuity: a concrete well-formed record, a concrete file, the three outcomes of a cut *)
Definition ex_rec := mkRecord (mkTime 1700000000%Z 123%N) (repeat 0%N 32) (repeat 9%N 32) [4%N; 0%N].
Example C13_nonvacuous_cuts :
  wf_record ex_rec /\
  open_log [83;79;83;69]%N 4%N ([83;79;83;69]%N ++ flat [ex_rec]) = Some [repeat 9%N 32] /\
  open_log [83;79;83;69]%N 4%N ([83;79;83;69]%N ++ flat [ex_rec] ++ firstn 50 (e_record ex_rec)) = None /\
  open_log [83;79;83;69]%N 4%N ([83;79;83;69]%N ++ flat [ex_rec] ++ firstn 90 (e_record ex_rec))
    = Some [repeat 9%N 32; repeat 9%N 32].
Proof. split; [exact wf_example_record|]. vm_compute. repeat split; reflexivity. Qed.

Print Assumptions C13_log_loads_iff_whole_records.
Print Assumptions C13_append_one_cut.
Print Assumptions C13_torn_append_unreadable_refuted.
Print Assumptions C13_torn_patch_partial_refuted.
Print Assumptions C13_log_before_or_after_at_every_step.
Print Assumptions C13_create_complete.
Print Assumptions C13_update_complete.
Print Assumptions C13_delete_complete.
Print Assumptions C13_update_crash_after_truncate_refuted.
Print Assumptions C13_update_crash_before_event_refuted.
