(* Extraction of the executable model.  ExtrOcamlBasic only: bool, option, unit, list, prod,
   sumbool map to OCaml's; numbers stay Coq datatypes; no Extract Constant. *)
From Coq Require Extraction.
From Coq Require Import ExtrOcamlBasic.
From Coq Require Import List NArith.
From SosModel Require Import base.Sha256 model.Merkle.
Extraction "../driver/model.ml"
  Sha256.sha256
  Merkle.root Merkle.head Merkle.proof_at Merkle.tree_compare Merkle.verify_leaves
  Merkle.verify_leaves_pinned.
