(* Byte strings, little-endian integers, parser combinators (binary-stream 10, Endian::Little,
   max_buffer_size = Some(MAX_BUFFER_SIZE)).  Definitions only. *)
From Coq Require Import List NArith ZArith Bool.
Import ListNotations.
Local Open Scope N_scope.

Definition byte := N.
Definition bytes := list byte.

Fixpoint le_bytes (k : nat) (x : N) : bytes :=
  match k with O => [] | S k' => (x mod 256) :: le_bytes k' (x / 256) end.
Fixpoint of_le (l : bytes) : N :=
  match l with [] => 0 | b :: r => b + 256 * of_le r end.

Definition parser (A : Type) := bytes -> option (A * bytes).
Definition ret {A} (a : A) : parser A := fun s => Some (a, s).
Definition pfail {A} : parser A := fun _ => None.
Definition bind {A B} (p : parser A) (f : A -> parser B) : parser B :=
  fun s => match p s with None => None | Some (a, r) => f a r end.
Notation "x <- p ;; k" := (bind p (fun x => k)) (at level 61, p at next level, right associativity).

Definition lenb (l : bytes) : N := N.of_nat (length l).

(* read_exact of n bytes *)
Definition take (n : N) : parser bytes :=
  fun s => if lenb s <? n then None else Some (firstn (N.to_nat n) s, skipn (N.to_nat n) s).

Definition p_uint (k : nat) : parser N := b <- take (N.of_nat k) ;; ret (of_le b).
Definition p_u8 := p_uint 1.
Definition p_u16 := p_uint 2.
Definition p_u32 := p_uint 4.
Definition p_u64 := p_uint 8.
Definition e_u8 (x : N) := le_bytes 1 x.
Definition e_u16 (x : N) := le_bytes 2 x.
Definition e_u32 (x : N) := le_bytes 4 x.   (* `len as u32` truncation is x mod 2^32 *)
Definition e_u64 (x : N) := le_bytes 8 x.

Definition two63 : N := 9223372036854775808.
Definition two64 : N := 18446744073709551616.
Definition p_i64 : parser Z :=
  x <- p_u64 ;; ret (if x <? two63 then Z.of_N x else (Z.of_N x - Z.of_N two64)%Z).
Definition e_i64 (z : Z) : bytes := e_u64 (Z.to_N (z mod Z.of_N two64)%Z).

(* read_bool: value > 0 *)
Definition p_bool : parser bool := x <- p_u8 ;; ret (negb (x =? 0)).
Definition e_bool (b : bool) : bytes := e_u8 (if b then 1 else 0).

Section Guarded.
Variable MAX : N.    (* MAX_BUFFER_SIZE, from gen/Generated.v *)

(* reader.read_bytes(n): guard_size!, then read_exact *)
Definition p_bytes_n (n : N) : parser bytes := if MAX <? n then pfail else take n.
(* u32 length prefix + read_bytes *)
Definition p_bytes32 : parser bytes := n <- p_u32 ;; p_bytes_n n.
Definition e_bytes32 (b : bytes) : bytes := e_u32 (lenb b) ++ b.
End Guarded.

(* ---- UTF-8 validity as decided by String::from_utf8 (Unicode scalar values, shortest form) *)
Definition is_cont (b : N) : bool := (128 <=? b) && (b <=? 191).
Fixpoint utf8_valid_fuel (fuel : nat) (s : bytes) : bool :=
  match fuel with
  | O => match s with [] => true | _ => false end
  | S f =>
    match s with
    | [] => true
    | b0 :: r =>
      if b0 <? 128 then utf8_valid_fuel f r
      else if (194 <=? b0) && (b0 <=? 223) then
        match r with b1 :: r' => is_cont b1 && utf8_valid_fuel f r' | _ => false end
      else if b0 =? 224 then
        match r with b1 :: b2 :: r' =>
          (160 <=? b1) && (b1 <=? 191) && is_cont b2 && utf8_valid_fuel f r' | _ => false end
      else if ((225 <=? b0) && (b0 <=? 236)) || (b0 =? 238) || (b0 =? 239) then
        match r with b1 :: b2 :: r' => is_cont b1 && is_cont b2 && utf8_valid_fuel f r' | _ => false end
      else if b0 =? 237 then
        match r with b1 :: b2 :: r' =>
          (128 <=? b1) && (b1 <=? 159) && is_cont b2 && utf8_valid_fuel f r' | _ => false end
      else if b0 =? 240 then
        match r with b1 :: b2 :: b3 :: r' =>
          (144 <=? b1) && (b1 <=? 191) && is_cont b2 && is_cont b3 && utf8_valid_fuel f r' | _ => false end
      else if (241 <=? b0) && (b0 <=? 243) then
        match r with b1 :: b2 :: b3 :: r' =>
          is_cont b1 && is_cont b2 && is_cont b3 && utf8_valid_fuel f r' | _ => false end
      else if b0 =? 244 then
        match r with b1 :: b2 :: b3 :: r' =>
          (128 <=? b1) && (b1 <=? 143) && is_cont b2 && is_cont b3 && utf8_valid_fuel f r' | _ => false end
      else false
    end
  end.
Definition utf8_valid (s : bytes) : bool := utf8_valid_fuel (length s) s.

Definition p_string (MAX : N) : parser bytes :=
  b <- p_bytes32 MAX ;; if utf8_valid b then ret b else pfail.

(* Vec<T>: u32 count, then items; no guard, but every item consumes input.  Recursion on fuel
   (callers pass the input length): the count may be 2^32-1 *)
Fixpoint p_items {A} (fuel : nat) (count : N) (p : parser A) : parser (list A) :=
  match fuel with
  | O => if count =? 0 then ret [] else pfail
  | S f =>
    if count =? 0 then ret []
    else a <- p ;; l <- p_items f (count - 1) p ;; ret (a :: l)
  end.
Definition p_vec {A} (p : parser A) : parser (list A) :=
  fun s => (n <- p_u32 ;; p_items (length s) n p) s.
Definition e_vec {A} (e : A -> bytes) (l : list A) : bytes :=
  e_u32 (N.of_nat (length l)) ++ flat_map e l.

(* Option<T>: bool + value *)
Definition p_option {A} (p : parser A) : parser (option A) :=
  b <- p_bool ;; if b then (a <- p ;; ret (Some a)) else ret None.
Definition e_option {A} (e : A -> bytes) (o : option A) : bytes :=
  match o with Some a => e_bool true ++ e a | None => e_bool false end.
