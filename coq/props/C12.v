(* C12 — compaction and key changes keep the data and really change the key.
   Compaction: model/Folder.v (decrypted level).  Key change: model/ChangePassword.v with
   symbolic encryption (Enc key nonce plaintext; decryption succeeds only under the same key —
   the idealised AEAD law; the strength of the real ciphers is not a theorem). *)
From Coq Require Import List NArith.
From SosModel Require Import model.Folder proofs.Folder_Lemmas model.ChangePassword proofs.ChangePassword_Lemmas.
Import ListNotations.

Section C12.
Variables id val name meta : Type.
Variable id_eqb : id -> id -> bool.
Hypothesis id_eqb_spec : forall a b, id_eqb a b = true <-> a = b.

(* compaction: same name, flags, description and secrets; exactly one creation event plus one
   event per live secret *)
Theorem C12_compact_preserves r : NoDup (keys id val (r_secrets _ _ _ _ r)) ->
  exists r', reduce id val name meta id_eqb (compact id val name meta r) = Some r' /\
             build id val name meta id_eqb r' = build id val name meta id_eqb r /\
             length (compact id val name meta r) = 1 + length (r_secrets _ _ _ _ r).
Proof. exact (compact_preserves id val name meta id_eqb id_eqb_spec r). Qed.

Variables key plain : Type.
Variable key_eqb : key -> key -> bool.
Hypothesis key_eqb_spec : forall a b, key_eqb a b = true <-> a = b.
Notation change_password := (change_password key id plain key_eqb).

(* the new key opens everything, with the same decrypted content *)
Theorem C12_change_key_preserves old new n v v' evs : change_password old new n v = Some (v', evs) ->
  sem key id plain key_eqb new v' = sem key id plain key_eqb old v /\ sem key id plain key_eqb old v <> None.
Proof. exact (change_preserves key id plain key_eqb key_eqb_spec old new n v v' evs). Qed.

(* no blob encrypted under the old key remains in the new vault or the new log *)
Theorem C12_no_old_ciphertext old new n v v' evs : change_password old new n v = Some (v', evs) ->
  Forall (fun c => c_key _ _ c = new) (vault_cts _ _ _ v') /\
  Forall (fun c => c_key _ _ c = new) (event_cts _ _ _ evs).
Proof. exact (no_old_ciphertext key id plain key_eqb old new n v v' evs). Qed.

(* ... hence the old key opens none of them *)
Theorem C12_old_key_rejected old new c : new <> old -> c_key _ _ c = new -> dec key plain key_eqb old c = None.
Proof. exact (old_key_rejected key plain key_eqb key_eqb_spec old new c). Qed.

Theorem C12_change_key_log_length old new n v v' evs : change_password old new n v = Some (v', evs) ->
  length evs = 1 + length (ev_entries _ _ _ v) /\ length (ev_entries _ _ _ v') = length (ev_entries _ _ _ v).
Proof. exact (change_log_length key id plain key_eqb old new n v v' evs). Qed.
End C12.

(* account password change: the identity vault is re-encrypted entry by entry, in order
   (C12_change_key_preserves applied to it), so every URN lookup — the saved folder passwords —
   gives what it gave before; what a lookup gives is the key saved last *)
Section C12Identity.
Variables urn kval : Type.
Variable urn_eqb : urn -> urn -> bool.
Hypothesis urn_eqb_spec : forall a b, urn_eqb a b = true <-> a = b.
Theorem C12_saved_key_is_found l u k :
  id_lookup urn kval urn_eqb (id_save urn kval l u k) u = Some k.
Proof. exact (id_save_found urn kval urn_eqb urn_eqb_spec l u k). Qed.
Theorem C12_other_keys_untouched l u k u' : u <> u' ->
  id_lookup urn kval urn_eqb (id_save urn kval l u k) u' = id_lookup urn kval urn_eqb l u'.
Proof. exact (id_save_other urn kval urn_eqb urn_eqb_spec l u k u'). Qed.
End C12Identity.
(* a rebuild that kept the first entry per URN would hand back the stale key *)
Theorem C12_dedupe_first_refuted :
  id_lookup nat nat Nat.eqb (id_save nat nat [(1, 10)] 1 11) 1 = Some 11 /\
  id_lookup nat nat Nat.eqb (dedupe_first nat nat Nat.eqb [] (id_save nat nat [(1, 10)] 1 11)) 1 = Some 10.
Proof. exact dedupe_first_changes_lookup. Qed.

Example C12_nonvacuous_change :
  exists v' evs, change_password nat nat nat Nat.eqb 1 2 10%N
    (mkEV _ _ _ (Enc _ _ 1 0%N 100) [(7, (Enc _ _ 1 1%N 101, Enc _ _ 1 2%N 102))]) = Some (v', evs) /\ length evs = 2.
Proof. eexists. eexists. split; reflexivity. Qed.

Print Assumptions C12_compact_preserves.
Print Assumptions C12_change_key_preserves.
Print Assumptions C12_no_old_ciphertext.
Print Assumptions C12_old_key_rejected.
Print Assumptions C12_change_key_log_length.
Print Assumptions C12_saved_key_is_found.
Print Assumptions C12_other_keys_untouched.
Print Assumptions C12_dedupe_first_refuted.
