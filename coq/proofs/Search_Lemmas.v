From Coq Require Import List NArith Bool Lia Arith.
From SosModel Require Import model.Search.
Import ListNotations.

Section SearchLemmas.
Variables folder id : Type.
Variable folder_eqb : folder -> folder -> bool.
Variable id_eqb : id -> id -> bool.
Hypothesis folder_eqb_spec : forall a b, folder_eqb a b = true <-> a = b.
Hypothesis id_eqb_spec : forall a b, id_eqb a b = true <-> a = b.
Notation doc := (doc folder id).
Notation index := (index folder id).
Notation ix_add := (ix_add folder id folder_eqb id_eqb).
Notation ix_remove := (ix_remove folder id folder_eqb id_eqb).
Notation ix_update := (ix_update folder id folder_eqb id_eqb).
Notation same_key := (same_key folder id folder_eqb id_eqb).
Notation has_doc := (has_doc folder id folder_eqb id_eqb).
Notation count_folder := (count_folder folder id folder_eqb).
Notation count_kind := (count_kind folder id folder_eqb).
Notation count_favs := (count_favs folder id).
Notation count_tag := (count_tag folder id).
Notation is_arch := (is_arch folder id folder_eqb).
Notation in_folder := (in_folder folder id folder_eqb).
Notation ix_remove_vault := (ix_remove_vault folder id folder_eqb id_eqb).
Notation ix_add_folder := (ix_add_folder folder id folder_eqb id_eqb).
Notation ix_force := (ix_force folder id folder_eqb id_eqb).
Notation ix_forget := (ix_forget folder id folder_eqb id_eqb).

Section Counters.
Variable K : Type.
Variable eqb : K -> K -> bool.
Hypothesis eqb_spec : forall a b, eqb a b = true <-> a = b.
Lemma eqb_refl k : eqb k k = true. Proof. apply eqb_spec. reflexivity. Qed.
Lemma eqb_neq a b : a <> b -> eqb a b = false.
Proof. intro H. destruct (eqb a b) eqn:E; [|reflexivity]. apply eqb_spec in E. congruence. Qed.
Lemma look_bump k j m : look eqb j (bump eqb k m) = if eqb k j then S (look eqb j m) else look eqb j m.
Proof.
  induction m as [|[a n] r IH]; cbn [bump look].
  - destruct (eqb k j); reflexivity.
  - destruct (eqb a k) eqn:E; cbn [look].
    + apply eqb_spec in E. subst a. destruct (eqb k j); reflexivity.
    + destruct (eqb a j) eqn:Ej.
      * apply eqb_spec in Ej. subst a. rewrite (eqb_neq k j); [reflexivity|]. intros ->. rewrite eqb_refl in E. discriminate.
      * exact IH.
Qed.
Lemma look_drop k j m : look eqb j (drop eqb k m) = if eqb k j then Nat.pred (look eqb j m) else look eqb j m.
Proof.
  induction m as [|[a n] r IH]; cbn [drop look].
  - destruct (eqb k j); reflexivity.
  - destruct (eqb a k) eqn:E; cbn [look].
    + apply eqb_spec in E. subst a. destruct (eqb k j); reflexivity.
    + destruct (eqb a j) eqn:Ej.
      * apply eqb_spec in Ej. subst a. rewrite (eqb_neq k j); [reflexivity|]. intros ->. rewrite eqb_refl in E. discriminate.
      * exact IH.
Qed.
End Counters.

Lemma N_eqb_spec a b : N.eqb a b = true <-> a = b. Proof. apply N.eqb_eq. Qed.
Lemma look_bump_all t ts m :
  look N.eqb t (bump_all ts m) = look N.eqb t m + length (filter (fun k => N.eqb k t) ts).
Proof.
  induction ts as [|k ts IH]; cbn [bump_all fold_right filter length]; [lia|].
  fold (bump_all ts m). rewrite (look_bump _ N.eqb N_eqb_spec), IH.
  destruct (N.eqb k t); cbn [length]; lia.
Qed.
Lemma look_drop_all t ts m :
  look N.eqb t (drop_all ts m) = look N.eqb t m - length (filter (fun k => N.eqb k t) ts).
Proof.
  induction ts as [|k ts IH]; cbn [drop_all fold_right filter length]; [lia|].
  fold (drop_all ts m). rewrite (look_drop _ N.eqb N_eqb_spec), IH.
  destruct (N.eqb k t); cbn [length]; lia.
Qed.
Lemma find_split (A : Type) (p : A -> bool) l d : find p l = Some d -> length (filter p l) <= 1 ->
  exists l1 l2, l = l1 ++ d :: l2 /\ filter (fun e => negb (p e)) l = l1 ++ l2.
Proof.
  induction l as [|a l IH]; [discriminate|]. cbn [find filter]. destruct (p a) eqn:Ea; cbn [negb].
  - intros Hf Hl. injection Hf as ->. exists [], l. split; [reflexivity|]. cbn [app length] in *.
    assert (filter p l = []) as Hnil by (destruct (filter p l); [reflexivity|cbn [length] in Hl; lia]).
    clear -Hnil. induction l as [|b l IH]; [reflexivity|]. cbn [filter] in *.
    destruct (p b); [discriminate|]. cbn [negb]. f_equal. apply IH. exact Hnil.
  - intros Hf Hl. destruct (IH Hf Hl) as (l1 & l2 & -> & H2). exists (a :: l1), l2. split; [reflexivity|].
    cbn [app]. f_equal. exact H2.
Qed.

(* the invariant: every counter equals a recount of the documents, and there is at most one
   document per (folder, id) *)
Definition Inv (x : index) : Prop :=
  (forall f, look folder_eqb f (c_vaults _ _ x) = count_folder f x) /\
  (forall k, look N.eqb k (c_kinds _ _ x) = count_kind k x) /\
  c_favs _ _ x = count_favs x /\
  (forall t, look N.eqb t (c_tags _ _ x) = count_tag t x) /\
  (forall f i, length (filter (same_key f i) (docs _ _ x)) <= 1).

Lemma inv_new a : Inv (new_index folder id a).
Proof. repeat split; intros; cbn; lia. Qed.
Lemma inv_empty : Inv (empty_index folder id).
Proof. apply inv_new. Qed.

Lemma filter_app_len (A : Type) (f : A -> bool) l d : length (filter f (l ++ [d])) = length (filter f l) + (if f d then 1 else 0).
Proof. rewrite filter_app, app_length. cbn [filter]. destruct (f d); cbn [length]; lia. Qed.

Lemma has_doc_false_filter f i x : has_doc f i x = false -> filter (same_key f i) (docs _ _ x) = [].
Proof.
  unfold Search.has_doc. induction (docs _ _ x) as [|d l IH]; [reflexivity|]. cbn [existsb filter].
  intro H. apply orb_false_iff in H. destruct H as [H1 H2]. rewrite H1. apply IH. exact H2.
Qed.

Lemma count_kind_ext k x y : ix_archive _ _ y = ix_archive _ _ x ->
  count_kind k y = length (filter (fun d => N.eqb (d_kind _ _ d) k && negb (is_arch x (d_folder _ _ d))) (docs _ _ y)).
Proof. unfold Search.count_kind, Search.is_arch. intros ->. reflexivity. Qed.

Theorem add_inv x d : Inv x -> Inv (ix_add x d).
Proof.
  intros (Hv & Hk & Hf & Ht & Hu). unfold Search.ix_add.
  destruct (has_doc (d_folder _ _ d) (d_id _ _ d) x) eqn:E; [repeat split; assumption|].
  repeat split; cbn [docs c_vaults c_kinds c_favs c_tags].
  - intro f. rewrite (look_bump _ folder_eqb folder_eqb_spec). unfold Search.count_folder. cbn [docs].
    rewrite filter_app_len, Hv. unfold Search.count_folder. destruct (folder_eqb (d_folder _ _ d) f); lia.
  - intro k. rewrite (count_kind_ext k x) by reflexivity. cbn [docs].
    rewrite filter_app_len. specialize (Hk k). rewrite (count_kind_ext k x x eq_refl) in Hk.
    destruct (is_arch x (d_folder _ _ d)); cbn [negb].
    + rewrite andb_false_r, Hk. lia.
    + rewrite (look_bump _ N.eqb N_eqb_spec), Hk, andb_true_r. destruct (N.eqb (d_kind _ _ d) k); lia.
  - unfold Search.count_favs. cbn [docs]. rewrite filter_app_len, Hf. unfold Search.count_favs.
    destruct (d_fav _ _ d); lia.
  - intro t. rewrite look_bump_all, Ht. unfold Search.count_tag. cbn [docs].
    rewrite flat_map_app, filter_app, app_length. cbn [flat_map]. rewrite app_nil_r. reflexivity.
  - intros f i. rewrite filter_app_len. specialize (Hu f i).
    destruct (same_key f i d) eqn:Ek; [|lia].
    unfold Search.same_key in Ek. apply andb_true_iff in Ek. destruct Ek as [Ef Ei].
    apply folder_eqb_spec in Ef. apply id_eqb_spec in Ei. subst f i.
    rewrite (has_doc_false_filter _ _ _ E). cbn [length]. lia.
Qed.

Lemma filter_neg_len (A : Type) (f g : A -> bool) (l : list A) :
  length (filter f (filter (fun e => negb (g e)) l)) + length (filter (fun e => f e && g e) l) = length (filter f l).
Proof.
  induction l as [|a l IH]; [reflexivity|]. cbn [filter].
  destruct (g a) eqn:Eg; cbn [negb filter]; destruct (f a) eqn:Ef; cbn [andb filter length]; rewrite ?Ef; cbn [length]; lia.
Qed.

Lemma find_some_unique f i x d : (forall f i, length (filter (same_key f i) (docs _ _ x)) <= 1) ->
  find (same_key f i) (docs _ _ x) = Some d ->
  forall g : doc -> bool, length (filter (fun e => g e && same_key f i e) (docs _ _ x)) = if g d then 1 else 0.
Proof.
  intros Hu Hf g. specialize (Hu f i). revert Hu Hf. induction (docs _ _ x) as [|a l IH]; [discriminate|].
  cbn [find filter]. destruct (same_key f i a) eqn:Ea.
  - intros Hu Hf. injection Hf as ->. cbn [length] in Hu.
    assert (filter (same_key f i) l = []) as Hnil by (destruct (filter (same_key f i) l); [reflexivity|cbn [length] in Hu; lia]).
    assert (filter (fun e => g e && same_key f i e) l = []) as Hnil2.
    { clear -Hnil. induction l as [|b l IH]; [reflexivity|]. cbn [filter] in *. destruct (same_key f i b); [discriminate|].
      rewrite andb_false_r. apply IH. exact Hnil. }
    rewrite Hnil2. destruct (g d); cbn [andb length]; reflexivity.
  - intros Hu Hf. rewrite andb_false_r. apply IH; assumption.
Qed.

Theorem remove_inv x f i : Inv x -> Inv (ix_remove x f i).
Proof.
  intros (Hv & Hk & Hf & Ht & Hu). unfold Search.ix_remove.
  destruct (find (same_key f i) (docs _ _ x)) as [d|] eqn:E; [|repeat split; assumption].
  assert (same_key f i d = true) as Hd by (apply find_some in E; tauto).
  assert (d_folder _ _ d = f) as Hdf
    by (unfold Search.same_key in Hd; apply andb_true_iff in Hd; apply folder_eqb_spec; tauto).
  repeat split; cbn [docs c_vaults c_kinds c_favs c_tags].
  - intro f'. rewrite (look_drop _ folder_eqb folder_eqb_spec), Hv. unfold Search.count_folder. cbn [docs].
    pose proof (filter_neg_len _ (fun e => folder_eqb (d_folder _ _ e) f') (same_key f i) (docs _ _ x)) as Hl. cbv beta in Hl.
    rewrite (find_some_unique f i x d Hu E (fun e => folder_eqb (d_folder _ _ e) f')) in Hl. rewrite Hdf in Hl.
    destruct (folder_eqb f f'); lia.
  - intro k. specialize (Hk k). rewrite (count_kind_ext k x x eq_refl) in Hk. rewrite (count_kind_ext k x) by reflexivity. cbn [docs].
    pose proof (filter_neg_len _ (fun e => N.eqb (d_kind _ _ e) k && negb (is_arch x (d_folder _ _ e))) (same_key f i) (docs _ _ x)) as Hl. cbv beta in Hl.
    rewrite (find_some_unique f i x d Hu E (fun e => N.eqb (d_kind _ _ e) k && negb (is_arch x (d_folder _ _ e)))) in Hl.
    rewrite Hdf in Hl. destruct (is_arch x f); cbn [negb] in Hl.
    + rewrite andb_false_r in Hl. lia.
    + rewrite andb_true_r in Hl. rewrite (look_drop _ N.eqb N_eqb_spec), Hk. destruct (N.eqb (d_kind _ _ d) k); lia.
  - unfold Search.count_favs. cbn [docs].
    pose proof (filter_neg_len _ (d_fav _ _) (same_key f i) (docs _ _ x)) as Hl. cbv beta in Hl.
    rewrite (find_some_unique f i x d Hu E (d_fav _ _)) in Hl. rewrite Hf. unfold Search.count_favs.
    destruct (d_fav _ _ d); lia.
  - intro t. rewrite look_drop_all, Ht. unfold Search.count_tag. cbn [docs].
    destruct (find_split _ _ _ _ E (Hu f i)) as (l1 & l2 & H1 & H2). rewrite H2, H1.
    rewrite !flat_map_app, !filter_app, !app_length. cbn [flat_map]. rewrite filter_app, app_length. lia.
  - intros f' i'. pose proof (filter_neg_len _ (same_key f' i') (same_key f i) (docs _ _ x)) as Hl.
    specialize (Hu f' i'). lia.
Qed.

Theorem update_inv x d : Inv x -> Inv (ix_update x d).
Proof. intro H. unfold Search.ix_update. apply add_inv. apply remove_inv. exact H. Qed.

(* after a remove the document is gone *)
Lemma existsb_filter_neg (A : Type) (p : A -> bool) l : existsb p (filter (fun e => negb (p e)) l) = false.
Proof.
  induction l as [|a l IH]; [reflexivity|]. cbn [filter]. destruct (p a) eqn:E; cbn [negb]; [exact IH|].
  cbn [existsb]. rewrite E. exact IH.
Qed.
Lemma find_none_existsb (A : Type) (p : A -> bool) l : find p l = None -> existsb p l = false.
Proof.
  induction l as [|a l IH]; [reflexivity|]. cbn [find existsb]. destruct (p a); [discriminate|]. exact IH.
Qed.
Theorem remove_gone x f i : has_doc f i (ix_remove x f i) = false.
Proof.
  unfold Search.ix_remove, Search.has_doc. destruct (find (same_key f i) (docs _ _ x)) as [d|] eqn:E.
  - cbn [docs]. apply existsb_filter_neg.
  - apply find_none_existsb. exact E.
Qed.
(* ---- whole-folder operations: remove_vault, add_folder, forced overwrite, forget ---- *)
Lemma fold_remove_inv f l x : Inv x -> Inv (fold_left (fun y (d : doc) => ix_remove y f (d_id _ _ d)) l x).
Proof. revert x. induction l as [|d l IH]; intros x H; cbn [fold_left]; [exact H|]. apply IH, remove_inv, H. Qed.
Theorem remove_vault_inv x f : Inv x -> Inv (ix_remove_vault x f).
Proof. apply fold_remove_inv. Qed.
Theorem add_folder_inv ds x : Inv x -> Inv (ix_add_folder x ds).
Proof. unfold Search.ix_add_folder. revert x. induction ds as [|d ds IH]; intros x H; cbn [fold_left]; [exact H|]. apply IH, add_inv, H. Qed.
Theorem force_inv x f ds : Inv x -> Inv (ix_force x f ds).
Proof. intro H. apply add_folder_inv, remove_vault_inv, H. Qed.

Lemma filter_all_true (A : Type) (p : A -> bool) l : (forall a, In a l -> p a = true) -> filter p l = l.
Proof.
  induction l as [|a l IH]; intro H; [reflexivity|]. cbn [filter]. rewrite (H a (or_introl eq_refl)).
  f_equal. apply IH. intros b Hb. apply H. right. exact Hb.
Qed.
Lemma find_none_all (A : Type) (p : A -> bool) l : find p l = None -> forall a, In a l -> p a = false.
Proof.
  induction l as [|b l IH]; [intros _ a []|]. cbn [find]. destruct (p b) eqn:E; [discriminate|].
  intros H a [<-|Ha]; [exact E|]. apply IH; assumption.
Qed.
Lemma remove_docs x f i : docs _ _ (ix_remove x f i) = filter (fun e => negb (same_key f i e)) (docs _ _ x).
Proof.
  unfold Search.ix_remove. destruct (find (same_key f i) (docs _ _ x)) as [d|] eqn:E; [reflexivity|].
  symmetry. apply filter_all_true. intros a Ha. rewrite (find_none_all _ _ _ E a Ha). reflexivity.
Qed.
Lemma remove_archive x f i : ix_archive _ _ (ix_remove x f i) = ix_archive _ _ x.
Proof. unfold Search.ix_remove. destruct (find _ _); reflexivity. Qed.
Lemma add_archive x d : ix_archive _ _ (ix_add x d) = ix_archive _ _ x.
Proof. unfold Search.ix_add. destruct (has_doc _ _ x); reflexivity. Qed.

Lemma fold_remove_docs f l x :
  docs _ _ (fold_left (fun y (d : doc) => ix_remove y f (d_id _ _ d)) l x)
  = filter (fun e => negb (existsb (fun d : doc => same_key f (d_id _ _ d) e) l)) (docs _ _ x).
Proof.
  revert x. induction l as [|d l IH]; intro x; cbn [fold_left existsb].
  - symmetry. apply filter_all_true. reflexivity.
  - rewrite IH, remove_docs. clear IH. induction (docs _ _ x) as [|e r IHr]; [reflexivity|]. cbn [filter].
    destruct (same_key f (d_id _ _ d) e) eqn:E; cbn [negb orb]; [exact IHr|].
    cbn [filter]. destruct (existsb _ l); cbn [negb]; [exact IHr|]. f_equal. exact IHr.
Qed.

(* after remove_vault exactly the documents of the other folders remain, in their order *)
Theorem remove_vault_docs x f :
  docs _ _ (ix_remove_vault x f) = filter (fun e => negb (in_folder f e)) (docs _ _ x).
Proof.
  unfold Search.ix_remove_vault. rewrite fold_remove_docs. apply filter_ext_in. intros e He. f_equal.
  destruct (in_folder f e) eqn:Ef.
  - apply existsb_exists. exists e. split; [apply filter_In; split; assumption|].
    unfold Search.same_key. unfold Search.in_folder in Ef. rewrite Ef. apply id_eqb_spec. reflexivity.
  - destruct (existsb _ _) eqn:Ex; [|reflexivity]. apply existsb_exists in Ex. destruct Ex as (d & _ & Hd).
    unfold Search.same_key in Hd. apply andb_true_iff in Hd. unfold Search.in_folder in Ef. destruct Hd as [Hd _]. congruence.
Qed.
Theorem forget_gone x f d : In d (docs _ _ (ix_forget x f)) -> in_folder f d = false.
Proof.
  unfold Search.ix_forget. rewrite remove_vault_docs. intro H. apply filter_In in H. destruct H as [_ H].
  destruct (in_folder f d); [discriminate|reflexivity].
Qed.

(* add_folder appends the documents when none of them is already present and their ids differ *)
Lemma add_folder_docs ds : forall x,
  (forall d, In d ds -> has_doc (d_folder _ _ d) (d_id _ _ d) x = false) ->
  NoDup (map (fun d : doc => (d_folder _ _ d, d_id _ _ d)) ds) ->
  docs _ _ (ix_add_folder x ds) = docs _ _ x ++ ds.
Proof.
  unfold Search.ix_add_folder. induction ds as [|d ds IH]; intros x Hnew Hnd; cbn [fold_left]; [rewrite app_nil_r; reflexivity|].
  inversion Hnd as [|k ks Hk Hnd']; subst.
  assert (docs _ _ (ix_add x d) = docs _ _ x ++ [d]) as Hd.
  { unfold Search.ix_add. rewrite (Hnew d (or_introl eq_refl)). reflexivity. }
  rewrite IH; [rewrite Hd, <- app_assoc; reflexivity| |exact Hnd'].
  intros e He. unfold Search.has_doc. rewrite Hd, existsb_app. cbn [existsb]. rewrite orb_false_r.
  apply orb_false_iff. split; [apply (Hnew e (or_intror He))|].
  unfold Search.same_key. destruct (folder_eqb (d_folder _ _ d) (d_folder _ _ e)) eqn:E1; [|reflexivity].
  destruct (id_eqb (d_id _ _ d) (d_id _ _ e)) eqn:E2; [|reflexivity]. exfalso. apply Hk.
  apply folder_eqb_spec in E1. apply id_eqb_spec in E2. rewrite E1, E2.
  apply (in_map (fun d : doc => (d_folder _ _ d, d_id _ _ d)) ds e He).
Qed.

(* a forced overwrite leaves exactly: the other folders' documents, then the folder's new contents *)
Theorem force_docs x f ds :
  (forall d, In d ds -> d_folder _ _ d = f) -> NoDup (map (d_id _ _) ds) ->
  docs _ _ (ix_force x f ds) = filter (fun e => negb (in_folder f e)) (docs _ _ x) ++ ds.
Proof.
  intros Hf Hnd. unfold Search.ix_force. rewrite add_folder_docs, remove_vault_docs; [reflexivity| |].
  - intros d Hd. unfold Search.has_doc. rewrite remove_vault_docs.
    destruct (existsb _ _) eqn:Ex; [|reflexivity]. apply existsb_exists in Ex. destruct Ex as (e & He & Hk).
    apply filter_In in He. destruct He as [_ He]. unfold Search.same_key in Hk. apply andb_true_iff in Hk.
    destruct Hk as [Hk _]. unfold Search.in_folder in He. rewrite (Hf d Hd) in Hk. rewrite Hk in He. discriminate.
  - clear -Hf Hnd. induction ds as [|d ds IH]; [constructor|]. cbn [map] in *. inversion Hnd as [|k ks Hk Hnd']; subst.
    constructor; [|apply IH; [intros e He; apply Hf; right; exact He|exact Hnd']].
    intro Hin. apply in_map_iff in Hin. destruct Hin as (e & Heq & He). apply Hk. injection Heq as _ Hid.
    rewrite <- Hid. apply in_map. exact He.
Qed.
End SearchLemmas.
