"""C10 — ciphertext is authenticated, key-bound and never reuses a nonce."""
from vcheck import acct

ID = "C10"
SUB = "c10"
LEVEL = "proof"
RESILIENT = True
RULE = ("AEAD sweeps: plaintext lengths {0,1,15,16,17,33,1000,70000} x {AES-GCM, XChaCha20}: every nonce bit, a spread of "
        "ciphertext bits (up to 256), truncations, extension, nonce/ciphertext swaps with a second pack, wrong nonce size, "
        "wrong key; key derivation pool (2 KDFs x 4 passwords x 2 salts x 3 seeds); failed-unlock state; nonce census over "
        "every AeadPack in the logs and vaults of generated accounts; non-trivial = every aead and nonce case; distinct by case")
TRUSTED_BASE = ["model/Crypto.v: idealised AEAD (correctness, integrity, key binding) and KDF as section hypotheses",
                "the sweeps and the census run on the real ciphers"]
ASSUMPTIONS = ["cryptographic strength of the primitives and RNG quality are assumed, not proved",
               "the asymmetric cipher (age/X25519) is exercised at the AeadPack level (encrypt_asymmetric / decrypt_asymmetric); shared folders built on it are not"]


def corpus():
    return ["c10 k_unlock mode=unlock", "c10 k_derive mode=derive",
            "c10 k_a0 mode=aead cipher=aes len=0 seed=1", "c10 k_x0 mode=aead cipher=xchacha len=0 seed=2",
            "c10 k_g0 mode=aead cipher=x25519 len=0 seed=3", "c10 k_g1 mode=aead cipher=x25519 len=300 seed=4"]


def gen_cases(rng, tier):
    out = []
    lens = [1, 15, 16, 17, 33, 1000, 70000] if tier == "quick" else [1, 2, 15, 16, 17, 31, 32, 33, 255, 256, 1000, 4096, 70000, 3000000]
    k = 0
    for ln in lens:
        for c in ("aes", "xchacha", "x25519"):
            for rep in range(1 if tier == "quick" else 4):
                out.append("c10 a%d mode=aead cipher=%s len=%d seed=%d" % (k, c, ln, rng.randrange(1 << 30))); k += 1
    n = 6 if tier == "quick" else 100
    for j in range(n):
        ops = []
        for _ in range(rng.randrange(5, 14)):
            r = rng.random()
            ops.append(("c0:%s" if r < 0.4 else "u0:%s" if r < 0.7 else "x0:%s" if r < 0.8 else "p0:0" if r < 0.9 else rng.choice(["w0:0", "z0:0"])) % (rng.choice("abc"),) if r < 0.8 else ("p0:0" if r < 0.9 else rng.choice(["w0:0", "z0:0"])))
        out.append("c10 n%d mode=nonces cbe=%s hist=%s" % (j, "db" if j % 2 else "fs", "|".join(ops)))
    return out


def oracle(case, obs):
    plain = [o for o in obs if not o.startswith("!")]
    if not plain:
        return [{"oracle": "no_result", "detail": "no observation"}]
    t = plain[0].split()
    kv = dict(x.split("=", 1) for x in t[1:] if "=" in x)
    fails = []
    if t[0] == "aead":
        if kv.get("roundtrip") != "1":
            fails.append({"oracle": "roundtrip", "detail": "decrypt(encrypt(p)) != p: %s" % case})
        if kv.get("wrongkey") != "rejected":
            fails.append({"oracle": "key_bound", "detail": "another key opened the ciphertext: %s" % case})
        if kv.get("accepted") != "0":
            fails.append({"oracle": "tamper", "kinds": kv.get("kinds"), "cipher": dict(x.split("=", 1) for x in case.split()[2:] if "=" in x).get("cipher"), "detail": "%s of %s tampered packs were accepted (%s): %s" % (kv.get("accepted"), kv.get("tampered"), kv.get("kinds"), case)})
    elif t[0] == "derive":
        if kv.get("distinct") != kv.get("expected"):
            fails.append({"oracle": "derive_separates", "detail": "%s derivations gave %s distinct keys" % (kv.get("keys"), kv.get("distinct"))})
    elif t[0] == "unlock":
        if kv.get("own") != "ok":
            fails.append({"oracle": "unlock_own", "detail": "the folder's own password does not unlock it"})
        if kv.get("other") != "err":
            fails.append({"oracle": "unlock_other", "detail": "a different password unlocked the folder"})
        if kv.get("write_after_failed") != "refused":
            fails.append({"oracle": "failed_unlock_locked", "detail": "after a failed unlock the access point accepted a write (encrypted under the wrong key)"})
    elif t[0] == "nonces":
        if kv.get("reused") != "0":
            fails.append({"oracle": "nonce_reuse", "detail": "%s nonce value(s) used for two different ciphertexts (%s packs)" % (kv.get("reused"), kv.get("packs"))})
    return fails


def nontrivial(case, obs):
    return "mode=aead" in case or "mode=nonces" in case


def distinct_key(case):
    return case.split(" ", 2)[2]


def distribution(cases, impl):
    tam = packs = 0
    for cid, obs in impl.items():
        for o in obs:
            t = o.split(); kv = dict(x.split("=", 1) for x in t[1:] if "=" in x)
            if t and t[0] == "aead": tam += int(kv.get("tampered", "0"))
            if t and t[0] == "nonces": packs += int(kv.get("packs", "0"))
    return {"tampered_packs_tried": tam, "aead_packs_in_nonce_census": packs}


MANIFEST = {
    "category": "proof",
    "text": ("Coq theorems relative to idealised AEAD/KDF hypotheses: round trip; a pack opens only if it is exactly the pack "
             "produced for that key, nonce and plaintext (so bit flips, truncation, extension, swapped parts, wrong nonce size "
             "and other keys fail); unlock succeeds only with a password whose derived key opens the meta pack and a failed "
             "unlock leaves no key; one stream value per encryption gives pairwise distinct nonces. On the implementation: "
             "tamper sweeps over the three ciphers, key pools, derivation pool, failed-unlock state and a nonce census over every "
             "AeadPack of generated accounts"),
    "design_ref": "DESIGN.md §4 C10",
    "note": "partial by nature: primitive strength and RNG quality are hypotheses; the model is not executed (no executable primitives) — the implementation sweeps are exploration",
    "technique": "Coq proof relative to idealised AEAD/KDF + tamper/key/nonce sweeps on the real ciphers",
}
