(* C05 — merging never loses, duplicates or resurrects committed edits (merge function level;
   the end-to-end consequences on real accounts are the C04 correspondence). *)
From Coq Require Import List NArith Permutation Sorted.
From SosModel Require Import model.EventLog model.MergePatches proofs.MergePatches_Lemmas.
Import ListNotations.

Section C05.
Variable hash : Type.
Variable hash_eqb : hash -> hash -> bool.
Hypothesis hash_eqb_spec : forall a b, hash_eqb a b = true <-> a = b.
Variable dat : Type.
Notation merge_patches := (merge_patches hash hash_eqb dat).

(* the divergent events are interleaved in timestamp order, nothing added, nothing dropped,
   equal timestamps keep their order (local first) *)
Theorem C05_merged_perm_sorted_stable local remote m : merge_patches local remote = PushRemote m ->
  Permutation m (not_in_remote hash hash_eqb dat remote local ++ remote) /\
  StronglySorted (time_le hash dat) m /\
  (forall t, at_time hash dat t m =
             at_time hash dat t (not_in_remote hash hash_eqb dat remote local) ++ at_time hash dat t remote).
Proof. exact (push_remote_spec hash hash_eqb dat local remote m). Qed.

(* local events are only discarded (rewind) when each of them is already on the remote *)
Theorem C05_rewind_local_loses_nothing local remote m : merge_patches local remote = RewindLocal m ->
  m = remote /\ forall r, In r local -> In (er_commit r) (map er_commit remote).
Proof. exact (rewind_local_spec hash hash_eqb hash_eqb_spec dat local remote m). Qed.

Theorem C05_push_only_with_new_local_event local remote m : merge_patches local remote = PushRemote m ->
  exists r, In r local /\ ~ In (er_commit r) (map er_commit remote).
Proof. exact (push_remote_when hash hash_eqb hash_eqb_spec dat local remote m). Qed.

(* every event committed on either side since the ancestor is present exactly once
   (byte-identical events made on both sides count as one) and nothing else is added *)
Theorem C05_exactly_once local remote m : merge_patches local remote = PushRemote m ->
  NoDup (map er_commit local) -> NoDup (map er_commit remote) ->
  NoDup (map er_commit m) /\
  (forall c, In c (map er_commit m) <-> In c (map er_commit local) \/ In c (map er_commit remote)).
Proof. exact (exactly_once hash hash_eqb hash_eqb_spec dat local remote m). Qed.
End C05.

(* the same delete made on both sides at different times is kept once (the remote copy) *)
Theorem C05_nonvacuous_identical_events_once :
  merge_patches nat Nat.eqb nat [mkErec 1%N 7 0; mkErec 3%N 9 0] [mkErec 2%N 7 0]
  = PushRemote [mkErec 2%N 7 0; mkErec 3%N 9 0].
Proof. reflexivity. Qed.

Theorem C05_nonvacuous_rewind :
  merge_patches nat Nat.eqb nat [mkErec 5%N 7 0] [mkErec 1%N 7 0; mkErec 3%N 8 0]
  = RewindLocal [mkErec 1%N 7 0; mkErec 3%N 8 0].
Proof. reflexivity. Qed.

Print Assumptions C05_merged_perm_sorted_stable.
Print Assumptions C05_rewind_local_loses_nothing.
Print Assumptions C05_push_only_with_new_local_event.
Print Assumptions C05_exactly_once.
Print Assumptions C05_nonvacuous_identical_events_once.
Print Assumptions C05_nonvacuous_rewind.
