open Model
open Glue
(* time tokens are numbers here: the model sorts by them *)
let record_for spec : (string, n, string) erec =
  let r = C06.record_for spec in
  { er_time = n_of_int (int_of_string r.er_time); er_commit = r.er_commit; er_data = r.er_data }
let fmt (r : (string, n, string) erec) =
  Printf.sprintf "%s:%s@%d" (String.sub (hex_of_string r.er_commit) 0 8)
    (String.sub (hex_of_string (sha256_str r.er_data)) 0 4) (int_of_n r.er_time)
let run_line line =
  let toks = String.split_on_char ' ' line |> List.filter (fun s -> s <> "") in
  match toks with
  | _ :: id :: rest when List.exists (fun t -> String.length t > 5 && String.sub t 0 5 = "hist=") rest ->
    Printf.printf "%s unmodelled\n" id
  | _ :: id :: rest ->
    let recs k = match kv rest k with Some v -> List.map record_for (split_on ',' v) | None -> [] in
    (match merge_patches hash_eqb (recs "L") (recs "R") with
     | RewindLocal v -> Printf.printf "%s rewind %s\n" id (String.concat "," (List.map fmt v))
     | PushRemote v -> Printf.printf "%s push %s\n" id (String.concat "," (List.map fmt v)))
  | _ -> ()
