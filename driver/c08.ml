open Model
open Glue

let leaf (sym : int) : string = sha256_str (String.make 1 (Char.chr sym))
let fmt_proof (p : string proof) : string =
  Printf.sprintf "%s:%d:%s:%s" (hex_of_string p.p_root) (int_of_n p.p_length)
    (String.concat "," (List.map (fun i -> string_of_int (int_of_n i)) p.p_indices))
    (String.concat "" (List.map hex_of_string p.p_hashes))
let fmt_cmp = function
  | None -> "ERR"
  | Some CmpEqual -> "E"
  | Some (CmpContains ix) ->
    "C[" ^ String.concat "," (List.map (fun i -> string_of_int (int_of_n i)) ix) ^ "]"
  | Some CmpUnknown -> "U"

let run_line (line : string) : unit =
  let toks = String.split_on_char ' ' line |> List.filter (fun s -> s <> "") in
  match toks with
  | _ :: id :: rest ->
    let syms k = match kv rest k with
      | Some v -> List.map int_of_string (split_on ',' v) | None -> [] in
    let a = List.map leaf (syms "A") and b = List.map leaf (syms "B") in
    let rh l = match root h2 l with Some r -> hex_of_string r | None -> "-" in
    Printf.printf "%s rootA=%s\n" id (rh a);
    Printf.printf "%s rootB=%s\n" id (rh b);
    let ha = head h2 a and hb = head h2 b in
    let fp = function Some p -> fmt_proof p | None -> "-" in
    Printf.printf "%s headA=%s\n" id (fp ha);
    Printf.printf "%s headB=%s\n" id (fp hb);
    (match hb with Some p ->
       Printf.printf "%s cmpA_headB=%s\n" id (fmt_cmp (tree_compare hash_eqb h2 a p)) | None -> ());
    (match ha with Some p ->
       Printf.printf "%s cmpB_headA=%s\n" id (fmt_cmp (tree_compare hash_eqb h2 b p)) | None -> ());
    List.iteri (fun i _ ->
      match proof_at h2 b (n_of_int i) with
      | None -> ()
      | Some p ->
        Printf.printf "%s proofB i=%d %s\n" id i (fmt_proof p);
        Printf.printf "%s vl i=%d %d\n" id i (if verify_leaves hash_eqb h2 p a then 1 else 0);
        if a <> [] then
          Printf.printf "%s cmpi i=%d %s\n" id i (fmt_cmp (tree_compare hash_eqb h2 a p))) b
  | _ -> ()
