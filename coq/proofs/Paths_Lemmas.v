From Coq Require Import List NArith Arith Bool Lia.
From SosModel Require Import model.Paths.
Import ListNotations.
Local Open Scope N_scope.

Lemma take_bytes_prefix limit : forall s, exists t, s = take_bytes limit s ++ t.
Proof.
  revert limit. intros limit s. revert limit. induction s as [|c r IH]; intro limit; [exists []; reflexivity|].
  cbn [take_bytes]. destruct (Nat.leb (utf8_len c) limit); [|exists (c :: r); reflexivity].
  destruct (IH (limit - utf8_len c)%nat) as [t Ht]. exists t. cbn [app]. f_equal. exact Ht.
Qed.

Lemma in_take_bytes limit s x : In x (take_bytes limit s) -> In x s.
Proof. intro H. destruct (take_bytes_prefix limit s) as [t Ht]. rewrite Ht. apply in_or_app. left. exact H. Qed.

Lemma utf8_len_le4 c : (1 <= utf8_len c <= 4)%nat.
Proof. unfold utf8_len. destruct (c <? 128); [lia|]. destruct (c <? 2048); [lia|]. destruct (c <? 65536); lia. Qed.

(* a truncated name is long: at least 252 bytes, hence never "." or ".." *)
Lemma take_bytes_long : forall s limit, (limit < byte_len s)%nat -> (limit - 3 <= byte_len (take_bytes limit s))%nat.
Proof.
  induction s as [|c r IH]; intros limit H; cbn [byte_len fold_right] in H; [lia|].
  cbn [take_bytes]. pose proof (utf8_len_le4 c) as Hc.
  destruct (Nat.leb (utf8_len c) limit) eqn:E.
  - apply Nat.leb_le in E. cbn [byte_len fold_right]. fold (byte_len (take_bytes (limit - utf8_len c) r)).
    fold (byte_len r) in H. specialize (IH (limit - utf8_len c)%nat). lia.
  - apply Nat.leb_gt in E. cbn [byte_len fold_right]. lia.
Qed.

Lemma sanitize_chars name c : In c (sanitize name) -> illegal c = false /\ control c = false.
Proof.
  unfold sanitize. set (b := filter (fun c => negb (control c)) (filter (fun c => negb (illegal c)) name)).
  intro H.
  assert (In c b) as Hb.
  { destruct (all_dots b); [destruct (Nat.ltb 255 (byte_len [])); cbn in H; contradiction|].
    destruct (Nat.ltb 255 (byte_len b)); [apply (in_take_bytes _ _ _ H)|exact H]. }
  unfold b in Hb. apply filter_In in Hb. destruct Hb as [Ha Hc]. apply filter_In in Ha. destruct Ha as [_ Hi].
  apply negb_true_iff in Hc. apply negb_true_iff in Hi. tauto.
Qed.

Lemma all_dots_dot : all_dots dot = true. Proof. reflexivity. Qed.
Lemma all_dots_dotdot : all_dots dotdot = true. Proof. reflexivity. Qed.

(* sanitising never yields "." or ".." *)
Theorem sanitize_not_dots name : sanitize name <> dot /\ sanitize name <> dotdot.
Proof.
  unfold sanitize. set (b := filter (fun c => negb (control c)) (filter (fun c => negb (illegal c)) name)).
  destruct (all_dots b) eqn:Ed.
  - cbn. split; discriminate.
  - destruct (Nat.ltb 255 (byte_len b)) eqn:El.
    + apply Nat.ltb_lt in El. pose proof (take_bytes_long b 255 El) as Hlong.
      split; intro E; rewrite E in Hlong; cbn in Hlong; lia.
    + split; intro E; rewrite E in Ed; cbn in Ed; discriminate.
Qed.

(* the destination of any entry name: every component is non-empty, is not "." or "..", and
   contains no path separator, drive colon or control character *)
Theorem sanitize_file_path_confined (s : str) :
  Forall (fun c => c <> [] /\ c <> dot /\ c <> dotdot /\
                   Forall (fun x => illegal x = false /\ control x = false) c)
         (sanitize_file_path s).
Proof.
  unfold sanitize_file_path. apply Forall_forall. intros c Hc. apply filter_In in Hc. destruct Hc as [Hin Hne].
  apply in_map_iff in Hin. destruct Hin as (name & <- & _).
  destruct (sanitize_not_dots name) as [H1 H2].
  repeat split; try assumption.
  - intro E. rewrite E in Hne. discriminate.
  - apply Forall_forall. intros x Hx. apply (sanitize_chars name x Hx).
Qed.

(* '/' (47), '\' (92) and ':' (58) are illegal characters *)
Lemma separators_illegal : illegal 47 = true /\ illegal 92 = true /\ illegal 58 = true.
Proof. repeat split; reflexivity. Qed.

Example confined_nonvacuous :
  sanitize_file_path [102;105;108;101;115;47;46;46;47;46;46;92;101;116;99;47;112;58;119]   (* files/../..\etc/p:w *)
  = [[102;105;108;101;115]; [101;116;99]; [112;119]].
Proof. reflexivity. Qed.
