(* Trusted glue: conversions between OCaml ints/strings and the extracted Coq datatypes,
   hex printing, case-line parsing helpers. *)
open Model

let rec pos_of_int (i : int) : positive =
  if i = 1 then XH
  else if i land 1 = 0 then XO (pos_of_int (i lsr 1))
  else XI (pos_of_int (i lsr 1))
let n_of_int (i : int) : n = if i = 0 then N0 else Npos (pos_of_int i)
let rec int_of_pos = function
  | XH -> 1 | XO p -> 2 * int_of_pos p | XI p -> 2 * int_of_pos p + 1
let int_of_n = function N0 -> 0 | Npos p -> int_of_pos p
let rec nat_of_int (i : int) : nat = if i = 0 then O else S (nat_of_int (i - 1))
let rec int_of_nat = function O -> 0 | S k -> 1 + int_of_nat k

let bytes_of_string (s : string) : n list =
  List.init (String.length s) (fun i -> n_of_int (Char.code s.[i]))
let string_of_bytes (l : n list) : string =
  let b = Buffer.create 64 in
  List.iter (fun x -> Buffer.add_char b (Char.chr (int_of_n x))) l;
  Buffer.contents b
let hex_of_string (s : string) : string =
  let b = Buffer.create (2 * String.length s) in
  String.iter (fun c -> Buffer.add_string b (Printf.sprintf "%02x" (Char.code c))) s;
  Buffer.contents b
let string_of_hex (h : string) : string =
  String.init (String.length h / 2) (fun i -> Char.chr (int_of_string ("0x" ^ String.sub h (2*i) 2)))

(* SHA-256 = the extracted Gallina function, memoised (a pure function; memoisation is
   observationally transparent).  Hashes are carried as 32-byte OCaml strings: the Merkle
   model is polymorphic in the hash type. *)
let sha_memo : (string, string) Hashtbl.t = Hashtbl.create 4096
let sha_calls = ref 0
let sha256_str (s : string) : string =
  match Hashtbl.find_opt sha_memo s with
  | Some r -> r
  | None ->
    incr sha_calls;
    let r = string_of_bytes (sha256 (bytes_of_string s)) in
    Hashtbl.add sha_memo s r; r
let h2 (a : string) (b : string) : string = sha256_str (a ^ b)
let hash_eqb (a : string) (b : string) : bool = String.equal a b

let split_on c s = if s = "" then [] else String.split_on_char c s
let kv (toks : string list) (key : string) : string option =
  let pre = key ^ "=" in
  let pl = String.length pre in
  List.find_map (fun t ->
    if String.length t >= pl && String.sub t 0 pl = pre
    then Some (String.sub t pl (String.length t - pl)) else None) toks
