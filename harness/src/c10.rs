//! C10: ciphertext is authenticated, key-bound, nonces never repeat.
//!   c10 <id> mode=aead cipher=aes|xchacha len=<n> seed=<k>
//!        encrypts a pseudo-random plaintext under key A; checks round trip, wrong key, every
//!        single-bit flip of nonce and ciphertext, truncations, extension, part swaps with a
//!        second pack, wrong nonce size:  "<id> aead roundtrip=<b> wrongkey=<rejected|ACCEPTED>
//!        tampered=<n> accepted=<k> kinds=<list of accepted kinds>"
//!   c10 <id> mode=derive          pool of passwords x salts x seeds: "<id> derive keys=<n> distinct=<m> expected=<m'>"
//!   c10 <id> mode=unlock          vault created with password P: unlock(P) ok, unlock(Q) fails and
//!        leaves the access point locked: "<id> unlock own=<ok|err> other=<ok|err> write_after_failed=<refused|ACCEPTED>"
//!   c10 <id> mode=nonces cbe=fs|db hist=<steps>   all AeadPacks of all folder logs and vaults of the account:
//!        "<id> nonces total=<n> distinct=<m> n12=<..> n24=<..>"
use crate::acct::World;
use crate::sync::Gate;
use crate::util::{kv, rt, Rng};
use futures::{pin_mut, StreamExt};
use sos_account::Account;
use sos_core::{
    crypto::{AccessKey, AeadPack, Cipher, DerivedPrivateKey, KeyDerivation, Nonce, PrivateKey},
    events::{EventLog, WriteEvent},
};
use sos_sync::StorageEventLogs;
use sos_vault::{secret::{Secret, SecretMeta, SecretRow}, BuilderCredentials, SecretAccess, VaultBuilder};
use std::collections::HashSet;
use std::io::Write;

fn note(label: &str) -> (SecretMeta, Secret) {
    let secret = Secret::Note { text: "t".to_string().into(), user_data: Default::default() };
    (SecretMeta::new(label.to_string(), secret.kind()), secret)
}

pub fn run(text: &str, cases_path: &str, out: &mut impl Write) {
    let rt = rt();
    let base = std::path::Path::new(cases_path).parent().unwrap().join("data-c10");
    for line in text.lines() {
        let toks: Vec<&str> = line.split_whitespace().collect();
        if toks.len() < 2 || toks[0].starts_with('#') {
            continue;
        }
        let id = toks[1].to_string();
        match kv(&toks, "mode").unwrap_or("") {
            "aead" => {
                let cname = kv(&toks, "cipher").unwrap_or("aes").to_string();
                let cipher = match cname.as_str() { "aes" => Cipher::AesGcm256, "x25519" => Cipher::X25519, _ => Cipher::XChaCha20Poly1305 };
                let len: usize = kv(&toks, "len").unwrap_or("16").parse().unwrap();
                let mut r = Rng::new(kv(&toks, "seed").unwrap_or("1").parse().unwrap());
                let asym = cname == "x25519";
                let (ka, kb) = if asym {
                    (PrivateKey::Asymmetric(age::x25519::Identity::generate()), PrivateKey::Asymmetric(age::x25519::Identity::generate()))
                } else {
                    (PrivateKey::Symmetric(DerivedPrivateKey::from(r.bytes(32))), PrivateKey::Symmetric(DerivedPrivateKey::from(r.bytes(32))))
                };
                let pt = r.bytes(len);
                let pt2 = r.bytes(len.max(1));
                rt.block_on(async {
                    // one interface over the symmetric ciphers and the asymmetric (age) one
                    async fn enc(c: &Cipher, k: &PrivateKey, pt: &[u8]) -> AeadPack {
                        match k {
                            PrivateKey::Asymmetric(id) => c.encrypt_asymmetric(k, pt, vec![id.to_public()]).await.unwrap(),
                            _ => c.encrypt_symmetric(k, pt, None).await.unwrap(),
                        }
                    }
                    async fn dec(c: &Cipher, k: &PrivateKey, p: &AeadPack) -> Option<Vec<u8>> {
                        match k {
                            PrivateKey::Asymmetric(_) => c.decrypt_asymmetric(k, p).await.ok(),
                            _ => c.decrypt_symmetric(k, p).await.ok(),
                        }
                    }
                    let pack = enc(&cipher, &ka, &pt).await;
                    let other = enc(&cipher, &ka, &pt2).await;
                    let roundtrip = dec(&cipher, &ka, &pack).await.map(|p| p == pt).unwrap_or(false);
                    let wrongkey = dec(&cipher, &kb, &pack).await.is_some();
                    let mut tampered = 0usize;
                    let mut accepted: Vec<String> = vec![];
                    let nonce_bytes: Vec<u8> = pack.nonce.as_ref().to_vec();
                    let mk_nonce = |b: &[u8]| -> Option<Nonce> {
                        match b.len() { 12 => Some(Nonce::Nonce12(b.try_into().unwrap())), 24 => Some(Nonce::Nonce24(b.try_into().unwrap())), _ => None }
                    };
                    let mut try_pack = |kind: &str, p: AeadPack, tampered: &mut usize, accepted: &mut Vec<String>| {
                        *tampered += 1;
                        let ok = futures::executor::block_on(dec(&cipher, &ka, &p)).is_some();
                        if ok { accepted.push(kind.to_string()); }
                    };
                    for i in 0..nonce_bytes.len() * 8 {
                        let mut b = nonce_bytes.clone(); b[i / 8] ^= 1 << (i % 8);
                        try_pack("nonce-bit", AeadPack { nonce: mk_nonce(&b).unwrap(), ciphertext: pack.ciphertext.clone() }, &mut tampered, &mut accepted);
                    }
                    let ct = pack.ciphertext.clone();
                    let step = (ct.len() * 8 / 256).max(1);
                    for i in (0..ct.len() * 8).step_by(step) {
                        let mut b = ct.clone(); b[i / 8] ^= 1 << (i % 8);
                        try_pack("ct-bit", AeadPack { nonce: pack.nonce.clone(), ciphertext: b }, &mut tampered, &mut accepted);
                    }
                    for n in [0usize, 1, ct.len() / 2, ct.len().saturating_sub(1)] {
                        if n < ct.len() { try_pack("truncate", AeadPack { nonce: pack.nonce.clone(), ciphertext: ct[..n].to_vec() }, &mut tampered, &mut accepted); }
                    }
                    let mut ext = ct.clone(); ext.push(0);
                    try_pack("extend", AeadPack { nonce: pack.nonce.clone(), ciphertext: ext }, &mut tampered, &mut accepted);
                    try_pack("swap-nonce", AeadPack { nonce: other.nonce.clone(), ciphertext: ct.clone() }, &mut tampered, &mut accepted);
                    try_pack("swap-ct", AeadPack { nonce: pack.nonce.clone(), ciphertext: other.ciphertext.clone() }, &mut tampered, &mut accepted);
                    // wrong nonce size for this cipher
                    let wrong = if nonce_bytes.len() == 12 { let mut v = nonce_bytes.clone(); v.extend_from_slice(&[0u8; 12]); v } else { nonce_bytes[..12].to_vec() };
                    try_pack("nonce-size", AeadPack { nonce: mk_nonce(&wrong).unwrap(), ciphertext: ct.clone() }, &mut tampered, &mut accepted);
                    accepted.sort(); accepted.dedup();
                    writeln!(out, "{id} aead roundtrip={} wrongkey={} tampered={tampered} accepted={} kinds={}", roundtrip as u8,
                        if wrongkey { "ACCEPTED" } else { "rejected" }, accepted.len(), accepted.join(";")).unwrap();
                });
            }
            "derive" => {
                use secrecy::SecretString;
                let passwords = ["correct horse", "correct horse ", "Correct horse", "x"];
                let salts = [KeyDerivation::generate_salt(), KeyDerivation::generate_salt()];
                let seeds = [None, Some(KeyDerivation::generate_seed()), Some(KeyDerivation::generate_seed())];
                let mut keys = HashSet::new();
                let mut n = 0;
                for kdf in [KeyDerivation::Argon2Id, KeyDerivation::BalloonHash] {
                    for p in &passwords {
                        for s in &salts {
                            for seed in &seeds {
                                let d = kdf.deriver();
                                let k = d.derive(&SecretString::new(p.to_string().into()), s, seed.as_ref()).unwrap();
                                keys.insert(k.as_ref().to_vec());
                                n += 1;
                                // determinism: same inputs -> same key
                                let k2 = d.derive(&SecretString::new(p.to_string().into()), s, seed.as_ref()).unwrap();
                                if k2.as_ref() != k.as_ref() { keys.insert(vec![0xff]); }
                            }
                        }
                    }
                }
                writeln!(out, "{id} derive keys={n} distinct={} expected={n}", keys.len()).unwrap();
            }
            "unlock" => {
                use secrecy::SecretString;
                rt.block_on(async {
                    let p: SecretString = SecretString::new("own-password-123".to_string().into());
                    let q: AccessKey = SecretString::new("other-password-456".to_string().into()).into();
                    let vault = VaultBuilder::new().build(BuilderCredentials::Password(p.clone(), None)).await.unwrap();
                    let mut ap = sos_backend::AccessPoint::from_vault(vault.clone());
                    let own = ap.unlock(&p.clone().into()).await.is_ok();
                    let mut ap2 = sos_backend::AccessPoint::from_vault(vault);
                    let other = ap2.unlock(&q).await.is_ok();
                    // after the failed unlock a write must be refused (the folder is not unlocked)
                    let (meta, secret) = note("after-failed-unlock");
                    let row = SecretRow::new(uuid::Uuid::new_v4(), meta, secret);
                    let wrote = ap2.create_secret(&row).await.is_ok();
                    writeln!(out, "{id} unlock own={} other={} write_after_failed={}", if own { "ok" } else { "err" }, if other { "ok" } else { "err" },
                        if wrote { "ACCEPTED" } else { "refused" }).unwrap();
                });
            }
            "nonces" => {
                let cdb = kv(&toks, "cbe") == Some("db");
                let hist: Vec<String> = kv(&toks, "hist").unwrap_or("").split('|').filter(|s| !s.is_empty()).map(|s| s.to_string()).collect();
                rt.block_on(async {
                    let mut w = World::new(base.join(&id), cdb, false, 1, Gate::default()).await;
                    for op in &hist { let _ = w.step(op).await; }
                    let acct = w.devs[0].bridge.account.clone();
                    let account = acct.lock().await;
                    let mut all: Vec<(Vec<u8>, [u8; 32])> = vec![];
                    let mut push = |a: &AeadPack| all.push((a.nonce.as_ref().to_vec(), sos_core::commit::CommitTree::hash(&a.ciphertext)));
                    let mut logs = vec![];
                    if let Ok(l) = account.identity_log().await { logs.push(l); }
                    for s in account.list_folders().await.unwrap_or_default() {
                        if let Ok(l) = account.folder_log(s.id()).await { logs.push(l); }
                        if let Ok(f) = account.folder(s.id()).await {
                            let ap = f.access_point();
                            let ap = ap.lock().await;
                            for (_, c) in ap.vault().iter() { push(&c.1 .0); push(&c.1 .1); }
                            if let Some(m) = ap.vault().header().meta() { push(m); }
                        }
                    }
                    for l in logs {
                        let l = l.read().await;
                        let stream = l.event_stream(false).await;
                        pin_mut!(stream);
                        while let Some(Ok((_, ev))) = stream.next().await {
                            match ev {
                                WriteEvent::CreateSecret(_, c) | WriteEvent::UpdateSecret(_, c) => { push(&c.1 .0); push(&c.1 .1); }
                                WriteEvent::SetVaultMeta(a) => push(&a),
                                WriteEvent::CreateVault(buf) => {
                                    if let Ok(v) = sos_core::decode::<sos_vault::Vault>(&buf).await {
                                        if let Some(m) = v.header().meta() { push(m); }
                                        for (_, c) in v.iter() { push(&c.1 .0); push(&c.1 .1); }
                                    }
                                }
                                _ => {}
                            }
                        }
                    }
                    // the same AeadPack legitimately appears in the log and in the vault: count distinct
                    // (nonce) values against distinct (nonce, position) would need ciphertexts; here a nonce
                    // may appear at most twice per pack identity, so compare distinct nonces with distinct packs
                    // the same pack legitimately appears in the log and in the vault; a REUSE is one nonce
                    // with two different ciphertexts
                    let total = all.len();
                    let packs: HashSet<(Vec<u8>, [u8; 32])> = all.iter().cloned().collect();
                    let distinct: HashSet<Vec<u8>> = all.iter().map(|x| x.0.clone()).collect();
                    let n12 = distinct.iter().filter(|n| n.len() == 12).count();
                    let n24 = distinct.iter().filter(|n| n.len() == 24).count();
                    writeln!(out, "{id} nonces total={total} packs={} distinct_nonces={} reused={} n12={n12} n24={n24}", packs.len(), distinct.len(), packs.len() - distinct.len()).unwrap();
                    crate::acct::set_clock(0);
                });
                let _ = std::fs::remove_dir_all(base.join(&id));
            }
            _ => {}
        }
    }
}
