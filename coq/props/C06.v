(* C06 — persisted event logs are faithful: storage, tree and order agree.
   Model: model/EventLog.v (record level, both backends; the DB's shared table explicit).
   Inv l  :=  in-memory tree = commits of the stored records, in order. *)
From Coq Require Import List NArith Lia.
From SosModel Require Import model.Merkle model.EventLog proofs.Merkle_Lemmas proofs.EventLog_Lemmas.
From SosModel Require Import base.Bytes model.Formats model.Crash proofs.Formats_Lemmas proofs.Crash_Lemmas.
Import ListNotations.

Section C06.
Variable hash : Type.
Variable hash_eqb : hash -> hash -> bool.
Hypothesis hash_eqb_spec : forall a b, hash_eqb a b = true <-> a = b.
Variable H2 : hash -> hash -> hash.
Variables tm dat : Type.
Notation elog := (@elog hash tm dat).
Notation Inv := (Inv hash tm dat).
Notation log_apply := (log_apply hash tm dat).
Notation log_reopen := (log_reopen hash tm dat).
Notation log_rewind := (log_rewind hash hash_eqb tm dat).

(* re-opening the log from storage yields exactly the in-memory tree, in every state
   reachable by the operations below (each preserves Inv) *)
Theorem C06_reload_tree l : Inv l -> log_reopen l = l.
Proof. exact (reopen_same hash tm dat l). Qed.
Theorem C06_inv_empty : Inv (empty_log hash tm dat).
Proof. exact (inv_empty hash tm dat). Qed.
Theorem C06_inv_apply l rs : Inv l -> Inv (log_apply l rs).
Proof. exact (apply_inv hash tm dat l rs). Qed.
Theorem C06_inv_reopen l : Inv (log_reopen l).
Proof. exact (reopen_inv hash tm dat l). Qed.
Theorem C06_inv_patch_checked l p rs l' : Inv l ->
  log_patch_checked hash hash_eqb H2 tm dat l p rs = PcSuccess l' -> Inv l'.
Proof. exact (patch_checked_inv hash hash_eqb H2 tm dat l p rs l'). Qed.
Theorem C06_replace_all l ckpt rs l' :
  log_replace_all hash hash_eqb H2 tm dat l ckpt rs = RaOk l' -> l_recs l' = rs /\ Inv l' /\ rs <> [].
Proof. exact (replace_all_ok hash hash_eqb H2 tm dat l ckpt rs l'). Qed.

(* records come back in append order with their original timestamps: appending extends the
   stored list by exactly the given records *)
Theorem C06_append_order l rs : l_recs (log_apply l rs) = l_recs l ++ rs.
Proof. exact (apply_recs hash tm dat l rs). Qed.

(* rewind keeps exactly the prefix ending at the LAST occurrence of the target commit and
   returns the removed suffix in append order; the invariant is preserved *)
Theorem C06_rewind l c l' removed : Inv l -> log_rewind l c = RwOk l' removed ->
  l_recs l = l_recs l' ++ removed /\ Inv l' /\
  (exists r, last (l_recs l') r = r /\ In r (l_recs l') /\ er_commit r = c) /\
  Forall (fun x => er_commit x <> c) removed.
Proof. exact (rewind_ok hash hash_eqb hash_eqb_spec H2 tm dat l c l' removed). Qed.

(* every stored commit is the hash of its bytes, provided the records handed in are
   (the log does not re-hash: see known finding C06-forged-commit-stored) *)
Theorem C06_commit_is_hash (Hd : dat -> hash) l rs :
  HashOk hash tm dat Hd l -> Forall (fun r => er_commit r = Hd (er_data r)) rs ->
  HashOk hash tm dat Hd (log_apply l rs).
Proof. exact (apply_hashok hash tm dat Hd l rs). Qed.
Theorem C06_commit_is_hash_rewind (Hd : dat -> hash) l c l' removed :
  Inv l -> HashOk hash tm dat Hd l -> log_rewind l c = RwOk l' removed -> HashOk hash tm dat Hd l'.
Proof. exact (rewind_hashok hash hash_eqb hash_eqb_spec H2 tm dat Hd l c l' removed). Qed.

(* the database backend: all logs of a kind share one table; an operation on one log never
   changes what another log reads back (isolation), and what it reads back itself is the
   per-log list the abstract operations describe *)
Variable owner : Type.
Variable owner_eqb : owner -> owner -> bool.
Hypothesis owner_eqb_spec : forall a b, owner_eqb a b = true <-> a = b.
Notation sel := (tb_select hash tm dat owner owner_eqb).

Theorem C06_db_insert_refines t o rs : sel (tb_insert hash tm dat owner t o rs) o = sel t o ++ rs.
Proof. exact (select_insert_same hash tm dat owner owner_eqb owner_eqb_spec t o rs). Qed.
Theorem C06_db_rewind_refines t o n :
  sel (tb_delete_last hash tm dat owner owner_eqb t o n) o = firstn (length (sel t o) - n) (sel t o).
Proof. exact (select_delete_last_same hash tm dat owner owner_eqb t o n). Qed.
Theorem C06_db_clear_refines t o : sel (tb_delete_all hash tm dat owner owner_eqb t o) o = [].
Proof. exact (select_delete_all_same hash tm dat owner owner_eqb t o). Qed.
Theorem C06_isolation_insert t o o' rs : o <> o' -> sel (tb_insert hash tm dat owner t o rs) o' = sel t o'.
Proof. exact (select_insert_other hash tm dat owner owner_eqb owner_eqb_spec t o o' rs). Qed.
Theorem C06_isolation_rewind t o o' n : o <> o' ->
  sel (tb_delete_last hash tm dat owner owner_eqb t o n) o' = sel t o'.
Proof. exact (select_delete_last_other hash tm dat owner owner_eqb owner_eqb_spec t o o' n). Qed.
Theorem C06_isolation_clear t o o' : o <> o' ->
  sel (tb_delete_all hash tm dat owner owner_eqb t o) o' = sel t o'.
Proof. exact (select_delete_all_other hash tm dat owner owner_eqb owner_eqb_spec t o o' ). Qed.
End C06.

(* non-vacuity: a concrete rewind *)
Example C06_nonvacuous_rewind :
  log_rewind nat Nat.eqb nat nat
    (mkElog [mkErec 1 10 0; mkErec 2 20 0; mkErec 3 10 0; mkErec 4 30 0] [10; 20; 10; 30]) 10
  = RwOk (mkElog [mkErec 1 10 0; mkErec 2 20 0; mkErec 3 10 0] [10; 20; 10]) [mkErec 4 30 0].
Proof. reflexivity. Qed.

(* byte level, file-system backend: on a file that is header ++ whole well-formed records the
   forward iteration (load_tree, streams) yields the commits in append order and the reverse
   iteration (rewind, reverse streams) yields exactly their mirror *)
Theorem C06_file_reverse_mirrors_forward ident ver rs : length ident = 4 -> Forall wf_record rs ->
  let pre := ident ++ ver in
  open_log ident (lenb pre) (pre ++ flat rs) = Some (map r_commit rs) /\
  open_log_rev (lenb pre) (pre ++ flat rs) = Some (rev (map r_commit rs)).
Proof. exact (file_reverse_mirrors_forward ident ver rs). Qed.

Print Assumptions C06_reload_tree.
Print Assumptions C06_inv_empty.
Print Assumptions C06_inv_apply.
Print Assumptions C06_inv_reopen.
Print Assumptions C06_inv_patch_checked.
Print Assumptions C06_replace_all.
Print Assumptions C06_append_order.
Print Assumptions C06_rewind.
Print Assumptions C06_commit_is_hash.
Print Assumptions C06_commit_is_hash_rewind.
Print Assumptions C06_db_insert_refines.
Print Assumptions C06_db_rewind_refines.
Print Assumptions C06_db_clear_refines.
Print Assumptions C06_isolation_insert.
Print Assumptions C06_isolation_rewind.
Print Assumptions C06_isolation_clear.
Print Assumptions C06_file_reverse_mirrors_forward.
