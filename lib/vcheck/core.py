"""Shared machinery for /verif/bin/check: builds (Coq, driver, harness), correspondence run,
oracle classification against known_findings.json, evidence and outcome logic."""
import json, os, re, shutil, subprocess, sys, time, random, hashlib

VERIF = os.path.dirname(os.path.dirname(os.path.dirname(os.path.abspath(__file__))))
COQ = os.path.join(VERIF, "coq")
DRIVER = os.path.join(VERIF, "driver")
HARNESS = os.path.join(VERIF, "harness")
WORK = os.path.join(VERIF, ".work")
REPO = "/repo"
ENV = dict(os.environ, CARGO_NET_OFFLINE="true", RUSTFLAGS="--cfg sos_verif",
           CARGO_TERM_COLOR="never")

FORBIDDEN = re.compile(
    r"\b(Admitted|admit|Axiom|Axioms|Parameter|Parameters|Conjecture|Conjectures)\b|"
    r"Unset\s+Guard|Unset\s+Positivity|Unset\s+Universe|bypass_check|type-in-type|"
    r"impredicative-set|Admit\s+Obligations")


def sh(cmd, cwd=None, timeout=None, env=None, stdin=None, drop_stderr=False):
    """run a command, return (rc, stdout+stderr); rc=124 on timeout"""
    try:
        p = subprocess.run(cmd, cwd=cwd, env=env or ENV, timeout=timeout, shell=isinstance(cmd, str),
                           stdout=subprocess.PIPE, stderr=subprocess.DEVNULL if drop_stderr else subprocess.STDOUT, input=stdin)
        return p.returncode, p.stdout.decode("utf-8", "replace")
    except subprocess.TimeoutExpired as e:
        out = (e.stdout or b"").decode("utf-8", "replace")
        return 124, out + "\n[timeout after %ss]" % timeout


def strip_comments(text):
    out, depth, i = [], 0, 0
    while i < len(text):
        if text.startswith("(*", i):
            depth += 1; i += 2
        elif text.startswith("*)", i) and depth > 0:
            depth -= 1; i += 2
        else:
            if depth == 0:
                out.append(text[i])
            i += 1
    return "".join(out)


def coq_sources():
    res = []
    for line in open(os.path.join(COQ, "_CoqProject")):
        line = line.strip()
        if line.endswith(".v"):
            res.append(line)
    return res


def hygiene():
    """no Admitted/admit/Axiom/Parameter/..., no Variable/Hypothesis outside a section,
    no disabled kernel checks, anywhere in the development"""
    problems = []
    for rel in coq_sources():
        path = os.path.join(COQ, rel)
        text = strip_comments(open(path).read())
        for m in FORBIDDEN.finditer(text):
            problems.append("%s: forbidden token %r" % (rel, m.group(0)))
        depth = 0
        for ln in text.splitlines():
            s = ln.strip()
            if re.match(r"^Section\b", s): depth += 1
            elif re.match(r"^End\b", s) and depth > 0: depth -= 1
            elif depth == 0 and re.match(r"^(Variable|Variables|Hypothesis|Hypotheses|Context)\b", s):
                problems.append("%s: %s outside a section" % (rel, s.split()[0]))
    mk = open(os.path.join(COQ, "_CoqProject")).read()
    if re.search(r"type-in-type|impredicative-set|-vos|-vok", mk):
        problems.append("_CoqProject: forbidden flag")
    return problems


def parse_assumptions(out):
    """split coqc output into one verdict per Print Assumptions"""
    verdicts, cur = [], None
    for ln in out.splitlines():
        if ln.startswith("Closed under the global context"):
            if cur is not None: verdicts.append(cur)
            verdicts.append([]); cur = None
        elif ln.startswith("Axioms:"):
            if cur is not None: verdicts.append(cur)
            cur = []
        elif cur is not None:
            m = re.match(r"^([A-Za-z_][\w.']*)\s*:", ln)
            if m: cur.append(m.group(1))
            elif not ln.startswith(" ") and ln.strip() and not ln.startswith("COQ"):
                verdicts.append(cur); cur = None
    if cur is not None: verdicts.append(cur)
    return verdicts


def theorem_names(prop_file):
    text = strip_comments(open(prop_file).read())
    thms = re.findall(r"^\s*(?:Theorem|Lemma|Corollary)\s+([\w']+)", text, re.M)
    printed = re.findall(r"^\s*Print Assumptions\s+([\w']+)\s*\.", text, re.M)
    return thms, printed


def build_coq(prop_id, extra_targets=(), timeout=900):
    """(re)compile the property file and the extraction; returns dict"""
    res = {"ok": False, "log": "", "obligations": 0, "discharged": 0, "axioms": {}, "problems": []}
    res["problems"] = hygiene()
    if not os.path.exists(os.path.join(COQ, "Makefile")):
        sh("coq_makefile -f _CoqProject -o Makefile", cwd=COQ, timeout=60)
    propv = os.path.join(COQ, "props", prop_id + ".v")
    vo = propv + "o"
    if os.path.exists(vo): os.remove(vo)
    targets = ["props/%s.vo" % prop_id, "extract/Extract.vo"] + list(extra_targets)
    rc, out = sh(["make", "-j16"] + targets, cwd=COQ, timeout=timeout)
    res["log"] = out
    thms, printed = theorem_names(propv)
    res["obligations"] = len(thms)
    missing = [t for t in thms if t not in printed]
    if missing:
        res["problems"].append("no Print Assumptions for: " + ", ".join(missing))
    if rc != 0:
        res["problems"].append("coq build failed (rc=%d): %s" % (rc, out.strip().splitlines()[-12:]))
        return res
    verdicts = parse_assumptions(out)
    if len(verdicts) != len(printed):
        res["problems"].append("expected %d Print Assumptions verdicts, saw %d" % (len(printed), len(verdicts)))
        return res
    for name, ax in zip(printed, verdicts):
        res["axioms"][name] = ax
    res["discharged"] = sum(1 for t in thms if t in res["axioms"])
    res["ok"] = not res["problems"]
    return res


def run_coqchk(prop_id, timeout=900):
    """independent re-check of the compiled property file and everything it depends on (thorough tier);
    returns (ok, axioms reported, tail of the output)"""
    rc, out = sh(["coqchk", "-silent", "-o", "-Q", ".", "SosModel", "SosModel.props.%s" % prop_id], cwd=COQ, timeout=timeout)
    axioms = []
    m = re.search(r"\* Axioms:(.*?)\n\s*\n\* ", out, re.S)
    if m:
        body = m.group(1).strip()
        if body and body != "<none>":
            axioms = [x.strip() for x in body.splitlines() if x.strip() and x.strip() != "<none>"]
    bad = []
    for key in ("type-in-type", "unsafe (co)fixpoints", "positivity is assumed"):
        mm = re.search(re.escape(key) + r":(.*?)\n\s*\n", out + "\n\n", re.S)
        if mm and mm.group(1).strip() not in ("", "<none>"):
            bad.append("%s: %s" % (key, mm.group(1).strip()[:200]))
    return rc == 0 and not bad, axioms, bad, out[-600:]


def build_driver():
    rc, out = sh(["sh", os.path.join(DRIVER, "build.sh")], cwd=DRIVER, timeout=600)
    return rc == 0, out


def build_harness(timeout=3000):
    # cargo prunes the lock file to what the harness uses; always start from the repository's
    # lock so that newly needed crates resolve offline to the pinned versions
    shutil.copy(os.path.join(REPO, "Cargo.lock"), os.path.join(HARNESS, "Cargo.lock"))
    rc, out = sh(["cargo", "build", "--offline"], cwd=HARNESS, timeout=timeout)
    return rc == 0, out


def harness_bin():
    return os.path.join(HARNESS, "target", "debug", "sos-verif-harness")


def run_impl(sub, cases_path, timeout=1800, extra_env=None):
    env = dict(ENV)
    if extra_env: env.update(extra_env)
    return sh([harness_bin(), sub, cases_path], cwd=os.path.dirname(cases_path), timeout=timeout, env=env,
              drop_stderr=True)


def run_impl_resilient(sub, cases, wd, timeout=1800, chunk=40):
    """for harness subcommands that print '<id> !begin' before each case: when the process dies
    (abort on allocation failure, stack overflow, kill) the case in flight is recorded as
    '<id> abort' and the run resumes after it.  The cases go to the harness [chunk] at a time, one
    process per chunk, so that the per-process timeout bounds a few cases (a case that does not end)
    and not a whole thorough run"""
    if len(cases) > chunk:
        outs = []
        for i in range(0, len(cases), chunk):
            _, o = run_impl_resilient(sub, cases[i:i + chunk], wd, timeout=timeout, chunk=chunk)
            outs.append(o if o.endswith("\n") or not o else o + "\n")
        return 0, "".join(outs)
    out_all, rest, rounds = [], list(cases), 0
    while rest and rounds < 50:
        rounds += 1
        p = os.path.join(wd, "cases_part%d.txt" % rounds)
        with open(p, "w") as f: f.write("\n".join(rest) + "\n")
        rc, out = run_impl(sub, p, timeout=timeout)
        out_all.append(out)
        if rc == 0: break
        begun, done = None, set()
        for ln in out.splitlines():
            cid, _, r = ln.partition(" ")
            if r == "!begin": begun = cid
            elif not r.startswith("!"): done.add(cid)
        if begun is None or begun in done:
            out_all.append("<harness> !crash rc=%d\n" % rc); break
        out_all.append("%s abort\n%s !abort rc=%d\n" % (begun, begun, rc))
        ids = [c.split()[1] for c in rest]
        rest = rest[ids.index(begun) + 1:]
    return 0, "".join(out_all)


def run_model(sub, cases_path, timeout=1800):
    return sh([os.path.join(DRIVER, "driver"), sub, cases_path], cwd=os.path.dirname(cases_path), timeout=timeout)


def group_by_case(text):
    """observation lines '<case> <rest>' -> {case: [rest,...]} preserving order"""
    d = {}
    for ln in text.splitlines():
        if not ln.strip(): continue
        cid, _, rest = ln.partition(" ")
        d.setdefault(cid, []).append(rest)
    return d


def known_findings(prop_id):
    path = os.path.join(VERIF, "known_findings.json")
    if not os.path.exists(path): return []
    return [f for f in json.load(open(path))["findings"] if f["property"] == prop_id]


def match_finding(failure, findings):
    """failure: dict with at least 'oracle'. A finding matches when status is open and every
    key of its matcher equals the failure's field."""
    for f in findings:
        if f.get("status") != "open": continue
        # "matcher": one dict; "matchers": any of several; a list value = any of its members
        for m in (f.get("matchers") or [f["matcher"]]):
            if all((str(failure.get(k)) in [str(x) for x in v]) if isinstance(v, list) else (str(failure.get(k)) == str(v))
                   for k, v in m.items()):
                return f
    return None


def workdir(prop_id):
    d = os.path.join(WORK, prop_id)
    shutil.rmtree(d, ignore_errors=True)
    os.makedirs(d)
    return d


def write_evidence(prop_id, ev):
    os.makedirs(os.path.join(VERIF, "evidence"), exist_ok=True)
    path = os.path.join(VERIF, "evidence", prop_id + ".json")
    with open(path, "w") as f:
        json.dump(ev, f, indent=1, sort_keys=True)
    return path


def write_replay(prop_id, seed, content):
    d = os.path.join(VERIF, "replays")
    os.makedirs(d, exist_ok=True)
    path = os.path.join(d, "%s-%s.txt" % (prop_id, seed))
    with open(path, "w") as f:
        f.write(content)
    return path


class Run:
    """One run of one property at one tier."""

    def __init__(self, mod, tier, seed, replay=None):
        self.mod, self.tier, self.seed, self.replay = mod, tier, seed, replay
        self.id = mod.ID
        self.t0 = time.time()
        self.notes = []

    def main(self):
        mod, pid = self.mod, self.id
        wd = workdir(pid)
        # a replay left by an earlier run of this (property, seed) would be misleading next to a pass
        try:
            os.remove(os.path.join(VERIF, "replays", "%s-%s.txt" % (pid, self.seed)))
        except OSError:
            pass
        rng = random.Random("%s:%s" % (pid, self.seed))
        facts = None
        if hasattr(mod, "prepare"):
            facts = mod.prepare(self)
        coq = build_coq(pid, getattr(mod, "COQ_EXTRA_TARGETS", ()))
        allowed = set(getattr(mod, "ALLOWED_AXIOMS", ()))
        for thm, ax in coq["axioms"].items():
            bad = [a for a in ax if a not in allowed]
            if bad:
                coq["problems"].append("%s depends on axioms not allow-listed: %s" % (thm, bad))
                coq["ok"] = False
        if self.tier == "thorough" and coq["ok"]:
            ck_ok, ck_axioms, ck_bad, ck_tail = run_coqchk(pid)
            coq["coqchk"] = {"ok": ck_ok, "axioms": ck_axioms, "relaxed_checks": ck_bad}
            not_allowed = [a for a in ck_axioms if a not in allowed]
            if not ck_ok or not_allowed:
                coq["problems"].append("coqchk: %s %s %s" % ("failed" if not ck_ok else "", not_allowed, ck_tail[-200:] if not ck_ok else ""))
                coq["ok"] = False
        model_ok = coq["ok"]
        drv_ok, drv_log = (False, "coq build failed")
        if os.path.exists(os.path.join(DRIVER, "model.ml")):
            drv_ok, drv_log = build_driver()
        h_ok, h_log = build_harness()
        if not h_ok:
            # the implementation does not build: nothing can be decided
            path = write_replay(pid, self.seed, "harness build failed against /repo:\n" + h_log[-4000:])
            self.finish(coq, {}, [], [], 0, 0, [{"oracle": "build", "detail": "harness build failed"}], path, nofail=True)
            return 1
        # cases
        if self.replay:
            cases = [l.strip() for l in open(self.replay) if l.strip().startswith(mod.SUB + " ")]
        else:
            cases = list(mod.corpus()) + list(mod.gen_cases(rng, self.tier))
        cases_path = os.path.join(wd, "cases.txt")
        with open(cases_path, "w") as f:
            f.write("\n".join(cases) + "\n")
        if getattr(mod, "RESILIENT", False):
            rc_i, out_i = run_impl_resilient(mod.SUB, cases, wd, timeout=getattr(mod, "IMPL_TIMEOUT", 1800), chunk=getattr(mod, "IMPL_CHUNK", 40))
        else:
            rc_i, out_i = run_impl(mod.SUB, cases_path, timeout=getattr(mod, "IMPL_TIMEOUT", 1800))
        with open(os.path.join(wd, "impl.txt"), "w") as f: f.write(out_i)
        impl = group_by_case(out_i)
        case_by_id = {c.split()[1]: c for c in cases}
        disagreements = []
        model = {}
        if drv_ok:
            model_cases = cases_path
            if hasattr(mod, "model_input"):
                # the model consumes (part of) the implementation's trace: edits as observed
                model_cases = os.path.join(wd, "model_cases.txt")
                with open(model_cases, "w") as f:
                    f.write("\n".join(mod.model_input(cases, impl)) + "\n")
            rc_m, out_m = run_model(mod.SUB, model_cases)
            with open(os.path.join(wd, "model.txt"), "w") as f: f.write(out_m)
            model = group_by_case(out_m)
            for cid in case_by_id:
                a, b = model.get(cid, []), [x for x in impl.get(cid, []) if not x.startswith("!")]
                if hasattr(mod, "impl_projection"):
                    if getattr(mod, "PROJECTION_TAKES_CASE", False):
                        b = mod.impl_projection(impl.get(cid, []), case_by_id[cid])
                    else:
                        b = mod.impl_projection(impl.get(cid, []))
                if a == ["unmodelled"]:
                    self.unmodelled = getattr(self, "unmodelled", 0) + 1
                    continue
                if hasattr(mod, "canon"):
                    a, b = mod.canon(a), mod.canon(b)
                if a != b:
                    first = next((i for i in range(max(len(a), len(b)))
                                  if i >= len(a) or i >= len(b) or a[i] != b[i]), 0)
                    disagreements.append({"case": case_by_id[cid],
                                          "model": a[first] if first < len(a) else "<missing>",
                                          "impl": b[first] if first < len(b) else "<missing>"})
        if rc_i != 0:
            disagreements.append({"case": "<harness>", "model": "-", "impl": "harness exit %d: %s" % (rc_i, out_i[-500:])})
        # oracle on the implementation's observations
        failures = []
        nontrivial = set()
        for cid, case in case_by_id.items():
            obs = impl.get(cid, [])
            if mod.nontrivial(case, obs): nontrivial.add(mod.distinct_key(case))
            for f in mod.oracle(case, obs):
                f["case"] = case
                failures.append(f)
        findings = known_findings(pid)
        known, unknown = [], []
        for f in failures:
            k = match_finding(f, findings)
            (known if k else unknown).append((f, k))
        reported = set()
        for f, k in known:
            if k["id"] not in reported:
                reported.add(k["id"])
                print("KNOWN-FINDING: property=%s %s [%s] e.g. %s" % (pid, k["class"], k["id"], f["case"]))
        # regression of fixed findings is just an unknown failure (nothing suppressed)
        rc = 0
        replay_path = None
        if unknown:
            f = unknown[0][0]
            case = f["case"]
            if hasattr(mod, "shrink"):
                try:
                    case = self.shrink(case, f, wd)
                except Exception as e:      # a failing minimiser must never hide the violation
                    self.notes.append("shrink failed: %r" % (e,))
            content = "# property %s seed %s tier %s\n# oracle failed: %s\n# %s\n%s\n" % (
                pid, self.seed, self.tier, f.get("oracle"), f.get("detail", ""), case)
            replay_path = write_replay(pid, self.seed, content)
            print("VIOLATION property=%s replay=%s" % (pid, replay_path))
            rc = 1
        elif not model_ok or not drv_ok or disagreements:
            lines = ["# property %s seed %s tier %s" % (pid, self.seed, self.tier)]
            if not model_ok:
                lines.append("# proof obligations no longer check:")
                lines += ["#   " + p for p in coq["problems"]]
            if not drv_ok:
                lines.append("# extracted model driver failed to build: " + drv_log[-800:].replace("\n", "\n#   "))
            for d in disagreements[:20]:
                lines.append("# correspondence differs: model=%s impl=%s" % (d["model"], d["impl"]))
                lines.append(d["case"])
            replay_path = write_replay(pid, self.seed, "\n".join(lines) + "\n")
            print("VIOLATION property=%s replay=%s no-failing-input-found" % (pid, replay_path))
            rc = 1
        self.finish(coq, case_by_id, cases, disagreements, len(nontrivial), len(known),
                    [u[0] for u in unknown], replay_path, facts=facts, impl=impl)
        return rc

    def shrink(self, case, failure, wd):
        mod = self.mod
        cur = case
        for _ in range(200):
            progressed = False
            for cand in mod.shrink(cur):
                p = os.path.join(wd, "shrink.txt")
                open(p, "w").write(cand + "\n")
                rc, out = run_impl(mod.SUB, p, timeout=300)
                obs = group_by_case(out).get(cand.split()[1], [])
                fs = [f for f in mod.oracle(cand, obs) if f.get("oracle") == failure.get("oracle")]
                fs = [f for f in fs if not match_finding(f, known_findings(self.id))]
                if fs:
                    cur = cand; progressed = True
                    break
            if not progressed: break
        return cur

    def finish(self, coq, case_by_id, cases, disagreements, n_nontrivial, n_known, unknown,
               replay_path, nofail=False, facts=None, impl=None):
        mod = self.mod
        if nofail:
            print("VIOLATION property=%s replay=%s no-failing-input-found" % (self.id, replay_path))
        cov = {
            "obligations": coq["obligations"], "discharged": coq["discharged"] if coq["ok"] else min(coq["discharged"], max(coq["obligations"] - 1, 0)),
            "checker_cmd": "make -C /verif/coq props/%s.vo (coqc 8.16.1, full .vo build, Print Assumptions per theorem)" % self.id,
            "trusted_base": list(getattr(mod, "TRUSTED_BASE", [])) + COMMON_TRUSTED,
            "axioms_per_theorem": {k: (v or "Closed under the global context") for k, v in coq["axioms"].items()},
            "coq_problems": coq["problems"],
            "coqchk": coq.get("coqchk", "not run in the quick tier (thorough: coqchk -o on the property's closure)"),
            "evaluations": len(cases),
            "distinct_nontrivial": n_nontrivial,
            "rule": getattr(mod, "RULE", ""),
            "samples": cases[:3] + cases[-2:] if cases else [],
            "correspondence": {"cases_compared": len(case_by_id) - getattr(self, "unmodelled", 0),
                               "cases_explored_not_modelled": getattr(self, "unmodelled", 0),
                               "disagreements": len(disagreements),
                               "first_disagreements": disagreements[:3]},
            "known_finding_hits": n_known,
            "unknown_failures": [{k: v for k, v in f.items()} for f in unknown[:5]],
        }
        if hasattr(mod, "distribution") and cases:
            cov["distribution"] = mod.distribution(cases, impl or {})
        if facts is not None: cov["generated_facts"] = facts
        ev = {"property_id": self.id, "tier": self.tier, "seed": int(self.seed), "level": mod.LEVEL,
              "coverage": cov, "assumptions": list(getattr(mod, "ASSUMPTIONS", [])),
              "wall_s": round(time.time() - self.t0, 2), "violations": len(unknown) + (1 if (disagreements or not coq["ok"]) and not unknown else 0)}
        if replay_path: ev["coverage"]["replay"] = replay_path
        write_evidence(self.id, ev)


COMMON_TRUSTED = [
    "Coq 8.16.1 kernel (coqc; vm_compute used in *_refuted / *_nonvacuous witnesses; native_compute not used)",
    "extraction with ExtrOcamlBasic only (Extract Inductive for bool, option, unit, list, prod, sumbool, sumor); no Extract Constant; N/positive/nat stay Coq datatypes",
    "OCaml driver glue (/verif/driver/glue.ml, cNN.ml: parsing, printing, memoisation of the extracted SHA-256)",
    "Rust harness printers (/verif/harness/src), python generators/oracles (/verif/lib/vcheck)",
    "the correspondence is differential testing: agreement is only as good as the generated cases (distribution in this file)",
]
