//! Shared helpers: deterministic PRNG, case-line parsing, panic capture.
use std::panic::{catch_unwind, AssertUnwindSafe};

pub struct Rng(pub u64);
impl Rng {
    pub fn new(seed: u64) -> Self {
        Rng(seed.wrapping_mul(0x9E3779B97F4A7C15) ^ 0xD1B54A32D192ED03)
    }
    pub fn next(&mut self) -> u64 {
        // splitmix64
        self.0 = self.0.wrapping_add(0x9E3779B97F4A7C15);
        let mut z = self.0;
        z = (z ^ (z >> 30)).wrapping_mul(0xBF58476D1CE4E5B9);
        z = (z ^ (z >> 27)).wrapping_mul(0x94D049BB133111EB);
        z ^ (z >> 31)
    }
    pub fn below(&mut self, n: u64) -> u64 {
        if n == 0 { 0 } else { self.next() % n }
    }
    pub fn bytes(&mut self, n: usize) -> Vec<u8> {
        (0..n).map(|_| self.next() as u8).collect()
    }
    pub fn pick<'a, T>(&mut self, xs: &'a [T]) -> &'a T {
        &xs[self.below(xs.len() as u64) as usize]
    }
}

pub fn kv<'a>(toks: &[&'a str], key: &str) -> Option<&'a str> {
    for t in toks {
        if let Some(rest) = t.strip_prefix(key) {
            if let Some(v) = rest.strip_prefix('=') {
                return Some(v);
            }
        }
    }
    None
}

pub fn rt() -> tokio::runtime::Runtime {
    tokio::runtime::Builder::new_current_thread().enable_all().build().unwrap()
}

/// run f, mapping a panic to Err(message)
pub fn guarded<T>(f: impl FnOnce() -> T) -> Result<T, String> {
    match catch_unwind(AssertUnwindSafe(f)) {
        Ok(v) => Ok(v),
        Err(e) => {
            let msg = if let Some(s) = e.downcast_ref::<&str>() {
                s.to_string()
            } else if let Some(s) = e.downcast_ref::<String>() {
                s.clone()
            } else {
                "panic".to_string()
            };
            Err(msg.replace(['\n', ' '], "_"))
        }
    }
}

/// panics raised since the process started, on any thread: a panic inside `spawn_blocking` is caught by the
/// runtime and surfaces as an error, this counter still sees it
pub static PANICS: std::sync::atomic::AtomicUsize = std::sync::atomic::AtomicUsize::new(0);
pub static LAST_PANIC: std::sync::Mutex<String> = std::sync::Mutex::new(String::new());

pub fn quiet_panics() {
    std::panic::set_hook(Box::new(|info| {
        PANICS.fetch_add(1, std::sync::atomic::Ordering::SeqCst);
        if let Ok(mut g) = LAST_PANIC.lock() {
            *g = info.location().map(|l| format!("{}:{}", l.file().rsplit("crates/").next().unwrap_or(l.file()), l.line())).unwrap_or_default();
        }
    }));
}
