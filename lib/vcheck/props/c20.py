"""C20 — the search index always matches what the folders contain.
Same real-account histories as C02/C04; after every step the index documents and counters of
every device are compared with the folders it serves (direct oracle) and with the extracted
Search model replaying the decrypted event traces (correspondence)."""
from vcheck import acct
from vcheck.props import c02

ID = "C20"
SUB = "c20"
LEVEL = "proof"
RESILIENT = True
IMPL_TIMEOUT = 3000
RULE = ("histories as in C02 (local edits, moves, folder create/delete, merges creating/updating/deleting the same "
        "ids on two devices); non-trivial = a merge touched an id the local side also touched, or a delete/update of a "
        "secret arrived for an id the local index did not hold; distinct by history")
TRUSTED_BASE = ["model/Search.v transcribes SearchIndex::{prepare,commit,remove,update} and DocumentCount::{add,remove} "
                "(documents + counters); the probly-search inverted index is not modelled",
                "the model run replays the decrypted folder event traces observed on the implementation"]
ASSUMPTIONS = ["only per-folder and per-kind counters and the document table are compared; query results over the inverted "
               "index are outside the model (partial)"]


def corpus():
    return [
        "c20 k_del_upd cbe=fs sbe=fs devs=2 hist=s0|c0:a|s0|s1|t:100|x0:a|t:200|u1:a|s0|s1|s0|s1|s0|s1",
        "c20 k_both_delete cbe=fs sbe=fs devs=2 hist=s0|c0:a|c0:b|s0|s1|t:100|x0:a|t:200|x1:a|s0|s1|s0|s1|s0|s1",
        "c20 k_move cbe=fs sbe=fs devs=2 hist=s0|s1|f0:1|c0:a|m0:a:1|s0|s1|u1:a|s1|s0|s1|s0",
        "c20 k_archive_fav cbe=fs sbe=fs devs=2 hist=s0|c0:a|c0:c|s0|s1|a0:a|s0|s1|A1:a|x0:c|s0|s1|s0|o1|s1",
        "c20 k_import_copy cbe=fs sbe=fs devs=2 hist=c0:a|c0:b|i0:0|u0:a|x0:b|o0|u0:a|s0|s1",
        "c20 k_archive_del cbe=fs sbe=fs devs=2 hist=s0|c0:a|c0:c|c0:b|a0:c|a0:a|s0|s1|x1:c|u1:a|s1|s0|o0|s0",
        # forced overwrite (what a hard conflict does): the folder is replaced wholesale, grows / shrinks
        "c20 k_force_grow cbe=fs sbe=fs devs=2 hist=c0:a|c0:b|c1:c|h1:0:0|u1:a|o1",
        "c20 k_force_grow_db cbe=db sbe=fs devs=2 hist=c0:a|c0:b|c1:c|h1:0:0|u1:a|o1",
        # a folder forgotten (dropped from memory only) is no longer an indexed folder
        "c20 k_forget cbe=fs sbe=fs devs=2 hist=f0:1|c0:a@1|c0:b|R0:1|u0:b|o0",
        "c20 k_forget_db cbe=db sbe=fs devs=2 hist=f0:1|c0:a@1|c0:b|R0:1|u0:b",
        "c20 k_force_shrink cbe=fs sbe=fs devs=2 hist=c1:a|c1:b|c1:c|c0:b|h1:0:0|o1",
    ]


def gen_cases(rng, tier):
    n = 40 if tier == "quick" else 1500
    out = []
    for j in range(n):
        h = acct.gen_history(rng, 2, rng.randrange(6, 16), with_folders=(j % 2 == 0))
        # archive / unarchive / reload ops sprinkled before the quiescent rounds (favourites and tags live on
        # slots a, b, c; the archive folder is left out of the per-kind counters)
        body = len(h) - 2 * acct.ROUNDS
        for _ in range(rng.randrange(0, 4)):
            d = rng.randrange(2)
            r = rng.random()
            op = (rng.choice(["a%d:%s", "a%d:%s", "A%d:%s"]) % (d, rng.choice("abc")) if r < 0.6 else
                  "h%d:0:%d" % (d, 1 - d) if r < 0.75 else "i%d:0" % d if r < 0.85 else
                  "R%d:%d" % (d, rng.choice([1, 1, 2])) if r < 0.9 and j % 2 == 0 else "o%d" % d)
            h.insert(rng.randrange(2, max(3, body)), op)
        be = "db" if j % 4 == 1 else "fs"
        if be == "db":
            # importing a copy of a folder on the database backend re-parents the original's rows (C02 finding
            # C02-db-import-copy-reparents-secrets): the folder then differs from its log, outside C20's subject
            h = [x for x in h if not x.startswith("i")]
        out.append("c20 g%d cbe=%s sbe=fs devs=2 hist=%s" % (j, be, "|".join(h)))
    return out


def model_input(cases, impl):
    out = []
    for c in cases:
        cid = c.split()[1]
        per = {}
        for o in impl.get(cid, []):
            t = o.split()
            if len(t) >= 4 and t[0].startswith("!") and t[2] == "events":
                per.setdefault((int(t[0][1:]), t[1]), []).append("%s=%s" % (t[3], t[4] if len(t) > 4 else ""))
        # whole-folder steps: the model applies ix_force / ix_forget to the previous step's index of that device
        steps, _ = acct.parse(impl.get(cid, []))
        for (st, who), fl in sorted(per.items()):
            op = (steps.get(st, {}).get("op") or "")
            mark = ""
            if who == "D" + op[1:2]:
                if op[:1] == "h" and steps[st].get("res") == "ok": mark = " @force=f0"
                if op[:1] == "R": mark = " @forget"
            out.append("%s %s %d %s %s%s" % (SUB, cid, st, who, " ".join(fl), mark))
        if not per:
            out.append("%s %s" % (SUB, cid))
    return out


def impl_projection(obs):
    out = []
    for o in obs:
        t = o.split()
        if len(t) >= 4 and t[2] == "index":
            kv = dict(x.split("=", 1) for x in t[3:] if "=" in x)
            nz = lambda s: ";".join(sorted(v for v in s.split(";") if v and not v.endswith(":0")))
            out.append("%s %s index docs=%s vaults=%s kinds=%s favs=%s tags=%s" % (
                t[0], t[1], kv.get("docs", ""), nz(kv.get("vaults", "")), nz(kv.get("kinds", "")),
                kv.get("favs", "0"), nz(kv.get("tags", ""))))
    return out


def oracle(case, obs):
    steps, _ = acct.parse(obs)
    fails = []
    for st in sorted(steps):
        S = steps[st]
        for who, W in S["who"].items():
            if not who.startswith("D") or W["index"] is None: continue
            docs = {}
            for part in W["index"].get("docs", "").split("|"):
                if ":" in part:
                    f, ls = part.split(":", 1); docs[f] = sorted(x for x in ls.split(";") if x)
            counts = {}
            for part in W["index"].get("vaults", "").split(";"):
                if ":" in part:
                    f, n = part.rsplit(":", 1); counts[f] = int(n)
            # favourites / tags / kinds recounted from what the folders serve (kinds leave out the archive folder)
            favs = tags_n = 0
            tagc, notes = {}, 0
            for f, views in W["folders"].items():
                served = acct.folder_fields(views.get("served", ""))
                for it in served["items"]:
                    body = it.split("#")
                    favs += body[0].endswith("!")
                    for tg in body[1:]:
                        tagc[tg] = tagc.get(tg, 0) + 1
                if not (int(served.get("flags", "0") or 0) & 4):
                    notes += len(served["items"])
            ix = W["index"]
            got_t = dict((p.rsplit(":", 1)[0], int(p.rsplit(":", 1)[1])) for p in ix.get("tags", "").split(";") if ":" in p and not p.endswith(":0"))
            got_k = sum(int(p.rsplit(":", 1)[1]) for p in ix.get("kinds", "").split(";") if ":" in p)
            if "favs" in ix and int(ix["favs"]) != favs:
                fails.append({"oracle": "index_favorites", "op": (S["op"] or "")[:1],
                              "detail": "step %d (%s) %s: favourites counter %s, folders serve %d favourites" % (st, S["op"], who, ix["favs"], favs)})
            if "tags" in ix and got_t != tagc:
                fails.append({"oracle": "index_tags", "op": (S["op"] or "")[:1],
                              "detail": "step %d (%s) %s: tag counters %s, folders serve %s" % (st, S["op"], who, got_t, tagc)})
            if "kinds" in ix and got_k != notes:
                fails.append({"oracle": "index_kinds", "op": (S["op"] or "")[:1],
                              "detail": "step %d (%s) %s: kind counters total %d, %d secrets outside the archive folder" % (st, S["op"], who, got_k, notes)})
            for f, views in W["folders"].items():
                served = acct.folder_fields(views.get("served", ""))
                labels = sorted(x.split("=")[0] for x in served["items"])
                if docs.get(f, []) != labels:
                    fails.append({"oracle": "index_documents", "op": (S["op"] or "")[:1],
                                  "detail": "step %d (%s) %s folder %s: index has %s, folder serves %s" % (st, S["op"], who, f, docs.get(f, []), labels)})
                if counts.get(f, 0) != len(labels):
                    fails.append({"oracle": "index_counts", "op": (S["op"] or "")[:1],
                                  "detail": "step %d (%s) %s folder %s: counter %d, folder has %d secrets" % (st, S["op"], who, f, counts.get(f, 0), len(labels))})
            for f in docs:
                if f not in W["folders"] and docs[f]:
                    fails.append({"oracle": "index_documents", "op": (S["op"] or "")[:1],
                                  "detail": "step %d %s: index holds documents %s of folder %s which is not served" % (st, who, docs[f], f)})
    return fails


nontrivial = c02.nontrivial
distinct_key = c02.distinct_key
distribution = c02.distribution


def shrink(case):
    return [c.replace("c02 s", "c20 s", 1) if c.startswith("c02 ") else c for c in c02.shrink(case)]


MANIFEST = {
    "category": "proof",
    "text": ("Coq theorems over the index bookkeeping model: every counter equals a recount of the documents and there is "
             "at most one document per (folder, secret), preserved by add/remove/update — the only operations storage and "
             "merge replay perform; a removed document is gone. Tied to the code by replaying the observed decrypted event "
             "traces of real accounts into the extracted model and comparing documents and per-folder counters with the "
             "real SearchIndex after every step; plus the direct oracle index = served folders"),
    "design_ref": "DESIGN.md §4 C20",
    "note": "partial: the inverted index (query results) is not modelled; documents and counters are",
    "technique": "Coq proof (invariant by induction over index operations) + extracted-model correspondence on real-account histories",
}
