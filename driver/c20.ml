(* Search bookkeeping model: replays the decrypted event traces of ALL folders of one device
   (in the order the harness lists them) into the extracted index model and prints the
   documents per folder and the per-folder counters, in the format of the harness' index line.
   input:  <sub> <case> <step> <who> <folder>=<ev,ev,..> <folder>=<..> ...            *)
open Model
open Glue

let label_of body = match String.index_opt body '=' with Some i -> String.sub body 0 i | None -> body

let run_line (line : string) : unit =
  match String.split_on_char ' ' line |> List.filter (fun s -> s <> "") with
  | _ :: case :: step :: who :: folders when folders <> [] ->
    let x = ref empty_index in
    let labels : (string * string, string) Hashtbl.t = Hashtbl.create 16 in
    let bad = ref false in
    List.iter (fun fe ->
      match String.index_opt fe '=' with
      | None -> ()
      | Some k ->
        let f = String.sub fe 0 k in
        let evs = split_on ',' (String.sub fe (k + 1) (String.length fe - k - 1)) in
        List.iter (fun e ->
          match String.split_on_char ':' e with
          | ["C"; i; body] | ["U"; i; body] ->
            Hashtbl.replace labels (f, i) (label_of body);
            x := ix_update String.equal String.equal !x
                   { d_folder = f; d_id = i; d_label = N0; d_kind = n_of_int 2; d_fav = false }
          | ["D"; i] -> x := ix_remove String.equal String.equal !x f i
          | "V" :: _ | ["N"; _] | ["G"; _] | ["M"; _] -> ()
          | _ -> bad := true) evs) folders;
    if !bad then Printf.printf "%s unmodelled\n" case
    else begin
      let fs = List.sort_uniq compare (List.map (fun d -> d.d_folder) !x.docs) in
      let docs = List.map (fun f ->
        let ls = List.sort compare (List.filter_map (fun d ->
          if d.d_folder = f then Some (Hashtbl.find labels (f, d.d_id)) else None) !x.docs) in
        f ^ ":" ^ String.concat ";" ls) fs in
      let vc = List.filter_map (fun (f, n) -> let n = int_of_nat n in if n > 0 then Some (Printf.sprintf "%s:%d" f n) else None)
          (List.sort compare !x.c_vaults) in
      Printf.printf "%s %s %s index docs=%s vaults=%s\n" case step who (String.concat "|" docs) (String.concat ";" vc)
    end
  | _ :: case :: _ -> Printf.printf "%s unmodelled\n" case
  | _ -> ()
