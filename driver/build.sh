#!/bin/sh
# builds the driver from the freshly extracted model.ml (run after `make` in ../coq)
set -e
cd "$(dirname "$0")"
mkdir -p _build
cp model.ml model.mli glue.ml c*.ml main.ml _build/
cd _build
ocamlfind ocamlopt -O3 -w -a -package str -linkpkg model.mli model.ml glue.ml c06.ml $(ls c[0-9]*.ml | sort | grep -v "^c06.ml$") main.ml -o ../driver 2>&1 | grep -v "^ocamlfind: \[WARNING\]\|options -O3 is only relevant" || true
test -x ../driver
