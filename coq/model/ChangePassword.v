(* vault/src/change_password.rs with symbolic encryption: a ciphertext is a term
   Enc key nonce plaintext; decryption succeeds only under the same key.  Definitions only. *)
From Coq Require Import List NArith Bool.
Import ListNotations.

Section ChangePassword.
Variables key id plain : Type.
Variable key_eqb : key -> key -> bool.

Record ct := Enc { c_key : key; c_nonce : N; c_plain : plain }.
Definition dec (k : key) (c : ct) : option plain := if key_eqb (c_key c) k then Some (c_plain c) else None.

(* an encrypted vault: meta blob + entries (meta ciphertext, secret ciphertext) *)
Record evault := mkEV { ev_meta : ct; ev_entries : list (id * (ct * ct)) }.

(* nonces are drawn from a counter standing for the RNG stream: each encryption takes the
   next fresh position *)
Definition reenc (old new : key) (n : N) (c : ct) : option ct :=
  match dec old c with Some p => Some (Enc new n p) | None => None end.

Fixpoint reenc_entries (old new : key) (n : N) (es : list (id * (ct * ct))) : option (list (id * (ct * ct))) :=
  match es with
  | [] => Some []
  | (i, (m, s)) :: r =>
      match reenc old new n m, reenc old new (n + 1) s, reenc_entries old new (n + 2) r with
      | Some m', Some s', Some r' => Some ((i, (m', s')) :: r')
      | _, _, _ => None
      end
  end.

(* ChangePassword::build: new vault + the events of the new log (CreateVault + one
   CreateSecret per entry) *)
Inductive cevent := CeCreateVault (meta : ct) | CeCreateSecret (i : id) (m s : ct).
Definition change_password (old new : key) (n : N) (v : evault) : option (evault * list cevent) :=
  match reenc old new n (ev_meta v), reenc_entries old new (n + 1) (ev_entries v) with
  | Some m', Some es' =>
      Some (mkEV m' es', CeCreateVault m' :: map (fun e => CeCreateSecret (fst e) (fst (snd e)) (snd (snd e))) es')
  | _, _ => None
  end.

(* every ciphertext of a vault / event list *)
Definition vault_cts (v : evault) : list ct :=
  ev_meta v :: flat_map (fun e => [fst (snd e); snd (snd e)]) (ev_entries v).
Definition event_cts (es : list cevent) : list ct :=
  flat_map (fun e => match e with CeCreateVault m => [m] | CeCreateSecret _ m s => [m; s] end) es.

(* decrypted view *)
Fixpoint sem_entries (k : key) (es : list (id * (ct * ct))) : option (list (id * (plain * plain))) :=
  match es with
  | [] => Some []
  | (i, (a, b)) :: r =>
      match dec k a, dec k b, sem_entries k r with
      | Some pa, Some pb, Some r' => Some ((i, (pa, pb)) :: r')
      | _, _, _ => None
      end
  end.
Definition sem (k : key) (v : evault) : option (plain * list (id * (plain * plain))) :=
  match dec k (ev_meta v), sem_entries k (ev_entries v) with
  | Some m, Some l => Some (m, l)
  | _, _ => None
  end.
End ChangePassword.

(* ---- the identity vault as a key store (login/src/identity_folder.rs): secrets tagged with a URN
   (urn:sos:vault:<folder id> -> that folder's password).  save_folder_password APPENDS a secret and never
   removes the previous one for that URN; the lookup index is built by walking the vault in insertion
   order and letting a later entry overwrite an earlier one.  change_account_password re-encrypts the
   entries in order (change_password above). *)
Section IdentityKeys.
Variables urn kval : Type.
Variable urn_eqb : urn -> urn -> bool.
Definition id_lookup (l : list (urn * kval)) (u : urn) : option kval :=
  fold_left (fun acc e => if urn_eqb (fst e) u then Some (snd e) else acc) l None.
Definition id_save (l : list (urn * kval)) (u : urn) (k : kval) : list (urn * kval) := l ++ [(u, k)].
(* a rebuild that keeps only the FIRST entry per URN: not what the code does; the witness that order matters *)
Fixpoint dedupe_first (seen : list urn) (l : list (urn * kval)) : list (urn * kval) :=
  match l with
  | [] => []
  | (u, k) :: r => if existsb (urn_eqb u) seen then dedupe_first seen r else (u, k) :: dedupe_first (u :: seen) r
  end.
End IdentityKeys.

