(* C07 — patches apply only on the agreed base; a refused merge changes nothing. *)
From Coq Require Import List NArith.
From SosModel Require Import model.Merkle model.EventLog proofs.Merkle_Lemmas proofs.EventLog_Lemmas.
Import ListNotations.

Section C07.
Variable hash : Type.
Variable hash_eqb : hash -> hash -> bool.
Hypothesis hash_eqb_spec : forall a b, hash_eqb a b = true <-> a = b.
Variable H2 : hash -> hash -> hash.
Variables tm dat : Type.
Notation elog := (@elog hash tm dat).
Notation Inv := (Inv hash tm dat).
Notation log_apply := (log_apply hash tm dat).
Notation patch_checked := (log_patch_checked hash hash_eqb H2 tm dat).
Notation rewind_and_patch := (rewind_and_patch hash hash_eqb H2 tm dat).

(* a checked patch is appended iff the comparison with the sender's proof answers Equal;
   in every other case the result carries no new state: the log is left as it was *)
Theorem C07_patch_iff_equal l p rs l' :
  patch_checked l p rs = PcSuccess l' <->
  (tree_compare hash hash_eqb H2 (l_tree l) p = Some CmpEqual /\ l' = log_apply l rs).
Proof. exact (patch_checked_success_iff hash hash_eqb H2 tm dat l p rs l'). Qed.

(* ... hence only if the head the sender computed the patch against is this log's head *)
Theorem C07_patch_only_on_same_head l other p rs l' :
  l_tree l <> [] -> other <> [] -> head hash H2 other = Some p ->
  patch_checked l p rs = PcSuccess l' ->
  l_tree l = other \/ Collision hash H2 \/ Confusion hash H2 (l_tree l) other.
Proof. exact (patch_checked_only_on_same_head hash hash_eqb hash_eqb_spec H2 tm dat l other p rs l'). Qed.

(* ... and always when it is *)
Theorem C07_patch_on_same_head_applies l p rs :
  l_tree l <> [] -> head hash H2 (l_tree l) = Some p ->
  patch_checked l p rs = PcSuccess (log_apply l rs).
Proof. exact (patch_checked_same_head_applies hash hash_eqb hash_eqb_spec H2 tm dat l p rs). Qed.

(* rewind + re-apply of the returned records is the identity: the rollback of a refused
   rewind-and-patch request restores records, order and tree exactly *)
Theorem C07_rewind_rollback l c l' removed : Inv l ->
  log_rewind hash hash_eqb tm dat l c = RwOk l' removed -> log_apply l' removed = l.
Proof. exact (rewind_rollback hash hash_eqb hash_eqb_spec H2 tm dat l c l' removed). Qed.

Theorem C07_rewind_and_patch_refused_unchanged l c p rs l' :
  Inv l -> rewind_and_patch l c p rs = RpDone l' false -> l' = l.
Proof. exact (rewind_and_patch_refused_unchanged hash hash_eqb hash_eqb_spec H2 tm dat l c p rs l'). Qed.

Theorem C07_rewind_and_patch_accepted l c p rs l' :
  Inv l -> rewind_and_patch l c p rs = RpDone l' true ->
  exists kept removed, l_recs l = kept ++ removed /\ l_recs l' = kept ++ rs /\ Inv l'.
Proof. exact (rewind_and_patch_accepted hash hash_eqb hash_eqb_spec H2 tm dat l c p rs l'). Qed.

(* replace-all installs exactly the given records or returns an error without a new state *)
Theorem C07_replace_all_ok l ckpt rs l' :
  log_replace_all hash hash_eqb H2 tm dat l ckpt rs = RaOk l' -> l_recs l' = rs /\ Inv l' /\ rs <> [].
Proof. exact (replace_all_ok hash hash_eqb H2 tm dat l ckpt rs l'). Qed.
End C07.

(* non-vacuity: a refused rewind-and-patch on a concrete log (toy hash on nat) *)
Example C07_nonvacuous_refused :
  exists l',
  rewind_and_patch nat Nat.eqb (fun a b => a * 1000 + b) nat nat
    (mkElog [mkErec 1 10 0; mkErec 2 20 0; mkErec 3 30 0] [10; 20; 30]) 10
    (mkProof 7 [] 1%N [0%N]) [mkErec 9 40 0] = RpDone l' false /\
  l' = mkElog [mkErec 1 10 0; mkErec 2 20 0; mkErec 3 30 0] [10; 20; 30].
Proof. eexists. split; reflexivity. Qed.

Print Assumptions C07_patch_iff_equal.
Print Assumptions C07_patch_only_on_same_head.
Print Assumptions C07_patch_on_same_head_applies.
Print Assumptions C07_rewind_rollback.
Print Assumptions C07_rewind_and_patch_refused_unchanged.
Print Assumptions C07_rewind_and_patch_accepted.
Print Assumptions C07_replace_all_ok.
