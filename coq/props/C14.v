(* C14 — placeholder until proofs/Formats_Lemmas.v lands *)
From Coq Require Import List NArith.
From SosModel Require Import base.Bytes model.Formats.
Theorem C14_decode_top_ret (A : Type) (a : A) (s : bytes) : decode_top (ret a) s = Some a.
Proof. exact eq_refl. Qed.
Print Assumptions C14_decode_top_ret.
