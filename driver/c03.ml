(* Byte-level structure of stored folder events: parses the raw event bytes with the extracted
   decoder, splits them into public and ciphertext chunks with the extracted [split_event], checks
   that the split joins back to the bytes, and prints the public fields in the harness' format.
   input:  c03 <case> <n> <hex of the event bytes>                                      *)
open Model
open Glue

let hexb (l : n list) = hex_of_string (string_of_bytes l)
let pack (a : aead) =
  let nb = match a.a_nonce with Nonce12 b -> b | Nonce24 b -> b in
  Printf.sprintf "%s:%d" (hexb nb) (List.length a.a_ct)

let run_line (line : string) : unit =
  match String.split_on_char ' ' line |> List.filter (fun s -> s <> "") with
  | [_; case; n; hex] ->
    let bytes = bytes_of_string (string_of_hex hex) in
    (match decode_top p_write_event bytes with
     | None -> Printf.printf "%s ev %s undecodable\n" case n
     | Some e ->
       let chunks = split_event e in
       if join chunks <> bytes then Printf.printf "%s ev %s split-does-not-join\n" case n
       else begin
         let desc = match e with
           | WCreateSecret (id, c) -> Printf.sprintf "kind=C id=%s commit=%s meta=%s secret=%s" (hexb id) (hexb c.vc_commit) (pack c.vc_meta) (pack c.vc_secret)
           | WUpdateSecret (id, c) -> Printf.sprintf "kind=U id=%s commit=%s meta=%s secret=%s" (hexb id) (hexb c.vc_commit) (pack c.vc_meta) (pack c.vc_secret)
           | WDeleteSecret id -> Printf.sprintf "kind=D id=%s" (hexb id)
           | WSetVaultMeta a -> Printf.sprintf "kind=M meta=%s" (pack a)
           | WSetVaultName s -> Printf.sprintf "kind=N name=%s" (hexb s)
           | WSetVaultFlags f -> Printf.sprintf "kind=G flags=%d" (int_of_n f)
           | WCreateVault b -> Printf.sprintf "kind=V len=%d" (List.length b) in
         Printf.printf "%s ev %s %s\n" case n desc
       end)
  | _ :: case :: _ -> ()
  | _ -> ()
