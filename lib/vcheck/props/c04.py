"""C04 — devices and server converge once edits stop and everyone syncs.
Real accounts (2–3 devices) against a real ServerStorage reached through the harness'
DirectClient (same lock discipline as the HTTP handlers); histories of online/offline edits
from several devices, then quiescent rounds in which every device completes a sync."""
from vcheck import acct

ID = "C04"
SUB = "c04"
LEVEL = "proof"
RESILIENT = True
IMPL_TIMEOUT = 3000
RULE = ("generated histories: edits to the same and different secrets from 2-3 devices while online/offline (unequal "
        "edit counts, clock ties and skew, byte-identical deletes), folder create/rename (account log), then three rounds "
        "in which every device syncs (random order); non-trivial = both devices edited between syncs (a divergence the "
        "protocol has to merge); distinct by history")
TRUSTED_BASE = ["model/SyncProto.v: single-log protocol (compare, diff, checked patch, scan for ancestor, merge_patches, "
                "rewind/push, forced overwrite); harness DirectClient substitutes the HTTP transport",
                "requests are atomic on the server (per-account write lock in handlers/account.rs)"]
ASSUMPTIONS = ["no network faults; websocket change notifications and the file-transfer queue are outside the model",
               "liveness is proved for the model's atomic-request semantics"]


def corpus():
    return [
        "c04 k_ff cbe=fs sbe=fs devs=2 hist=s0|s1|c0:a|c0:b|s0|s1|s0|s1|s1|s0",
        "c04 k_unequal cbe=fs sbe=fs devs=2 hist=s0|s1|t:50|c0:a|t:60|c0:b|t:70|c1:c|s0|s1|s0|s1|s1|s0",
        "c04 k_unequal_db cbe=db sbe=db devs=2 hist=s0|s1|t:50|c0:a|t:60|c0:b|t:70|c1:c|s0|s1|s0|s1|s1|s0",
        "c04 k_same_delete cbe=fs sbe=fs devs=2 hist=s0|c0:a|s0|s1|t:50|x0:a|t:60|x1:a|s0|s1|s0|s1|s1|s0",
        "c04 k_account_log cbe=fs sbe=fs devs=2 hist=s0|s1|t:50|f0:1|t:60|f1:2|s0|s1|s0|s1|s1|s0",
        # a folder created (with content) while the server does not know it yet: first sync drops its later events
        "c04 k_new_folder cbe=fs sbe=fs devs=2 hist=f0:1|s1|c0:b@1|s0|s1|s0|s1|s0|s1|s1|s0",
        # both devices change the account log (rename / create folder) while one has local events in the new folder
        "c04 k_acct_replay cbe=fs sbe=fs devs=2 hist=s1|r0:0:2|f1:1|c1:b@1|s1|s0|s1|s1|s0|s1|s0|s0|s1",
        # the common ancestor lies more than one scan page (32 proofs) behind the server's head
        "c04 k_far_behind cbe=fs sbe=fs devs=2 obs=end hist=s0|c0:a|s0|s1|%s|c1:b|s0|s1|s0|s1|s1|s0" % "|".join(["u0:a"] * 36),
        # an offline rename back to the name the server already has (A -> B -> A): the repeated event has the same
        # commit hash as the server's head
        "c04 k_rename_back cbe=fs sbe=fs devs=2 hist=s0|s1|r0:0:1|s0|s1|r0:0:2|r0:0:1|s0|s1|s0|s1|s1|s0",
        "c04 k_three cbe=fs sbe=fs devs=3 hist=s0|s1|s2|t:50|c0:a|t:60|c1:b|t:70|c2:c|s0|s1|s2|s2|s1|s0|s1|s0|s2",
    ]


def gen_cases(rng, tier):
    n = 50 if tier == "quick" else 2000
    out = []
    for j in range(n):
        ndev = 3 if j % 7 == 6 else 2
        h = acct.gen_history(rng, ndev, rng.randrange(4, 14), with_folders=(j % 4 == 3))
        out.append("c04 g%d cbe=%s sbe=%s devs=%d hist=%s" % (j, "db" if j % 4 == 1 else "fs", "db" if j % 5 == 2 else "fs", ndev, "|".join(h)))
    return out


def _recs(W, name):
    return ",".join("%s@%s" % (t, tm) for t, tm in zip(W["logs"][name][2], W.get("logtimes", {}).get(name, [])))


def _cross_log_effect(P, Q, d, name):
    """the single-log protocol model has no cross-log effects: a folder log that SHRANK on the device during
    a sync was re-created by the replay of merged account events (known finding C04-account-merge-recreates-folder);
    such observations are left to the oracle"""
    if d not in Q or name not in Q[d]["logs"]:
        return True
    return Q[d]["logs"][name][0] < P[d]["logs"][name][0]


def _dup_head(dev_toks, srv_toks):
    """the device holds the server's whole log and, after it, events ending in one that is byte-identical to the
    server's head (same commit hash): finding C04-repeated-head-event-never-pushed"""
    return bool(srv_toks) and len(dev_toks) > len(srv_toks) and dev_toks[:len(srv_toks)] == srv_toks and dev_toks[-1] == srv_toks[-1]


def model_input(cases, impl):
    """for every successful sync step and every log known to both sides before it: the two logs as observed"""
    out = []
    for c in cases:
        cid = c.split()[1]
        steps, defs = acct.parse(impl.get(cid, []))
        n = 0
        for st in sorted(steps):
            S = steps[st]
            op = S["op"] or ""
            if not (op.startswith("s") and S["res"] == "ok") or st - 1 not in steps:
                continue
            P = steps[st - 1]["who"]
            d = "D" + op[1:]
            if d not in P or "SRV" not in P:
                continue
            Q = S["who"]
            for name, (ln, root, toks) in sorted(P[d]["logs"].items()):
                if name not in P["SRV"]["logs"] or not toks or not P["SRV"]["logs"][name][2]:
                    continue
                if _cross_log_effect(P, Q, d, name) or _dup_head(toks, P["SRV"]["logs"][name][2]):
                    continue
                out.append("%s %s %d %s D=%s S=%s" % (SUB, cid, st, name, _recs(P[d], name), _recs(P["SRV"], name)))
                n += 1
        if n == 0:
            out.append("%s %s" % (SUB, cid))
    return out


def impl_projection(obs):
    steps, defs = acct.parse(obs)
    out = []
    for st in sorted(steps):
        S = steps[st]
        op = S["op"] or ""
        if not (op.startswith("s") and S["res"] == "ok") or st - 1 not in steps:
            continue
        P = steps[st - 1]["who"]; Q = S["who"]
        d = "D" + op[1:]
        if d not in P or "SRV" not in P or d not in Q or "SRV" not in Q:
            continue
        for name, (ln, root, toks) in sorted(P[d]["logs"].items()):
            if name not in P["SRV"]["logs"] or not toks or not P["SRV"]["logs"][name][2]:
                continue
            if _cross_log_effect(P, Q, d, name) or _dup_head(toks, P["SRV"]["logs"][name][2]):
                continue
            a = Q[d]["logs"].get(name, (0, "-", []))[2]; b = Q["SRV"]["logs"].get(name, (0, "-", []))[2]
            out.append("%d %s dev=%s srv=%s" % (st, name, ",".join(a), ",".join(b)))
    return out


def log_sig(W):
    return {k: (v[0], v[1]) for k, v in W["logs"].items()}


def oracle(case, obs):
    steps, _ = acct.parse(obs)
    hist, kv = acct.hist_of(case)
    fails = []
    if len(steps) < len(hist):
        return [{"oracle": "no_observation", "detail": "history has %d steps, %d observed" % (len(hist), len(steps))}]
    ndev = int(kv.get("devs", "2"))
    for st in sorted(steps):
        S = steps[st]
        op = S["op"] or ""
        if op.startswith("s") and (S["res"] or "") == "ok":
            d = "D" + op[1:]
            dev, srv = S["who"].get(d), S["who"].get("SRV")
            if dev and srv:
                a, b = log_sig(dev), log_sig(srv)
                for name in sorted(set(a) | set(b)):
                    if name == "files" and (a.get(name, (0,))[0] == 0 or b.get(name, (0,))[0] == 0):
                        continue
                    if a.get(name) != b.get(name):
                        prev_srv = steps.get(st - 1, {}).get("who", {}).get("SRV", {"logs": {}})
                        prev_dev = steps.get(st - 1, {}).get("who", {}).get(d, {"logs": {}})
                        fails.append({"oracle": "ok_sync_same_roots", "log": name.split(":")[0],
                                      "folder_new_on_server": name.startswith("folder:") and name not in prev_srv["logs"],
                                      "device_log_shrank": name in prev_dev["logs"] and prev_dev["logs"][name][0] > a.get(name, (0,))[0],
                                      "dup_head": _dup_head(dev["logs"].get(name, (0, "-", []))[2], srv["logs"].get(name, (0, "-", []))[2]),
                                      "detail": "step %d: %s reported success but %s log differs: device %s server %s" % (st, op, name, a.get(name), b.get(name))})
    # quiescence: the generator ends with two rounds of syncs by every device
    last = steps[max(steps)]
    R = acct.ROUNDS
    tail = hist[-R * ndev:]
    if all(h.startswith("s") for h in tail):
        tail_res = [steps[len(hist) - R * ndev + 1 + i]["res"] for i in range(R * ndev)]
        if any(r != "ok" for r in tail_res):
            fails.append({"oracle": "sync_succeeds_after_quiescence", "detail": "final rounds: %s" % [(r or "")[:60] for r in tail_res]})
        else:
            sigs = {w: log_sig(W) for w, W in last["who"].items()}
            ref = sigs.get("SRV")
            for w, sg in sigs.items():
                for name in sorted(set(sg) | set(ref or {})):
                    if name == "files": continue
                    if ref is not None and sg.get(name) != ref.get(name):
                        fails.append({"oracle": "converged_logs", "log": name.split(":")[0],
                                      "dup_head": w.startswith("D") and _dup_head(last["who"][w]["logs"].get(name, (0, "-", []))[2], last["who"]["SRV"]["logs"].get(name, (0, "-", []))[2]),
                                      "detail": "after the quiescent rounds %s %s log %s != server %s" % (w, name, sg.get(name), ref.get(name))})
            served = {}
            for w, W in last["who"].items():
                if w.startswith("D"):
                    served[w] = {f: acct.folder_fields(v.get("served", "")) for f, v in W["folders"].items()}
            ws = sorted(served)
            for w in ws[1:]:
                if served[w] != served[ws[0]]:
                    fails.append({"oracle": "converged_folders", "detail": "after the quiescent rounds %s serves %s but %s serves %s" % (ws[0], served[ws[0]], w, served[w])})
    return fails


def nontrivial(case, obs):
    hist, _ = acct.hist_of(case)
    edited, div = set(), False
    for h in hist:
        if h[0] in "cuxfmrp":
            edited.add(h[1])
            if len(edited) >= 2: div = True
        elif h[0] == "s":
            edited.discard(h[1:])
    return div


distinct_key = lambda case: case.split(" ", 2)[2]


def shrink(case):
    hist, kv = acct.hist_of(case)
    head = "c04 s cbe=%s sbe=%s devs=%s hist=" % (kv.get("cbe", "fs"), kv.get("sbe", "fs"), kv.get("devs", "2"))
    nd = acct.ROUNDS * int(kv.get("devs", "2"))
    body, tail = hist[:-nd], hist[-nd:]
    return [head + "|".join(body[:i] + body[i + 1:] + tail) for i in range(len(body))]


def distribution(cases, impl):
    from vcheck.props import c02
    return c02.distribution(cases, impl)


MANIFEST = {
    "category": "proof",
    "text": ("Coq theorems over the single-log sync protocol model (a sync step never ends in success with different "
             "logs; two quiescent rounds converge — under the stated hypotheses: no byte-identical divergent events, no "
             "history rewrite) and, as the tie to the code and the search for failing inputs, real multi-device accounts "
             "synced through the real server storage on generated histories: every successful sync must leave device "
             "and server with equal roots for every log, and after the quiescent rounds every device and the server "
             "report the same status and every device serves the same decrypted folders"),
    "design_ref": "DESIGN.md §4 C04",
    "note": "partial: liveness for atomic requests only; network faults, websocket notifications, file transfers not modelled",
    "technique": "Coq proof over a protocol model + real-account multi-device differential runs with convergence oracle",
}
