#!/bin/sh
# Runs the repository's baseline test-suite (guard OFF) and prints the failing test names.
# Expected failures on the pinned tree (BASELINE.json always_fail/flaky):
#   sos-command-line-tests::main::command_line, not_authenticated_local_account,
#   not_authenticated_network_account, (flaky) db_event_log_compare
cd /repo && CARGO_NET_OFFLINE=true cargo nextest run --workspace --no-fail-fast \
  --tool-config-file pb:/w/lib/nextest.toml --profile pb --test-threads 8 --offline 2>&1 | tail -25
python3 - <<'PY'
import xml.etree.ElementTree as ET, glob
for p in glob.glob('/repo/target/nextest/pb/junit.xml'):
    r = ET.parse(p).getroot()
    tot = fail = 0
    for tc in r.iter('testcase'):
        tot += 1
        if tc.find('failure') is not None or tc.find('error') is not None:
            fail += 1; print('FAILED', tc.get('classname'), tc.get('name'))
    print('total', tot, 'failed', fail)
PY
