(* C15 — malformed bytes are rejected with an error, never a crash.
   A Gallina decoder is total by construction, so 'the model does not get stuck' is vacuous and
   is NOT claimed.  What is proved about the model decoders: guarded reads never yield more
   than MAX_BUFFER_SIZE bytes and only what the input holds; Vec decoding cannot spin or
   return more items than the input has bytes; a decoded timestamp is always in range; kind
   tags outside the family's tag set (Noop = 0 included) are rejected.  That the
   implementation behaves like these decoders (and neither panics nor aborts) is decided by
   the differential mutant run. *)
From Coq Require Import List NArith ZArith.
From SosModel Require Import base.Bytes gen.Generated model.Formats proofs.Bytes_Lemmas proofs.Formats_Lemmas.
Import ListNotations.

Theorem C15_guarded_read_bound MAX n s b r : p_bytes_n MAX n s = Some (b, r) ->
  lenb b = n /\ (n <= MAX)%N /\ s = b ++ r.
Proof. exact (p_bytes_n_bound MAX n s b r). Qed.

Theorem C15_read_past_end_is_error n s : (lenb s < n)%N -> take n s = None.
Proof. exact (take_short n s). Qed.

Theorem C15_vec_cannot_spin (A : Type) (p : parser A) fuel count s l r :
  p_items fuel count p s = Some (l, r) -> (length l <= fuel)%nat /\ N.of_nat (length l) = count.
Proof. exact (p_items_fuel A p fuel count s l r). Qed.

Theorem C15_decoded_time_in_range s t r : p_time s = Some (t, r) -> wf_time t.
Proof. exact (time_decoded_wf s t r). Qed.

Theorem C15_write_unknown_tag_rejected k s : (k < 65536)%N -> ~ In k write_tags ->
  p_write_event (e_u16 k ++ s) = None.
Proof. exact (write_unknown_tag_rejected k s). Qed.
Theorem C15_account_unknown_tag_rejected k s : (k < 65536)%N -> ~ In k account_tags ->
  p_account_event (e_u16 k ++ s) = None.
Proof. exact (account_unknown_tag_rejected k s). Qed.
Theorem C15_file_unknown_tag_rejected k s : (k < 65536)%N -> ~ In k file_tags ->
  p_file_event (e_u16 k ++ s) = None.
Proof. exact (file_unknown_tag_rejected k s). Qed.
Theorem C15_noop_is_not_a_tag :
  ~ In EK_NOOP write_tags /\ ~ In EK_NOOP account_tags /\ ~ In EK_NOOP file_tags.
Proof. exact noop_not_a_tag. Qed.

(* non-vacuity: a guarded read that succeeds, one that is refused by the guard *)
Theorem C15_nonvacuous_guard :
  p_bytes_n 4 2 [1;2;3]%N = Some ([1;2]%N, [3%N]) /\ p_bytes_n 4 5 [1;2;3;4;5;6]%N = None.
Proof. split; vm_compute; reflexivity. Qed.

Print Assumptions C15_guarded_read_bound.
Print Assumptions C15_read_past_end_is_error.
Print Assumptions C15_vec_cannot_spin.
Print Assumptions C15_decoded_time_in_range.
Print Assumptions C15_write_unknown_tag_rejected.
Print Assumptions C15_account_unknown_tag_rejected.
Print Assumptions C15_file_unknown_tag_rejected.
Print Assumptions C15_noop_is_not_a_tag.
Print Assumptions C15_nonvacuous_guard.
