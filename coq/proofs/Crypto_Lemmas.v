From Coq Require Import List NArith Bool Lia Arith.
From SosModel Require Import model.Crypto.
Import ListNotations.
Section CryptoLemmas.
Variables key nonce plain cipher salt seed pw : Type.
Variable aead_enc : key -> nonce -> plain -> cipher.
Variable aead_dec : key -> nonce -> cipher -> option plain.
Variable nonce_len : nonce -> nat.
Variable expected_len : nat.
(* idealised AEAD *)
Hypothesis aead_correct : forall k n p, aead_dec k n (aead_enc k n p) = Some p.
Hypothesis aead_integrity : forall k n c p, aead_dec k n c = Some p -> c = aead_enc k n p.
Hypothesis aead_key_bound : forall k k' n p, k <> k' -> aead_dec k' n (aead_enc k n p) = None.
Variable kdf : pw -> option seed -> salt -> key.
Notation pack := (pack nonce cipher).
Notation encrypt := (encrypt key nonce plain cipher aead_enc).
Notation decrypt := (decrypt key nonce plain cipher aead_dec nonce_len expected_len).

Theorem roundtrip k n p : nonce_len n = expected_len -> decrypt k (encrypt k n p) = Some p.
Proof. intro H. unfold Crypto.decrypt, Crypto.encrypt. cbn. rewrite H, Nat.eqb_refl. apply aead_correct. Qed.

(* any pack that opens under k is exactly the pack produced for (k, its nonce, the plaintext):
   a changed ciphertext, a ciphertext moved under another nonce, parts swapped between packs
   or a nonce of the wrong size never return data *)
Theorem tamper k a p : decrypt k a = Some p ->
  a = encrypt k (pk_nonce _ _ a) p /\ nonce_len (pk_nonce _ _ a) = expected_len.
Proof.
  unfold Crypto.decrypt. destruct (Nat.eqb (nonce_len (pk_nonce _ _ a)) expected_len) eqn:E; [|discriminate].
  intro H. apply aead_integrity in H. apply Nat.eqb_eq in E. split; [|exact E].
  destruct a as [n c]. cbn in *. unfold Crypto.encrypt. congruence.
Qed.

Theorem wrong_nonce_size k a : nonce_len (pk_nonce _ _ a) <> expected_len -> decrypt k a = None.
Proof. intro H. unfold Crypto.decrypt. apply Nat.eqb_neq in H. rewrite H. reflexivity. Qed.

Theorem key_bound k k' n p : k <> k' -> decrypt k' (encrypt k n p) = None.
Proof.
  intro H. unfold Crypto.decrypt, Crypto.encrypt. cbn.
  destruct (Nat.eqb (nonce_len n) expected_len); [apply aead_key_bound; exact H|reflexivity].
Qed.

(* unlocking: only a password whose derived key opens the meta pack unlocks; a failed unlock
   leaves no key behind *)
Notation unlock := (unlock key nonce plain cipher salt seed pw aead_dec nonce_len expected_len kdf).
Theorem unlock_failed_is_locked a p a' : unlock a p = (a', false) -> ap_key _ _ _ _ _ a' = None.
Proof.
  unfold Crypto.unlock. destruct (decrypt (kdf p (ap_seed _ _ _ _ _ a) (ap_salt _ _ _ _ _ a)) (ap_meta _ _ _ _ _ a)); intro H; [discriminate|].
  injection H as <-. reflexivity.
Qed.
Theorem unlock_ok_key_opens a p a' : unlock a p = (a', true) ->
  exists k m, ap_key _ _ _ _ _ a' = Some k /\ k = kdf p (ap_seed _ _ _ _ _ a) (ap_salt _ _ _ _ _ a) /\
              decrypt k (ap_meta _ _ _ _ _ a) = Some m.
Proof.
  unfold Crypto.unlock. destruct (decrypt (kdf p (ap_seed _ _ _ _ _ a) (ap_salt _ _ _ _ _ a)) (ap_meta _ _ _ _ _ a)) as [m|] eqn:E; intro H; [|discriminate].
  injection H as <-. eexists. exists m. cbn. split; [reflexivity|]. split; [reflexivity|exact E].
Qed.
(* a password deriving a different key cannot unlock a folder sealed under k *)
Theorem unlock_other_password_fails a p k n m :
  ap_meta _ _ _ _ _ a = encrypt k n m -> kdf p (ap_seed _ _ _ _ _ a) (ap_salt _ _ _ _ _ a) <> k ->
  snd (unlock a p) = false.
Proof.
  intros Hm Hk. unfold Crypto.unlock. rewrite Hm, key_bound by (intro E; apply Hk; symmetry; exact E). reflexivity.
Qed.

(* one fresh draw per encryption: distinct stream values give distinct nonces in every pack *)
Notation encrypt_all := (encrypt_all key nonce plain cipher aead_enc).
Theorem nonces_never_repeat k : forall stream ps, NoDup stream ->
  NoDup (map (pk_nonce _ _) (encrypt_all k stream ps)).
Proof.
  induction stream as [|n s IH]; intros ps Hnd; [constructor|].
  destruct ps as [|p ps]; [constructor|]. cbn [Crypto.encrypt_all map]. inversion Hnd as [|? ? Hn Hs]; subst.
  constructor; [|apply IH; exact Hs].
  cbn. intro Hin. apply Hn. clear -Hin. revert ps Hin. induction s as [|x s IHs]; intros ps Hin; [destruct ps; cbn in Hin; contradiction|].
  destruct ps as [|q ps]; [cbn in Hin; contradiction|]. cbn [Crypto.encrypt_all map] in Hin. destruct Hin as [E|Hin]; [left; exact E|right; apply (IHs ps Hin)].
Qed.
End CryptoLemmas.
