"""C14 — every stored and transmitted type survives encode/decode unchanged.
The abstract-value syntax shared by model and implementation is the binary encoding itself:
the harness generates structured values of every type, encodes them (and checks
decode(encode v) == v with the type's own equality); every encoding is then decoded and
re-encoded by the real decoder and by the extracted model decoder, and the results must be
byte-identical."""
import os
from vcheck import core

ID = "C14"
SUB = "c14"
LEVEL = "proof"
RESILIENT = True
IMPL_CHUNK = 3000
MODELLED = ["time", "aead", "vcommit", "write", "account", "file", "record", "cproof", "cstate", "comparison", "tagset", "evfile"]
RULE = ("structure-aware Rust generators (every variant, empty/boundary sizes, non-ASCII strings, boundary "
        "timestamps) produce values of each type; a case is the encoding of one value; non-trivial = modelled type "
        "and encoding longer than 2 bytes; distinct by (type, bytes)")
TRUSTED_BASE = ["model/Formats.v + base/Bytes.v: hand transcription of sos_core::encoding::v1 and binary-stream 10 "
                "primitives; tied to the code by byte-exact decode→re-encode agreement on every generated encoding",
                "tools/extract_facts.py (event-kind tags, cipher ids, MAX_BUFFER_SIZE, flag bits → gen/Generated.v)"]
ASSUMPTIONS = ["types not in Formats.v (DeviceEvent::Trust JSON payload, vault meta, secret meta and kinds, the protobuf wire types scan/diff/patch request+response and SyncStatus) "
               "are explored through the implementation-only round-trip oracle and listed as not modelled",
               "prost varint coding is trusted"]
COQ_EXTRA_TARGETS = ()


def prepare(run):
    rc, out = core.sh(["python3", os.path.join(core.VERIF, "tools", "extract_facts.py")], timeout=60)
    if rc != 0:
        return {"error": out[-400:]}
    return {"facts": "regenerated gen/Generated.v", "event_kinds": out.count('"')}


def corpus():
    return [
        "c14 k1 T=write B=0e0056b6bbf0394ff0e61d4f631a0e949fb5 rt=1",
        "c14 k2 T=comparison B=03 rt=1",
        "c14 k3 T=time B=ff6f40f73a00000000000000 rt=1",
    ]


def generated(rng, count, wd_name="C14"):
    wd = os.path.join(core.WORK, wd_name)
    os.makedirs(wd, exist_ok=True)
    spec = os.path.join(wd, "genspec.txt")
    open(spec, "w").write("seed=%d count=%d\n" % (rng.randrange(1 << 40), count))
    rc, out = core.run_impl("c14gen", spec, timeout=600)
    vals = []
    for ln in out.splitlines():
        if ln.startswith("T="):
            t, b, r = ln.split()
            vals.append((t[2:], b[2:], r[3:]))
    return vals


def gen_cases(rng, tier):
    n = 3300 if tier == "quick" else 110000
    vals = generated(rng, n)
    return ["c14 v%d T=%s B=%s rt=%s" % (i, t, b, r) for i, (t, b, r) in enumerate(vals)]


def fields(case):
    toks = case.split()
    d = dict(t.split("=", 1) for t in toks[2:] if "=" in t)
    return toks[1], d.get("T", ""), d.get("B", ""), d.get("rt", "1")


def oracle(case, obs):
    cid, ty, b, rtflag = fields(case)
    fails = []
    res = [o for o in obs if not o.startswith("!")]
    if rtflag != "1":
        fails.append({"oracle": "roundtrip_value", "type": ty, "detail": ("the encoded tag field depends on the order the set was filled in: %s %s" if ty == "tagset" else "decode(encode v) != v for %s %s") % (ty, b[:80])})
    if not res:
        fails.append({"oracle": "no_result", "type": ty, "detail": "no observation"})
        return fails
    r = res[0]
    if ty == "evfile":
        # B is a folder event log file; the observation is the row iterator in both directions (compared with the model)
        if " fwd=err" in r or " rev=err" in r or "hang" in r:
            fails.append({"oracle": "valid_file_unreadable", "type": ty, "detail": "a file written by the event log itself reads back as %s" % r[:120]})
        return fails
    if ty == "tagset":
        # B is the set of tags in a generated order, the observation the tag field of the real encoding: compared
        # with the model's canonical encoding by the correspondence; rt says it does not depend on the insertion order
        return fails
    if r != "ok " + b:
        fails.append({"oracle": "reencode_identity", "type": ty, "got": r.split()[0],
                      "detail": "decode+encode of a valid %s encoding gave %s" % (ty, r[:100])})
    return fails


def nontrivial(case, obs):
    cid, ty, b, _ = fields(case)
    return ty in MODELLED and len(b) > 4


def distinct_key(case):
    cid, ty, b, _ = fields(case)
    return (ty, b)


def distribution(cases, impl):
    per, sizes = {}, {}
    for c in cases:
        _, ty, b, _ = fields(c)
        per[ty] = per.get(ty, 0) + 1
        k = "<16" if len(b) < 32 else "<128" if len(b) < 256 else "<1024" if len(b) < 2048 else ">=1024"
        sizes[k] = sizes.get(k, 0) + 1
    return {"per_type": per, "encoded_size_bytes": sizes,
            "modelled_types": MODELLED, "explored_not_modelled": [t for t in per if t not in MODELLED]}


MANIFEST = {
    "category": "proof",
    "text": ("Coq round-trip theorems (decode (encode v ++ rest) = Some (v, rest) under an explicit well-formedness "
             "predicate) for the primitives of binary-stream and for every format in model/Formats.v (timestamps, "
             "AeadPack, VaultCommit, Write/Account/File events, event records with their len|body|len frame, commit "
             "proofs/states, comparisons), encoders being total functions of the value (deterministic); the model is "
             "tied to the code byte-exactly: every generated encoding is decoded and re-encoded by the real crate and "
             "by the extracted model and the outputs compared"),
    "design_ref": "DESIGN.md §4 C14",
    "note": ("trusts: Coq kernel, extraction, fact extractor for tags/limits, harness generators; types outside "
             "Formats.v are covered by the implementation-only round-trip oracle (exploration), listed in the evidence"),
    "technique": "Coq proof of codec round-trips over parser combinators and of the canonical (order-independent) encoding of set fields + byte-exact extracted-model correspondence (binary formats, tag field, event log files); protobuf wire types and vault-crate types explored on the implementation only",
}
