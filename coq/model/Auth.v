(* C11 — auth_request authorisation on the server.
   Transcribes handlers/mod.rs authenticate_endpoint, authenticate.rs BearerToken::new (with
   the caller's map_err: every bearer error becomes BadRequest), config.rs
   AccessControlConfig::is_allowed_access and backend.rs verify_device.  Definitions only. *)
From Coq Require Import List Bool.
Import ListNotations.

Section Auth.
Variables account key sig msg : Type.
Variable account_eqb : account -> account -> bool.
Variable verify : key -> msg -> sig -> bool.        (* ed25519 verification, abstract *)

Record access := mkAccess { allow : option (list account); deny : option (list account) }.
Definition mem (a : account) (l : list account) : bool := existsb (account_eqb a) l.

(* is_allowed_access: with both lists the deny list is consulted first (fix commit
   'an account on the deny list is refused even when it is also on the allow list') *)
Definition is_allowed (c : option access) (a : account) : bool :=
  match c with
  | None => true
  | Some x =>
    match deny x, allow x with
    | Some d, None => negb (mem a d)
    | None, Some al => mem a al
    | Some d, Some al => if mem a d then false else mem a al
    | None, None => true
    end
  end.
(* the behaviour before the fix: allow consulted first *)
Definition is_allowed_allow_first (c : option access) (a : account) : bool :=
  match c with
  | None => true
  | Some x =>
    match deny x, allow x with
    | Some d, None => negb (mem a d)
    | None, Some al => mem a al
    | Some d, Some al => if mem a al then true else false
    | None, None => true
    end
  end.

(* the Authorization header as the extractor and BearerToken::new see it *)
Inductive token :=
| TokAbsent          (* no Authorization: Bearer header: the TypedHeader extractor rejects *)
| TokMalformed       (* not base58, or not an encoded 64-byte signature *)
| TokDotted          (* legacy formats: the token contains '.' *)
| TokSig (s : sig).

Inductive verdict := Accept | BadRequest | Forbidden.

Record auth_request := mkAReq {
  ar_account : option account;     (* X-SOS-ACCOUNT-ID header, parsed *)
  ar_token : token;
  ar_signed : msg                  (* the bytes the handler passes as signed data: body, or URI path *)
}.

(* trusted a = Some ks: the account exists and ks are its trusted device keys
   (ServerStorage::list_device_keys); None: no such account *)
Definition authorize (cfg : option access) (trusted : account -> option (list key)) (r : auth_request) : verdict :=
  match ar_token r, ar_account r with
  | TokSig s, Some a =>
    if negb (is_allowed cfg a) then Forbidden
    else match trusted a with
         | None => Accept                    (* verify_device: unknown account passes *)
         | Some ks => if existsb (fun k => verify k (ar_signed r) s) ks then Accept else Forbidden
         end
  | _, _ => BadRequest
  end.

(* a server whose handlers run only after authorisation *)
Variable state : Type.
Variable handler : state -> auth_request -> state.
Variable trusted_of : state -> account -> option (list key).
Definition serve (cfg : option access) (st : state) (r : auth_request) : state * verdict :=
  match authorize cfg (trusted_of st) r with
  | Accept => (handler st r, Accept)
  | v => (st, v)
  end.
End Auth.

(* The trusted set of an account is the replay of its device event log
   (reducers/src/device.rs DeviceReducer::reduce): Trust inserts the device unless one with the same
   public key is present (IndexSet, TrustedDevice's Eq/Hash are by public key), Revoke removes the
   device with that key, every other event is skipped.  Keys only. *)
Section Devices.
Variable key : Type.
Variable key_eqb : key -> key -> bool.
Inductive dev_event := DevTrust (k : key) | DevRevoke (k : key) | DevOther.
Definition dev_step (ds : list key) (e : dev_event) : list key :=
  match e with
  | DevTrust k => if existsb (key_eqb k) ds then ds else ds ++ [k]
  | DevRevoke k => filter (fun d => negb (key_eqb d k)) ds
  | DevOther => ds
  end.
Definition reduce_devices (log : list dev_event) : list key := fold_left dev_step log [].
(* the last event of the log that names k *)
Fixpoint last_about (k : key) (log : list dev_event) (acc : option bool) : option bool :=
  match log with
  | [] => acc
  | DevTrust j :: r => last_about k r (if key_eqb j k then Some true else acc)
  | DevRevoke j :: r => last_about k r (if key_eqb j k then Some false else acc)
  | DevOther :: r => last_about k r acc
  end.
End Devices.
