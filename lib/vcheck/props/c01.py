"""C01 — folder contents obey read-your-writes and survive reload.
Single-device account histories (create / update / delete / move, folder create / rename /
describe / re-flag / delete, compaction, sign-out + sign-in = reload from storage) on both
backends.  Values are unique per write, so every served item identifies the write it came
from; the oracle follows each operation's effect on the served folders."""
from vcheck import acct
from vcheck.props import c02

ID = "C01"
SUB = "c01"
LEVEL = "proof"
RESILIENT = True
IMPL_TIMEOUT = 3000
RULE = ("single-device histories over 4 secret slots and up to 4 folders: create/update/delete/move, folder "
        "create/rename/describe/flags/delete, compaction, and sign-out+sign-in (reload) every few steps, file-system and "
        "SQLite backends; non-trivial = history has a delete, a move or folder delete, and a reload after edits; "
        "distinct by history")
TRUSTED_BASE = c02.TRUSTED_BASE
ASSUMPTIONS = c02.ASSUMPTIONS + ["archive/unarchive is a move and is exercised as such only when the account has an archive folder"]


def corpus():
    return [
        "c01 k1 cbe=fs sbe=fs devs=1 hist=c0:a|c0:b|u0:a|o0|x0:b|f0:1|m0:a:1|o0|r0:1:2|p0:1|k0:1|o0",
        "c01 k1db cbe=db sbe=fs devs=1 hist=c0:a|c0:b|u0:a|o0|x0:b|f0:1|m0:a:1|o0|r0:1:2|p0:1|k0:1|o0",
        "c01 k2 cbe=fs sbe=fs devs=1 hist=c0:a|c0:a|x0:a|u0:a|o0|c0:a|z0:0|o0|g0:0:4|o0",
    ]


def gen_cases(rng, tier):
    n = 40 if tier == "quick" else 1000
    out = []
    for j in range(n):
        ops, slots, fslots = [], ["a", "b", "c", "d"], ["0"]
        for _ in range(rng.randrange(8, 30)):
            r = rng.random()
            f = rng.choice(fslots)
            if r < 0.28: ops.append("c0:%s%s" % (rng.choice(slots), "" if f == "0" else "@" + f))
            elif r < 0.45: ops.append("u0:%s" % rng.choice(slots))
            elif r < 0.57: ops.append("x0:%s" % rng.choice(slots))
            elif r < 0.65 and len(fslots) < 4:
                k = str(len(fslots)); fslots.append(k); ops.append("f0:%s" % k)
            elif r < 0.74: ops.append("m0:%s:%s" % (rng.choice(slots), f))
            elif r < 0.79: ops.append("r0:%s:%d" % (f, rng.randrange(3)))
            elif r < 0.84: ops.append("p0:%s" % f)
            elif r < 0.87: ops.append("g0:%s:%d" % (f, rng.choice([0, 4, 128])))
            elif r < 0.90 and f != "0": ops.append("k0:%s" % f)
            elif r < 0.93: ops.append("z0:%s" % f)
            else: ops.append("o0")
        ops.append("o0")
        out.append("c01 g%d cbe=%s sbe=fs devs=1 hist=%s" % (j, "db" if j % 2 else "fs", "|".join(ops)))
    return out


model_input = c02.model_input
impl_projection = c02.impl_projection


def served(W):
    return {f: acct.folder_fields(v.get("served", "")) for f, v in W["folders"].items()}


def oracle(case, obs):
    steps, _ = acct.parse(obs)
    hist, kv = acct.hist_of(case)
    fails = list(c02.oracle(case, obs))          # served = replay = mirror at every step
    prev = {}
    slot_val = {}                                # slot -> value of the latest live secret of that slot
    for st in sorted(steps):
        S = steps[st]
        W = S["who"].get("D0")
        if W is None or W["state"] != "ok":
            continue
        cur = served(W)
        op, res = S["op"] or "", S["res"] or ""
        def fail(name, detail):
            fails.append({"oracle": name, "op": op[:1], "detail": "step %d (%s -> %s): %s" % (st, op, res, detail)})
        if True:
            allprev = sorted(x for f in prev.values() for x in f["items"])
            allcur = sorted(x for f in cur.values() for x in f["items"])
            kind = op[:1]
            parts = op.split(":")
            if res != "ok" or kind in ("o", "z", "w", "g", "r", "p", "t", "s"):
                if allcur != allprev:
                    fail("contents_unchanged", "secrets changed: %s -> %s" % (allprev, allcur))
                if kind == "o" and cur != prev and st > 1:
                    fail("reload_same", "after sign-out/sign-in the account serves %s, before %s" % (cur, prev))
            elif kind == "c":
                slot = parts[1].split("@")[0]
                new = [x for x in allcur if x not in allprev]
                if len(allcur) != len(allprev) + 1 or len(new) != 1 or not new[0].startswith("L%s=" % slot):
                    fail("create_adds_one", "expected exactly one new secret L%s, got %s" % (slot, new))
                else:
                    slot_val[slot] = new[0]
            elif kind == "u":
                slot = parts[1]
                gone = [x for x in allprev if x not in allcur]; new = [x for x in allcur if x not in allprev]
                if len(gone) != 1 or len(new) != 1 or gone[0] != slot_val.get(slot) or not new[0].startswith("L%s=" % slot):
                    fail("update_replaces_one", "expected %s to be replaced by a new value, gone=%s new=%s" % (slot_val.get(slot), gone, new))
                else:
                    slot_val[slot] = new[0]
            elif kind == "x":
                slot = parts[1]
                gone = [x for x in allprev if x not in allcur]
                if len(allcur) != len(allprev) - 1 or gone != [slot_val.get(slot)]:
                    fail("delete_removes_one", "expected %s removed, gone=%s" % (slot_val.get(slot), gone))
                slot_val.pop(slot, None)
            elif kind == "m":
                if allcur != allprev:
                    fail("move_keeps_contents", "contents changed over a move: %s -> %s" % (allprev, allcur))
                v = slot_val.get(parts[1])
                where = [f for f, d in cur.items() if v in d["items"]]
                if len(where) != 1:
                    fail("move_one_folder", "moved secret %s is served by folders %s" % (v, where))
            elif kind == "k":
                f = "f" + parts[1]
                lost = prev.get(f, {"items": []})["items"]
                if f in cur:
                    fail("folder_deleted", "folder %s still served" % f)
                if sorted(allprev) != sorted(allcur + lost):
                    fail("folder_delete_contents", "deleting %s should remove exactly %s" % (f, lost))
                for s, v in list(slot_val.items()):
                    if v in lost: slot_val.pop(s)
        prev = cur
    return fails


def nontrivial(case, obs):
    hist, _ = acct.hist_of(case)
    kinds = [h[0] for h in hist]
    return "x" in kinds and ("m" in kinds or "k" in kinds) and "o" in kinds


distinct_key = c02.distinct_key
distribution = c02.distribution


def shrink(case):
    hist, kv = acct.hist_of(case)
    head = "c01 s cbe=%s sbe=fs devs=1 hist=" % kv.get("cbe", "fs")
    return [head + "|".join(hist[:i] + hist[i + 1:]) for i in range(len(hist)) if len(hist) > 1]


MANIFEST = {
    "category": "proof",
    "text": ("Coq theorems: the folder store refines a finite map (read-after-write, deleted absent, other ids untouched, "
             "listing = live ids, a moved secret is in exactly one folder) and reload = replay of the persisted log yields "
             "the state the operations produced. Tied to the code by single-device histories on both backends with "
             "sign-out/sign-in reloads: per-operation effect oracle on the served folders, served = replay = mirror, and the "
             "extracted folder model replaying the observed decrypted event traces"),
    "design_ref": "DESIGN.md §4 C01",
    "note": "encryption symbolic; archive/unarchive exercised only as moves",
    "technique": "Coq proof (map refinement + replay lemma) + real-account differential run with reloads",
}
