(* C03 — where plaintext-derived bytes may sit in what is stored and sent.
   Every write event splits into PUBLIC chunks (event tag, secret id, commit hash, length
   fields, nonces) and CIPHERTEXT chunks (the AeadPack ciphertexts).  The split is exact
   (concatenating it gives the encoding back) and the public chunks are a function of the
   public fields and the ciphertext lengths only.  Definitions only. *)
From Coq Require Import List NArith.
From SosModel Require Import base.Bytes gen.Generated model.Formats.
Import ListNotations.
Local Open Scope N_scope.

(* public part of an AeadPack encoding: nonce size, nonce, ciphertext length *)
Definition aead_pub (a : aead) : bytes :=
  match a_nonce a with
  | Nonce12 b => e_u8 12 ++ b
  | Nonce24 b => e_u8 24 ++ b
  end ++ e_u32 (lenb (a_ct a)).

(* chunks: (public bytes, ciphertext bytes following them) *)
Definition split_vcommit (v : vcommit) : list (bytes * bytes) :=
  [ (vc_commit v ++ e_u32 (lenb (e_aead (vc_meta v) ++ e_aead (vc_secret v))) ++ aead_pub (vc_meta v), a_ct (vc_meta v));
    (aead_pub (vc_secret v), a_ct (vc_secret v)) ].

Definition prepend (p : bytes) (l : list (bytes * bytes)) : list (bytes * bytes) :=
  match l with
  | [] => [(p, [])]
  | (q, c) :: r => (p ++ q, c) :: r
  end.

Definition split_event (e : write_event) : list (bytes * bytes) :=
  match e with
  | WCreateVault b => [(e_u16 EK_CREATE_VAULT ++ e_u32 (lenb b), b)]   (* an encoded vault: its own header + rows; opaque here *)
  | WSetVaultName s => [(e_u16 EK_SET_VAULT_NAME ++ e_bytes32 s, [])]  (* folder names are public *)
  | WSetVaultFlags f => [(e_u16 EK_SET_VAULT_FLAGS ++ e_u64 f, [])]
  | WSetVaultMeta a => [(e_u16 EK_SET_VAULT_META ++ aead_pub a, a_ct a)]
  | WCreateSecret id c => prepend (e_u16 EK_CREATE_SECRET ++ id) (split_vcommit c)
  | WUpdateSecret id c => prepend (e_u16 EK_UPDATE_SECRET ++ id) (split_vcommit c)
  | WDeleteSecret id => [(e_u16 EK_DELETE_SECRET ++ id, [])]
  end.

Definition join (l : list (bytes * bytes)) : bytes := flat_map (fun pc => fst pc ++ snd pc) l.
Definition publics (l : list (bytes * bytes)) : list bytes := map fst l.
Definition ct_lengths (l : list (bytes * bytes)) : list N := map (fun pc => lenb (snd pc)) l.

(* two events agree on everything public: constructor, id, commit, nonces, ciphertext lengths
   (and, for the name / flags events, the public value itself) *)
Definition same_pub_aead (a b : aead) : Prop := a_nonce a = a_nonce b /\ lenb (a_ct a) = lenb (a_ct b).
Definition same_pub_vcommit (v w : vcommit) : Prop :=
  vc_commit v = vc_commit w /\ same_pub_aead (vc_meta v) (vc_meta w) /\ same_pub_aead (vc_secret v) (vc_secret w).
Definition same_public (e f : write_event) : Prop :=
  match e, f with
  | WSetVaultMeta a, WSetVaultMeta b => same_pub_aead a b
  | WCreateSecret i v, WCreateSecret j w => i = j /\ same_pub_vcommit v w
  | WUpdateSecret i v, WUpdateSecret j w => i = j /\ same_pub_vcommit v w
  | WSetVaultName s, WSetVaultName t => s = t
  | WSetVaultFlags x, WSetVaultFlags y => x = y
  | WDeleteSecret i, WDeleteSecret j => i = j
  | _, _ => False
  end.
