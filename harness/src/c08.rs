//! C08: commit tree comparison.  Case line:
//!   c08 <id> A=<sym,sym,..> B=<sym,..> inc=<k>
//! Leaf for symbol s is SHA-256 of the single byte s.  `inc` = number of leaves of each
//! tree committed in a first commit (the rest in a second), to exercise incremental commits.
use sos_core::commit::{CommitProof, CommitTree, Comparison};
use std::io::Write;

pub fn leaf(sym: u8) -> [u8; 32] {
    CommitTree::hash(&[sym])
}

pub fn parse_syms(s: &str) -> Vec<u8> {
    if s.is_empty() {
        return vec![];
    }
    s.split(',').map(|x| x.parse::<u8>().unwrap()).collect()
}

pub fn build(syms: &[u8], inc: usize) -> CommitTree {
    let mut t = CommitTree::new();
    let leaves: Vec<[u8; 32]> = syms.iter().map(|s| leaf(*s)).collect();
    let k = inc.min(leaves.len());
    if k > 0 {
        let mut first = leaves[..k].to_vec();
        t.append(&mut first);
        t.commit();
    }
    if k < leaves.len() {
        let mut rest = leaves[k..].to_vec();
        t.append(&mut rest);
        t.commit();
    }
    t
}

pub fn fmt_proof(p: &CommitProof) -> String {
    let hashes: String =
        p.proof.proof_hashes().iter().map(hex::encode).collect::<Vec<_>>().join("");
    let idx: Vec<String> = p.indices.iter().map(|i| i.to_string()).collect();
    format!("{}:{}:{}:{}", hex::encode(p.root.0), p.length, idx.join(","), hashes)
}

pub fn fmt_cmp(c: &Result<Comparison, sos_core::Error>) -> String {
    match c {
        Ok(Comparison::Equal) => "E".to_string(),
        Ok(Comparison::Contains(ix)) => {
            let idx: Vec<String> = ix.iter().map(|i| i.to_string()).collect();
            format!("C[{}]", idx.join(","))
        }
        Ok(Comparison::Unknown) => "U".to_string(),
        Err(_) => "ERR".to_string(),
    }
}

pub fn run(text: &str, out: &mut impl Write) {
    for line in text.lines() {
        let line = line.trim();
        if line.is_empty() || line.starts_with('#') {
            continue;
        }
        let toks: Vec<&str> = line.split_whitespace().collect();
        let id = toks[1];
        let mut a = vec![];
        let mut b = vec![];
        let mut inc = 0usize;
        for t in &toks[2..] {
            if let Some(v) = t.strip_prefix("A=") {
                a = parse_syms(v);
            } else if let Some(v) = t.strip_prefix("B=") {
                b = parse_syms(v);
            } else if let Some(v) = t.strip_prefix("inc=") {
                inc = v.parse().unwrap();
            }
        }
        let ta = build(&a, inc);
        let tb = build(&b, inc);
        let rh = |t: &CommitTree| t.root_hex().unwrap_or_else(|| "-".into());
        writeln!(out, "{id} rootA={}", rh(&ta)).unwrap();
        writeln!(out, "{id} rootB={}", rh(&tb)).unwrap();
        let ha = ta.head().ok();
        let hb = tb.head().ok();
        writeln!(out, "{id} headA={}", ha.as_ref().map(fmt_proof).unwrap_or("-".into()))
            .unwrap();
        writeln!(out, "{id} headB={}", hb.as_ref().map(fmt_proof).unwrap_or("-".into()))
            .unwrap();
        if let Some(hb) = &hb {
            writeln!(out, "{id} cmpA_headB={}", fmt_cmp(&ta.compare(hb))).unwrap();
        }
        if let Some(ha) = &ha {
            writeln!(out, "{id} cmpB_headA={}", fmt_cmp(&tb.compare(ha))).unwrap();
        }
        let la: Vec<[u8; 32]> = ta.leaves().unwrap_or_default();
        for i in 0..b.len() {
            let p = tb.proof(&[i]).unwrap();
            writeln!(out, "{id} proofB i={i} {}", fmt_proof(&p)).unwrap();
            let (ok, _) = p.verify_leaves(&la);
            writeln!(out, "{id} vl i={i} {}", ok as u8).unwrap();
            if !a.is_empty() {
                writeln!(out, "{id} cmpi i={i} {}", fmt_cmp(&ta.compare(&p))).unwrap();
            }
        }
    }
}
