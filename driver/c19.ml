(* Upgrade model: the logs of the upgraded replica as observed BEFORE the upgrade (token
   sequences per log) are imported, log after log, into an events table that already holds
   unrelated rows; the extracted [db_log] of every log is printed in the format of the harness'
   log lines AFTER the upgrade.
   input:  c19 <case> <step> <who> <name>=<tok,tok,..> <name>=<..> ...                     *)
open Model
open Glue

let run_line (line : string) : unit =
  match String.split_on_char ' ' line |> List.filter (fun s -> s <> "") with
  | _ :: case :: step :: who :: logs when logs <> [] ->
    let store = List.filter_map (fun l ->
      match String.index_opt l '=' with
      | Some k ->
        let name = String.sub l 0 k in
        let toks = split_on ',' (String.sub l (k + 1) (String.length l - k - 1)) in
        Some (name, List.map (fun t -> { er_time = t; er_commit = t; er_data = t }) toks)
      | None -> None) logs in
    (* rows of another account share the table *)
    let foreign = [("other-account-log", { er_time = "z"; er_commit = "z"; er_data = "z" })] in
    let table = import store foreign in
    List.iter (fun (name, _) ->
      let recs = db_log String.equal table name in
      Printf.printf "%s %s %s log %s toks=%s\n" case step who name
        (String.concat "," (List.map (fun r -> r.er_commit) recs))) store
  | _ :: case :: _ -> Printf.printf "%s unmodelled\n" case
  | _ -> ()
