(* Sync protocol model on one log: input line
     <sub> <case> <step> <log> D=<tok@time,..> S=<tok@time,..>
   (logs of the device and of the server BEFORE a sync that succeeded, as observed);
   output: <case> <step> <log> dev=<toks> srv=<toks>   (the model's logs AFTER the sync).
   The comparison function is the collision-free idealisation characterised by C08:
   Equal iff same sequence; Contains iff the other's last leaf sits at the same index here. *)
open Model
open Glue

let parse_recs (s : string) : (string, n, string) erec list =
  List.map (fun x -> match String.split_on_char '@' x with
    | [t; time] -> { er_time = n_of_int (int_of_string time); er_commit = t; er_data = "" }
    | _ -> failwith ("bad record " ^ x)) (split_on ',' s)

let cmpf (a : string list) (b : string list) : cmp3 =
  if a = b then CEq
  else match List.rev b with
    | [] -> CUnknown
    | last :: _ ->
      (match List.nth_opt a (List.length b - 1) with
       | Some x when x = last -> CContains
       | _ -> CUnknown)

let toks l = String.concat "," (List.map (fun r -> r.er_commit) l)

let run_line (line : string) : unit =
  let t = String.split_on_char ' ' line |> List.filter (fun s -> s <> "") in
  match t with
  | _ :: case :: step :: log :: rest when List.length rest >= 1 ->
    let d = parse_recs (match kv rest "D" with Some v -> v | None -> "") in
    let s = parse_recs (match kv rest "S" with Some v -> v | None -> "") in
    let ((outcome, d'), s') = sync_log String.equal cmpf d s in
    (match outcome with
     | SyncOk -> Printf.printf "%s %s %s dev=%s srv=%s\n" case step log (toks d') (toks s')
     | SyncConflictUnresolved -> Printf.printf "%s %s %s unresolved\n" case step log)
  | _ :: case :: _ -> Printf.printf "%s unmodelled\n" case
  | _ -> ()
