(* One event log in the sync protocol, sequential (atomic request) semantics, transcribed from
   protocol/src/diff.rs (SyncComparison::diff), storage/server/src/server_helpers.rs
   (sync_account, event_scan, event_diff, event_patch) and remote_sync/src/auto_merge.rs
   (scan_proofs, try_merge_from_ancestor, merge_patches, push_remote, rewind_local,
   hard conflict -> force merge).  Logs are lists of records; commit trees are their commit
   lists; the tree comparison is a parameter [cmpf] whose laws are those that C08 proves for
   CommitTree::compare modulo explicit hash collisions.  Definitions only. *)
From Coq Require Import List NArith Bool.
From SosModel Require Import model.EventLog model.MergePatches.
Import ListNotations.

Section SyncProto.
Variable hash : Type.
Variable hash_eqb : hash -> hash -> bool.
Variable dat : Type.
Notation rec := (@erec hash N dat).
Definition slog := list rec.
Definition commits (l : slog) : list hash := map er_commit l.

Inductive cmp3 := CEq | CContains | CUnknown.
(* cmpf local other = CommitTree::compare(local, head(other)) *)
Variable cmpf : list hash -> list hash -> cmp3.

(* diff_records(Some(c)): the records after the LAST record whose commit is c *)
Fixpoint after_last_aux (c : hash) (l : slog) (acc : option slog) : option slog :=
  match l with
  | [] => acc
  | r :: rest =>
      let acc' := match acc with Some a => Some (a ++ [r]) | None => None end in
      if hash_eqb (er_commit r) c then after_last_aux c rest (Some [])
      else after_last_aux c rest acc'
  end.
Definition after_last (c : hash) (l : slog) : option slog := after_last_aux c l None.
(* rewind(c): keep up to and including the last record with commit c *)
Definition upto_last (c : hash) (l : slog) : option slog :=
  match after_last c l with
  | Some s => Some (firstn (length l - length s) l)
  | None => None
  end.

Definition last_commit (l : slog) : option hash :=
  match rev l with [] => None | r :: _ => Some (er_commit r) end.

(* ---- the scan for a common ancestor (event_scan pages + iterate_scan_proofs) ----
   the server's proofs are visited from its last leaf downwards; the first index at which the
   local leaf equals the server's leaf is the ancestor; the first proof (index 0) must match
   or the conflict is hard *)
Fixpoint scan_down (n : nat) (dev srv : list hash) : option nat :=
  match n with
  | O => None
  | S i =>
      match nth_error dev i, nth_error srv i with
      | Some a, Some b => if hash_eqb a b then Some i else scan_down i dev srv
      | _, _ => scan_down i dev srv
      end
  end.
Inductive scan_result := ScanAncestor (i : nat) (c : hash) | ScanHard.
Definition scan (dev srv : slog) : scan_result :=
  match commits dev, commits srv with
  | d0 :: _, s0 :: _ =>
      if hash_eqb d0 s0 then
        match scan_down (length srv) (commits dev) (commits srv) with
        | Some i => match nth_error (commits dev) i with Some c => ScanAncestor i c | None => ScanHard end
        | None => ScanHard
        end
      else ScanHard
  | _, _ => ScanHard
  end.

Inductive sync_outcome := SyncOk | SyncConflictUnresolved.

(* one sync of one log: returns (outcome, device log, server log) *)
Definition sync_log (dev srv : slog) : sync_outcome * slog * slog :=
  match cmpf (commits dev) (commits srv) with
  | CEq => (SyncOk, dev, srv)
  | CContains =>
      (* local is ahead: push everything after the server's last commit; the server's checked
         patch applies because its head is the checkpoint the client computed against *)
      match last_commit srv with
      | Some c => match after_last c dev with
                  | Some patch => (SyncOk, dev, srv ++ patch)
                  | None => (SyncConflictUnresolved, dev, srv)
                  end
      | None => (SyncConflictUnresolved, dev, srv)
      end
  | CUnknown =>
      match cmpf (commits srv) (commits dev) with
      | CContains =>
          (* the server is ahead: it sends everything after the device's last commit *)
          match last_commit dev with
          | Some c => match after_last c srv with
                      | Some patch => (SyncOk, dev ++ patch, srv)
                      | None => (SyncConflictUnresolved, dev, srv)
                      end
          | None => (SyncConflictUnresolved, dev, srv)
          end
      | CEq => (SyncOk, dev, srv)
      | CUnknown =>
          (* soft conflict: auto merge *)
          match scan dev srv with
          | ScanHard => (SyncOk, srv, srv)                 (* force merge: local replaced *)
          | ScanAncestor _ c =>
              match after_last c dev, after_last c srv, upto_last c dev, upto_last c srv with
              | Some l, Some r, Some pd, Some ps =>
                  match merge_patches hash hash_eqb dat l r with
                  | RewindLocal rs => (SyncOk, pd ++ rs, srv)
                  | PushRemote m => (SyncOk, pd ++ m, ps ++ m)
                  end
              | _, _, _, _ => (SyncConflictUnresolved, dev, srv)
              end
          end
      end
  end.
End SyncProto.
