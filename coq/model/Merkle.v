(* Model of the commit tree: rs_merkle 1.5 (PartialTree::build_tree, MerkleTree::proof,
   MerkleProof::root/verify, utils::indices) as used by sos_core::commit::{CommitTree,
   CommitProof}.  Single-index proofs (what the SDK generates: head(), proof(&[i])).
   Definitions only; proofs live in proofs/Merkle_Lemmas.v. *)
From Coq Require Import List NArith Bool.
Import ListNotations.
Local Open Scope N_scope.

Section Merkle.
Variable hash : Type.
Variable hash_eqb : hash -> hash -> bool.
Variable H2 : hash -> hash -> hash.          (* Hasher::concat_and_hash(l, Some r) *)

(* one step of PartialTree::build_tree over a complete layer: pairs are hashed, a last odd
   node is promoted unchanged (concat_and_hash(l, None) = l) *)
Fixpoint next_layer (l : list hash) : list hash :=
  match l with
  | a :: b :: r => H2 a b :: next_layer r
  | [a] => [a]
  | [] => []
  end.

(* utils::indices::tree_depth: bit length of the leaf count *)
Definition tree_depth (n : N) : nat := N.to_nat (N.size n).

Fixpoint iter_layer (d : nat) (l : list hash) : list hash :=
  match d with O => l | S d' => iter_layer d' (next_layer l) end.

Definition lenN (l : list hash) : N := N.of_nat (length l).

Definition root (l : list hash) : option hash :=
  match l with
  | [] => None
  | _ => hd_error (iter_layer (tree_depth (lenN l)) l)
  end.

Definition div_ceil2 (n : N) : N := n / 2 + (if n mod 2 =? 0 then 0 else 1).

Definition sibling (i : N) : N := if N.even i then i + 1 else i - 1.

(* MerkleTree::proof(&[i]) = helper_nodes: over the depth+1 stored layers, the sibling of the
   current node where that node exists *)
Fixpoint proof_hashes (d : nat) (l : list hash) (i : N) : list hash :=
  let here := match nth_error l (N.to_nat (sibling i)) with Some x => [x] | None => [] end in
  match d with
  | O => here
  | S d' => here ++ proof_hashes d' (next_layer l) (i / 2)
  end.

(* MerkleProof::root(&[i], &[h], n) for one index: per layer a sibling hash is consumed
   unless i is the last node of an odd layer; surplus hashes are ignored; missing -> Err *)
Fixpoint path_root (d : nat) (n i : N) (h : hash) (ps : list hash) : option hash :=
  match d with
  | O => Some h
  | S d' =>
      if N.odd n && (i =? n - 1) then path_root d' (div_ceil2 n) (i / 2) h ps
      else match ps with
           | [] => None
           | s :: ps' =>
               path_root d' (div_ceil2 n) (i / 2)
                         (if N.even i then H2 h s else H2 s h) ps'
           end
  end.

Definition verify_root (n i : N) (h : hash) (ps : list hash) : option hash :=
  path_root (tree_depth n) n i h ps.

(* CommitProof *)
Record proof := mkProof {
  p_root : hash; p_hashes : list hash; p_length : N; p_indices : list N }.

Definition proof_at (l : list hash) (i : N) : option proof :=
  match root l with
  | None => None
  | Some r => Some (mkProof r (proof_hashes (tree_depth (lenN l)) l i) (lenN l) [i])
  end.

Definition head (l : list hash) : option proof :=
  match l with [] => None | _ => proof_at l (lenN l - 1) end.

Inductive cmp_result := CmpEqual | CmpContains (ix : list N) | CmpUnknown.

(* MerkleProof::verify for the index lists the SDK sends: exactly one index.  Proofs with
   zero or several indices are outside this model (see multi-index note in DESIGN C08). *)
Definition verify1 (p : proof) (n : N) (leaves : list hash) : bool :=
  match p_indices p with
  | [i] =>
      match nth_error leaves (N.to_nat i) with
      | Some h =>
          match verify_root n i h (p_hashes p) with
          | Some r => hash_eqb r (p_root p)
          | None => false
          end
      | None => false
      end
  | _ => false
  end.

(* CommitTree::compare *)
Definition tree_compare (leaves : list hash) (p : proof) : option cmp_result :=
  match root leaves with
  | None => None                                         (* Error::NoRootCommit *)
  | Some r =>
      if hash_eqb r (p_root p) then Some CmpEqual
      else if verify1 p (p_length p) leaves then Some (CmpContains (p_indices p))
      else Some CmpUnknown
  end.

(* CommitProof::verify_leaves: the tree size is the proof's own length (the pinned tree
   passed the verifier's leaf count here; see known_findings.json, fixed entry C08-O2) *)
Definition verify_leaves (p : proof) (leaves : list hash) : bool :=
  verify1 p (p_length p) leaves.

(* the behaviour of the pinned tree before the fix, kept for the regression witness *)
Definition verify_leaves_pinned (p : proof) (leaves : list hash) : bool :=
  verify1 p (lenN leaves) leaves.

End Merkle.

Arguments mkProof {hash}.
Arguments p_root {hash}. Arguments p_hashes {hash}.
Arguments p_length {hash}. Arguments p_indices {hash}.
