//! C07 (server side): rewind-and-patch requests against a real ServerStorage, every log type.
//! Case: "c07 <id> mode=server sbe=fs|db reqs=<req>|<req>|..."
//!   req = <log>:<proof>:<commit>:<n>
//!     log    : identity | account | device | files | folder
//!     proof  : head (of the whole log now) | default (CommitProof::default()) | prev (head before
//!              the previous accepted request on that log) | other (head of the identity log)
//!     commit : none | last | first | i<k>  (rewind target, index into the log)
//!     n      : number of fresh synthetic records in the patch
//! Output (format shared with c09): "<id> req 0 SRV <log> <hex,..>" initial logs, then per request
//!   "<id> req <n> dev=H kind=patch ok=<b> log=.. commit=.. proof=<root>/<len> patch=.. applied=<b>"
//!   and "<id> req <n> SRV <log> <hex,..>" for every log.
use crate::acct::World;
use crate::sync::{log_name, Gate};
use crate::util::kv;
use sos_core::{
    commit::{CommitHash, CommitProof, CommitTree},
    events::{patch::CheckedPatch, AccountEvent, DeviceEvent, EventLogType, EventRecord, FileEvent, WriteEvent},
    SecretPath, UtcDateTime, VaultId,
};
use sos_protocol::PatchRequest;
use sos_server_storage::server_helpers;
use std::collections::HashMap;
use std::io::Write;

async fn synth(log: &EventLogType, k: u64, folder: &VaultId) -> EventRecord {
    let mut b = [0u8; 16];
    b[..8].copy_from_slice(&k.to_le_bytes());
    b[6] = 0x40;
    let id = uuid::Uuid::from_bytes(b);
    let bytes = match log {
        EventLogType::Account => sos_core::encode(&AccountEvent::RenameAccount(format!("name{k}"))).await.unwrap(),
        EventLogType::Device => {
            let mut key = [7u8; 32];
            key[..8].copy_from_slice(&k.to_le_bytes());
            sos_core::encode(&DeviceEvent::Revoke(key.into())).await.unwrap()
        }
        EventLogType::Files => {
            let mut name = [9u8; 32];
            name[..8].copy_from_slice(&k.to_le_bytes());
            sos_core::encode(&FileEvent::CreateFile(SecretPath(*folder, id), name.into())).await.unwrap()
        }
        _ => sos_core::encode(&WriteEvent::DeleteSecret(id)).await.unwrap(),
    };
    let commit = CommitHash(CommitTree::hash(&bytes));
    let t: UtcDateTime = (time::OffsetDateTime::from_unix_timestamp(1_800_000_000 + k as i64).unwrap()).into();
    EventRecord::new(t, Default::default(), commit, bytes)
}

pub async fn run_case(line: &str, base: &std::path::Path, out: &mut impl Write) {
    let toks: Vec<&str> = line.split_whitespace().collect();
    let id = toks[1];
    let sdb = kv(&toks, "sbe") == Some("db");
    let reqs: Vec<&str> = kv(&toks, "reqs").unwrap_or("").split('|').filter(|s| !s.is_empty()).collect();
    let mut w = World::new(base.join(id), false, sdb, 1, Gate::default()).await;
    let _ = w.step("c0:a").await;
    let _ = w.step("s0").await; // creates the account on the server
    let folder = *w.fslots.get("0").unwrap();
    let server = w.server.clone();
    let dump = |n: usize, logs: &std::collections::BTreeMap<String, Vec<[u8; 32]>>, out: &mut dyn Write| {
        for (name, leaves) in logs {
            writeln!(out, "{id} req {n} SRV {name} {}", leaves.iter().map(hex::encode).collect::<Vec<_>>().join(",")).unwrap();
        }
    };
    let mut logs = server.log_leaves().await;
    dump(0, &logs, out);
    let mut prev_heads: HashMap<String, CommitProof> = HashMap::new();
    let mut counter = 100u64;
    for (n, r) in reqs.iter().enumerate() {
        let p: Vec<&str> = r.split(':').collect();
        let log_type = match p[0] {
            "identity" => EventLogType::Identity,
            "account" => EventLogType::Account,
            "device" => EventLogType::Device,
            "files" => EventLogType::Files,
            _ => EventLogType::Folder(folder),
        };
        let name = log_name(&log_type);
        let leaves = logs.get(&name).cloned().unwrap_or_default();
        let head_of = |lv: &[[u8; 32]]| -> Option<CommitProof> {
            if lv.is_empty() { return None; }
            let mut t = CommitTree::new();
            let mut v = lv.to_vec();
            t.append(&mut v);
            t.commit();
            t.head().ok()
        };
        let proof = match p[1] {
            "head" => head_of(&leaves),
            "default" => Some(CommitProof::default()),
            "prev" => prev_heads.get(&name).cloned(),
            _ => head_of(&logs.get("identity").cloned().unwrap_or_default()),
        };
        let commit = match p[2] {
            "none" => None,
            "last" => leaves.last().copied().map(CommitHash),
            "first" => leaves.first().copied().map(CommitHash),
            k => k[1..].parse::<usize>().ok().and_then(|i| leaves.get(i).copied()).map(CommitHash),
        };
        let nrec: usize = p.get(3).and_then(|x| x.parse().ok()).unwrap_or(1);
        let Some(proof) = proof else {
            writeln!(out, "{id} req {} dev=H kind=skip ok=1 noproof", n + 1).unwrap();
            dump(n + 1, &logs, out);
            continue;
        };
        let mut patch = vec![];
        for _ in 0..nrec {
            counter += 1;
            patch.push(synth(&log_type, counter, &folder).await);
        }
        let details = format!(
            "log={name} commit={} proof={}/{} patch={}",
            commit.map(|c| hex::encode(c.as_ref())).unwrap_or("-".into()),
            hex::encode(proof.root.as_ref()),
            proof.length,
            patch.iter().map(|r| hex::encode(r.commit().as_ref())).collect::<Vec<_>>().join(";")
        );
        let before_head = head_of(&leaves);
        let req = PatchRequest { log_type, commit, proof, patch };
        let st = server.account().await.unwrap();
        let res = {
            let mut wst = st.write().await;
            server_helpers::event_patch::<_, crate::sync::SrvErr>(req, &mut *wst).await
        };
        let (ok, applied) = match &res {
            Ok((r, _)) => (true, matches!(r.checked_patch, CheckedPatch::Success(_))),
            Err(_) => (false, false),
        };
        if applied {
            if let Some(h) = before_head { prev_heads.insert(name.clone(), h); }
        }
        writeln!(out, "{id} req {} dev=H kind=patch ok={} {details} applied={}", n + 1, ok as u8, applied as u8).unwrap();
        logs = server.log_leaves().await;
        dump(n + 1, &logs, out);
    }
    crate::acct::set_clock(0);
    let _ = std::fs::remove_dir_all(base.join(id));
}
