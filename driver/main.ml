(* driver <prop> <cases.txt>: runs the extracted model on every case line *)
let () =
  C06.server_mode := C09.run_line;
  let prop = Sys.argv.(1) and file = Sys.argv.(2) in
  let ic = open_in file in
  let run = match prop with
    | "c03" -> C03.run_line
    | "c04" -> C04.run_line
    | "c16" -> C16.run_line
    | "c17" -> C17.run_line
    | "c18" -> C18.run_line
    | "c19" -> C19.run_line
    | "c20" -> C20.run_line
    | "c01" | "c02" -> C02.run_line
    | "c12" -> C12.run_line
    | "c05" -> C05.run_line
    | "c06" | "c07" -> C06.run_line
    | "c08" -> C08.run_line
    | "c09" -> C09.run_line
    | "c10" -> C10.run_line
    | "c11" -> C11.run_line
    | "c13" -> C13.run_line
    | "c14" | "c15" -> C14.run_line
    | _ -> prerr_endline ("unknown property " ^ prop); exit 2 in
  (try
     while true do
       let line = String.trim (input_line ic) in
       if line <> "" && line.[0] <> '#' then run line
     done
   with End_of_file -> ());
  close_in ic
