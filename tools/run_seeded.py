#!/usr/bin/env python3
"""tools/run_seeded.py <seeded-dir> <PROP> [<PROP>...]: applies seeded/<dir>/patch.diff to /repo, runs the
quick checks of the given properties, undoes the patch (git checkout -- .) and records the outcome in meta.json."""
import json, os, subprocess, sys
ROOT = os.path.dirname(os.path.dirname(os.path.abspath(__file__)))
d = os.path.abspath(sys.argv[1]); props = sys.argv[2:]
patch = os.path.join(d, "patch.diff")
assert subprocess.run(["git", "-C", "/repo", "status", "--porcelain"], capture_output=True, text=True).stdout.strip() == "", "/repo not clean"
subprocess.check_call(["git", "-C", "/repo", "apply", patch])
results = {}
try:
    for p in props:
        r = subprocess.run([os.path.join(ROOT, "bin", "check"), p], cwd=ROOT, capture_output=True, text=True)
        lines = [l for l in r.stdout.splitlines() if l.startswith("VIOLATION")]
        replay = ""
        if lines and "replay=" in lines[0]:
            path = lines[0].split("replay=")[1].split()[0]
            try: replay = open(path).read()[-600:]
            except OSError: pass
        results[p] = {"exit": r.returncode, "violation_line": lines[0] if lines else None, "replay_tail": replay}
        print(p, r.returncode, lines[0] if lines else "-")
finally:
    subprocess.check_call(["git", "-C", "/repo", "checkout", "--", "."])
    subprocess.run(["git", "-C", "/repo", "clean", "-fdq", "--", "tests", "crates"], check=False)
mp = os.path.join(d, "meta.json")
meta = json.load(open(mp)) if os.path.exists(mp) else {}
meta.setdefault("check_results", {}).update(results)
meta["detected_by"] = sorted(p for p, r in meta["check_results"].items() if r["exit"] == 1)
json.dump(meta, open(mp, "w"), indent=1)
