(* C09 — concurrent syncs from several devices are safe in every interleaving.
   Model: model/SrvReq.v — the server handles one request at a time (per-account write lock),
   so any interleaving of the devices' sync procedures is a sequence of requests.  For EVERY
   request sequence (any number of devices, any interleaving, any request contents):
   storage and tree stay in agreement, the log changes only by whole patches, a refused
   request changes nothing.  'No accepted event is dropped' holds for diff requests and is
   refuted for rewind-and-patch requests (a patch computed against a stale ancestor discards
   what another device pushed in between): see C09_no_drop_refuted / known finding.
   Not modelled: true parallelism inside a request, lock fairness, the tokio scheduler;
   termination of the client procedure is checked on the implementation (deadline), not proved. *)
From Coq Require Import List NArith.
From SosModel Require Import model.Merkle model.EventLog model.SrvReq proofs.EventLog_Lemmas proofs.SrvReq_Lemmas.
Import ListNotations.

Section C09.
Variable hash : Type.
Variable hash_eqb : hash -> hash -> bool.
Hypothesis hash_eqb_spec : forall a b, hash_eqb a b = true <-> a = b.
Variable H2 : hash -> hash -> hash.
Variables tm dat : Type.
Notation Inv := (Inv hash tm dat).
Notation srv_step := (srv_step hash hash_eqb H2 tm dat).

Theorem C09_log_wellformed qs l : Inv l -> Inv (srv_run hash hash_eqb H2 tm dat l qs).
Proof. exact (run_inv hash hash_eqb hash_eqb_spec H2 tm dat qs l). Qed.

Theorem C09_whole_patches l q l' ok : Inv l -> srv_step l q = (l', ok) ->
  (ok = false -> l' = l) /\
  (ok = true ->
     l' = l \/ (exists patch, l_recs l' = l_recs l ++ patch) \/
     (exists kept removed patch, l_recs l = kept ++ removed /\ l_recs l' = kept ++ patch)).
Proof. exact (step_shape hash hash_eqb hash_eqb_spec H2 tm dat l q l' ok). Qed.

Theorem C09_no_drop_partial_diff l r patch l' ok :
  srv_step l (ReqDiff r patch) = (l', ok) -> exists s, l_recs l' = l_recs l ++ s.
Proof. exact (diff_keeps_everything hash hash_eqb H2 tm dat l r patch l' ok). Qed.

Theorem C09_patch_drops_only_after_ancestor l c r patch l' : Inv l ->
  srv_step l (ReqPatch c r patch) = (l', true) ->
  exists kept removed, l_recs l = kept ++ removed /\ l_recs l' = kept ++ patch /\
                       Forall (fun x => er_commit x <> c) removed.
Proof. exact (patch_drops_only_after_c hash hash_eqb hash_eqb_spec H2 tm dat l c r patch l'). Qed.
End C09.

(* refutation of the unrestricted 'no accepted event is dropped': D0 computed a patch against
   ancestor 1; meanwhile the server accepted 2 and 3; D0's patch request removes them *)
Theorem C09_no_drop_refuted :
  srv_step nat Nat.eqb (fun a b => a * 1000 + b) nat nat
    (mkElog [mkErec 0 1 0; mkErec 0 2 0; mkErec 0 3 0] [1; 2; 3])
    (ReqPatch 1 1 [mkErec 0 4 0])
  = (mkElog [mkErec 0 1 0; mkErec 0 4 0] [1; 4], true).
Proof. reflexivity. Qed.

Print Assumptions C09_log_wellformed.
Print Assumptions C09_whole_patches.
Print Assumptions C09_no_drop_partial_diff.
Print Assumptions C09_patch_drops_only_after_ancestor.
Print Assumptions C09_no_drop_refuted.
