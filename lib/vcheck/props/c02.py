"""C02 — a folder always equals the replay of its own event log.
Real accounts (2 devices + server storage, in process) run generated histories of local edits,
syncs (fast-forward merges, auto-merges with rewinds, forced overwrites) and compactions; after
every step every folder of every device is observed three ways — as served by the account, as
replayed from its persisted event log by the real FolderReducer, and as stored in the vault
mirror — all decrypted with the folder key, and must agree."""
from vcheck import acct

ID = "C02"
SUB = "c02"
LEVEL = "proof"
RESILIENT = True
IMPL_TIMEOUT = 3000
RULE = ("generated histories: edits of 4 secret slots from 2 devices (create/update/delete/move, folder create/rename/"
        "describe, compaction), syncs at random points (fast-forward, soft-conflict auto merge, hard conflict), clock "
        "steps incl. ties and reversed clocks; two backends for the client; non-trivial = history has >= 3 op kinds, a "
        "delete, and a sync after both devices edited the same slot; distinct by history")
TRUSTED_BASE = ["model/Folder.v transcribes FolderReducer::{reduce,build,compact}, Vault::{insert,update,delete}_secret and "
                "the merge replay of folder_sync.rs at the level of decrypted values",
                "harness decrypts served / replayed / mirrored vaults with the folder key and compares them"]
ASSUMPTIONS = ["encryption is symbolic in the model (values are compared decrypted)",
               "order of secrets inside a folder is not part of the comparison (the property speaks of the set of ids)"]


def corpus():
    return [
        # delete on one device, later update on the other: the merged log resurrects, the replayed vault did not (O12)
        "c02 k_del_upd cbe=fs sbe=fs devs=2 hist=s0|c0:a|s0|s1|t:100|x0:a|t:200|u1:a|s0|s1|s0|s1",
        "c02 k_del_upd_db cbe=db sbe=fs devs=2 hist=s0|c0:a|s0|s1|t:100|x0:a|t:200|u1:a|s0|s1|s0|s1",
        "c02 k_compact cbe=fs sbe=fs devs=2 hist=s0|c0:a|c0:b|x0:a|g0:0:5|z0:0|s0|s1",
        "c02 k_both_create cbe=fs sbe=fs devs=2 hist=s0|s1|t:50|c0:a|t:60|c1:b|s0|s1|s0|s1",
        # forced overwrite (what a hard conflict does): the incoming folder grows / shrinks the stored vault
        "c02 k_force_grow cbe=fs sbe=fs devs=2 hist=c0:a|c0:b|u0:a|p0:0|c1:c|h1:0:0|o1",
        "c02 k_force_grow_db cbe=db sbe=fs devs=2 hist=c0:a|c0:b|u0:a|p0:0|c1:c|h1:0:0|o1",
        "c02 k_force_shrink cbe=fs sbe=fs devs=2 hist=c1:a|c1:b|c1:c|h1:0:0|o1",
        "c02 k_force_shrink_db cbe=db sbe=fs devs=2 hist=c1:a|c1:b|c1:c|h1:0:0|o1",
        # a folder imported as a copy of an existing one (same secret ids in two folders)
        "c02 k_import_copy cbe=fs sbe=fs devs=2 hist=c0:a|c0:b|i0:0|u0:a|x0:b|o0",
        "c02 k_import_copy_db cbe=db sbe=fs devs=2 hist=c0:a|c0:b|i0:0|u0:a|o0",
    ]


def gen_cases(rng, tier):
    n = 40 if tier == "quick" else 1500
    out = []
    for j in range(n):
        h = acct.gen_history(rng, 2, rng.randrange(6, 16), with_folders=(j % 3 == 0), extra_ops=("z%(d)d:%(f)s", "p%(d)d:%(f)s", "h%(d)d:0:%(o)d", "h%(d)d:0:%(o)d", "o%(d)d"))
        out.append("c02 g%d cbe=%s sbe=%s devs=2 hist=%s" % (j, "db" if j % 4 == 1 else "fs", "db" if j % 5 == 2 else "fs", "|".join(h)))
    return out


def diverged(obs):
    """(step, device, folder) where the served folder differs from the real reducer's replay of its log: the oracle
    reports those (served_eq_replay); the model replay is compared only where the implementation agrees with itself"""
    served, reduced = {}, {}
    for o in obs:
        t = o.split()
        if len(t) >= 5 and t[2] == "folder" and t[4] in ("served", "reduced"):
            (served if t[4] == "served" else reduced)[(t[0], t[1], t[3])] = " ".join(t[5:])
    return set(k for k in served if k in reduced and served[k] != reduced[k])


def model_input(cases, impl):
    """one model line per (step, device, folder): the decrypted event trace observed on the implementation"""
    out = []
    for c in cases:
        cid = c.split()[1]
        n = 0
        skip = diverged(impl.get(cid, []))
        for o in impl.get(cid, []):
            t = o.split()
            if len(t) >= 5 and t[0].startswith("!") and t[2] == "events":
                if (t[0][1:], t[1], t[3]) in skip:
                    continue
                out.append("%s %s %s %s %s %s" % (SUB, cid, t[0][1:], t[1], t[3], t[4] if len(t) > 4 else ""))
                n += 1
        if n == 0:
            out.append("%s %s" % (SUB, cid))
    return out


def impl_projection(obs):
    """the implementation's served-folder lines, with the decrypted text normalised like the trace"""
    out = []
    skip = diverged(obs)
    for o in obs:
        t = o.split()
        if len(t) >= 5 and t[2] == "folder" and t[4] == "served" and (t[0], t[1], t[3]) not in skip:
            out.append(o)
    return out


def oracle(case, obs):
    steps, _ = acct.parse(obs)
    hist, kv = acct.hist_of(case)
    fails = []
    if "abort" in obs or "panic" in " ".join(obs[:3]):
        return [{"oracle": "harness_crash", "detail": "harness aborted on this history"}]
    if len(steps) < len(hist):
        fails.append({"oracle": "no_observation", "detail": "history has %d steps, %d observed" % (len(hist), len(steps))})
    # a folder imported as a copy on the database backend (same secret ids under another folder): everything observed on
    # that device from then on carries the mark (finding C02-db-import-copy-reparents-secrets)
    copied_db = {}
    for st in sorted(steps):
        S = steps[st]
        op = S["op"] or ""
        if op[:1] == "i" and kv.get("cbe") == "db" and S["res"] == "ok":
            copied_db["D" + op[1:2]] = True
        for who, W in S["who"].items():
            if not who.startswith("D"): continue
            mark = {"after_db_import_copy": 1} if copied_db.get(who) else {}
            for f, views in W["folders"].items():
                srv = views.get("served"); red = views.get("reduced"); mir = views.get("mirror")
                if srv is None or red is None or mir is None: continue
                a, b, c = acct.folder_fields(srv), acct.folder_fields(red), acct.folder_fields(mir)
                if red.startswith("ERR") or mir.startswith("ERR"):
                    fails.append({"oracle": "replay_readable", "view": "reduced" if red.startswith("ERR") else "mirror",
                                  "op": (S["op"] or "")[:1], "detail": "step %d %s folder %s: %s" % (st, who, f, (red if red.startswith("ERR") else mir)[:120])})
                    continue
                for key in ("name", "flags", "desc", "items"):
                    if a.get(key) != b.get(key):
                        fails.append({"oracle": "served_eq_replay", "field": key, "op": (S["op"] or "")[:1], **mark,
                                      "detail": "step %d (%s) %s folder %s: served %s=%s but replay of the log gives %s" % (st, S["op"], who, f, key, a.get(key), b.get(key))})
                    if a.get(key) != c.get(key):
                        fails.append({"oracle": "served_eq_mirror", "field": key, "op": (S["op"] or "")[:1], **mark,
                                      "detail": "step %d (%s) %s folder %s: served %s=%s but the vault mirror holds %s" % (st, S["op"], who, f, key, a.get(key), c.get(key))})
    return fails


def nontrivial(case, obs):
    hist, _ = acct.hist_of(case)
    kinds = set(h[0] for h in hist)
    return len(kinds - {"s", "t"}) >= 3 and "x" in kinds


def distinct_key(case):
    return case.split(" ", 2)[2]


def shrink(case):
    hist, kv = acct.hist_of(case)
    head = "%s s cbe=%s sbe=%s devs=%s hist=" % (case.split()[0], kv.get("cbe", "fs"), kv.get("sbe", "fs"), kv.get("devs", "2"))
    return [head + "|".join(hist[:i] + hist[i + 1:]) for i in range(len(hist)) if len(hist) > 1]


def distribution(cases, impl):
    kinds, res = {}, {}
    for c in cases:
        for h in acct.hist_of(c)[0]:
            kinds[h[0]] = kinds.get(h[0], 0) + 1
    for cid, obs in impl.items():
        for o in obs:
            if " op=s" in " " + o and " res=" in o:
                r = o.split(" res=")[1].split(":")[0:2]
                k = ":".join(r)[:12]
                res[k] = res.get(k, 0) + 1
    return {"op_kinds": kinds, "sync_results": res}


MANIFEST = {
    "category": "proof",
    "text": ("Coq theorems over the folder model: the vault is the fold of the reducer step over the log for local edits, "
             "merge replay, forced overwrites and compaction; the decrypted folder is determined by the last event per id, "
             "so replaying merged events over a vault that already holds the local ones gives the same folder as replaying "
             "the converged log. The model is tied to the code by running real accounts through generated histories and "
             "comparing, after every step, the served folder, the real reducer's replay of the persisted log and the vault "
             "mirror, decrypted"),
    "design_ref": "DESIGN.md §4 C02",
    "note": "encryption symbolic; order of secrets not compared; trusts Coq kernel, extraction, harness decryption",
    "technique": "Coq proof (fold/last-writer lemmas over the reducer step) + real-account differential run (served vs replayed vs mirror)",
}
