(* C14 — every stored and transmitted type survives encode/decode unchanged.
   For every format of model/Formats.v: decode (encode v ++ rest) = Some (v, rest) for every
   well-formed v (wf_* state exactly what the encoder truncates / the decoder rejects), and
   encoders are injective on well-formed values.  Tags and limits are those re-extracted
   from /repo into gen/Generated.v on this run. *)
From Coq Require Import List NArith ZArith Permutation.
From SosModel Require Import base.Bytes gen.Generated model.Formats proofs.Bytes_Lemmas proofs.Formats_Lemmas.
Import ListNotations.

Theorem C14_roundtrip_time t rest : wf_time t -> p_time (e_time t ++ rest) = Some (t, rest).
Proof. exact (time_rt t rest). Qed.
Theorem C14_roundtrip_aead a rest : wf_aead a -> p_aead (e_aead a ++ rest) = Some (a, rest).
Proof. exact (aead_rt a rest). Qed.
Theorem C14_roundtrip_vault_commit v rest :
  wf_vcommit v -> p_vcommit (e_vcommit v ++ rest) = Some (v, rest).
Proof. exact (vcommit_rt v rest). Qed.
Theorem C14_roundtrip_write_event e rest :
  wf_write_event e -> p_write_event (e_write_event e ++ rest) = Some (e, rest).
Proof. exact (write_event_rt e rest). Qed.
Theorem C14_roundtrip_account_event e rest :
  wf_account_event e -> p_account_event (e_account_event e ++ rest) = Some (e, rest).
Proof. exact (account_event_rt e rest). Qed.
Theorem C14_roundtrip_file_event e rest :
  wf_file_event e -> p_file_event (e_file_event e ++ rest) = Some (e, rest).
Proof. exact (file_event_rt e rest). Qed.
Theorem C14_roundtrip_event_record r rest :
  wf_record r -> p_record (e_record r ++ rest) = Some (r, rest).
Proof. exact (record_rt r rest). Qed.
Theorem C14_roundtrip_commit_proof p rest :
  wf_cproof p -> p_cproof (e_cproof p ++ rest) = Some (p, rest).
Proof. exact (cproof_rt p rest). Qed.
Theorem C14_roundtrip_commit_state c p rest : lenb c = 32%N -> wf_cproof p ->
  p_cstate (e_cstate (c, p) ++ rest) = Some ((c, p), rest).
Proof. exact (cstate_rt c p rest). Qed.
Theorem C14_roundtrip_comparison c rest :
  wf_comparison c -> p_comparison (e_comparison c ++ rest) = Some (c, rest).
Proof. exact (comparison_rt c rest). Qed.

(* generic primitives (binary-stream) *)
Theorem C14_roundtrip_bytes32 MAX b rest : (lenb b <= MAX)%N -> (lenb b < 4294967296)%N ->
  p_bytes32 MAX (e_bytes32 b ++ rest) = Some (b, rest).
Proof. exact (p_bytes32_rt MAX b rest). Qed.
Theorem C14_roundtrip_vec (A : Type) (p : parser A) (e : A -> bytes) (ok : A -> Prop) l rest :
  (forall a rest, ok a -> p (e a ++ rest) = Some (a, rest)) ->
  (forall a, (1 <= length (e a))%nat) ->
  Forall ok l -> (N.of_nat (length l) < 4294967296)%N ->
  p_vec p (e_vec e l ++ rest) = Some (l, rest).
Proof. exact (p_vec_rt A p e ok l rest). Qed.
Theorem C14_roundtrip_option (A : Type) (p : parser A) (e : A -> bytes) (ok : A -> Prop) o rest :
  (forall a rest, ok a -> p (e a ++ rest) = Some (a, rest)) ->
  (match o with Some a => ok a | None => True end) ->
  p_option p (e_option e o ++ rest) = Some (o, rest).
Proof. exact (p_option_rt A p e ok o rest). Qed.

(* equal values yield identical bytes (encoders are functions) and, conversely, different
   well-formed values never share an encoding: what commit hashes rely on *)
Theorem C14_write_event_encoding_injective a b r1 r2 :
  wf_write_event a -> wf_write_event b ->
  e_write_event a ++ r1 = e_write_event b ++ r2 -> a = b /\ r1 = r2.
Proof. exact (encode_injective _ p_write_event e_write_event wf_write_event write_event_rt a b r1 r2). Qed.
Theorem C14_record_encoding_injective a b r1 r2 :
  wf_record a -> wf_record b -> e_record a ++ r1 = e_record b ++ r2 -> a = b /\ r1 = r2.
Proof. exact (encode_injective _ p_record e_record wf_record record_rt a b r1 r2). Qed.

(* the restriction is needed: outside wf the round trip fails *)
Theorem C14_wf_needed_refuted_time_nanos :
  p_time (e_time (mkTime 0 1000000000)) = Some (mkTime 1 0, []).
Proof. exact time_wf_needed_nanos. Qed.
Theorem C14_wf_needed_refuted_bool : p_bool [2%N] = Some (true, []) /\ e_bool true = [1%N].
Proof. exact bool_wf_needed. Qed.

(* "encoding is deterministic": a set / map field (a secret's tags, a list secret's items) is written in an
   order that depends on its contents only (fix 'secret tags and list items are encoded in sorted order') *)
Theorem C14_set_encoding_canonical (A : Type) (leb : A -> A -> bool) (e : A -> bytes) :
  (forall a b, leb a b = true \/ leb b a = true) ->
  (forall a b c, leb a b = true -> leb b c = true -> leb a c = true) ->
  (forall a b, leb a b = true -> leb b a = true -> a = b) ->
  forall l l', Permutation l l' -> e_set A leb e l = e_set A leb e l'.
Proof. exact (set_encoding_canonical A leb e). Qed.
Theorem C14_tagset_encoding_canonical l l' : Permutation l l' -> e_tagset l = e_tagset l'.
Proof. exact (tagset_encoding_canonical l l'). Qed.
(* written in the container's iteration order (before the fix) the same set has two encodings *)
Theorem C14_iteration_order_encoding_refuted :
  Permutation [1%N; 2%N] [2%N; 1%N] /\ e_seq N e_u8 [1%N; 2%N] <> e_seq N e_u8 [2%N; 1%N].
Proof. exact seq_encoding_not_canonical. Qed.
Example C14_nonvacuous_tagset :
  e_tagset [[119; 111]%N; [97]%N; [119]%N] = e_tagset [[97]%N; [119]%N; [119; 111]%N] /\
  e_tagset [[119; 111]%N; [97]%N; [119]%N] = [3; 0; 0; 0; 1; 0; 0; 0; 97; 1; 0; 0; 0; 119; 2; 0; 0; 0; 119; 111]%N.
Proof. split; reflexivity. Qed.

(* non-vacuity *)
Theorem C14_nonvacuous_write :
  wf_write_event (WCreateSecret (repeat 7%N 16)
    (mkVCommit (repeat 1%N 32) (mkAead (Nonce12 (repeat 2%N 12)) [1;2;3]%N) (mkAead (Nonce24 (repeat 3%N 24)) []))).
Proof. exact wf_example_write. Qed.
Theorem C14_nonvacuous_record :
  wf_record (mkRecord (mkTime 1700000000 123) (repeat 0%N 32) (repeat 9%N 32) [4;0]%N).
Proof. exact wf_example_record. Qed.

Print Assumptions C14_roundtrip_time.
Print Assumptions C14_roundtrip_aead.
Print Assumptions C14_roundtrip_vault_commit.
Print Assumptions C14_roundtrip_write_event.
Print Assumptions C14_roundtrip_account_event.
Print Assumptions C14_roundtrip_file_event.
Print Assumptions C14_roundtrip_event_record.
Print Assumptions C14_roundtrip_commit_proof.
Print Assumptions C14_roundtrip_commit_state.
Print Assumptions C14_roundtrip_comparison.
Print Assumptions C14_roundtrip_bytes32.
Print Assumptions C14_roundtrip_vec.
Print Assumptions C14_roundtrip_option.
Print Assumptions C14_write_event_encoding_injective.
Print Assumptions C14_record_encoding_injective.
Print Assumptions C14_wf_needed_refuted_time_nanos.
Print Assumptions C14_wf_needed_refuted_bool.
Print Assumptions C14_nonvacuous_write.
Print Assumptions C14_nonvacuous_record.
Print Assumptions C14_set_encoding_canonical.
Print Assumptions C14_tagset_encoding_canonical.
Print Assumptions C14_iteration_order_encoding_refuted.
