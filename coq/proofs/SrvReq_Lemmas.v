From Coq Require Import List NArith Bool Lia.
From SosModel Require Import model.Merkle model.EventLog model.SrvReq proofs.EventLog_Lemmas.
Import ListNotations.
Section SrvReqLemmas.
Variable hash : Type.
Variable hash_eqb : hash -> hash -> bool.
Hypothesis hash_eqb_spec : forall a b, hash_eqb a b = true <-> a = b.
Variable H2 : hash -> hash -> hash.
Variables tm dat : Type.
Notation elog := (@elog hash tm dat).
Notation Inv := (Inv hash tm dat).
Notation srv_step := (srv_step hash hash_eqb H2 tm dat).
Notation srv_run := (srv_run hash hash_eqb H2 tm dat).
Notation log_apply := (log_apply hash tm dat).

(* every request leaves storage and tree in agreement *)
Theorem step_inv l q : Inv l -> Inv (fst (srv_step l q)).
Proof.
  intro Hi. destruct q as [r patch|c r patch|r patch|]; cbn [SrvReq.srv_step]; [| | |exact Hi].
  - destruct (head_is hash hash_eqb H2 tm dat l r); cbn [fst]; [apply apply_inv|]; exact Hi.
  - destruct (log_rewind hash hash_eqb tm dat l c) as [l1 removed| |] eqn:Er; cbn [fst]; try exact Hi.
    destruct (rewind_ok hash hash_eqb hash_eqb_spec H2 tm dat l c l1 removed Hi Er) as (_ & Hi1 & _).
    destruct (head_is hash hash_eqb H2 tm dat l1 r); cbn [fst]; apply apply_inv; exact Hi1.
  - destruct (l_tree l); [cbn [fst]; apply apply_inv; exact Hi|].
    destruct (head_is hash hash_eqb H2 tm dat l r); cbn [fst]; [apply apply_inv|]; exact Hi.
Qed.

Theorem run_inv qs : forall l, Inv l -> Inv (srv_run l qs).
Proof.
  induction qs as [|q qs IH]; intros l Hi; [exact Hi|]. unfold SrvReq.srv_run in *. cbn [fold_left].
  apply IH. apply step_inv. exact Hi.
Qed.

(* the log only ever changes by a whole patch: unchanged, patch appended, or a suffix replaced
   by a patch; a refused request changes nothing *)
Theorem step_shape l q l' ok : Inv l -> srv_step l q = (l', ok) ->
  (ok = false -> l' = l) /\
  (ok = true ->
     l' = l \/ (exists patch, l_recs l' = l_recs l ++ patch) \/
     (exists kept removed patch, l_recs l = kept ++ removed /\ l_recs l' = kept ++ patch)).
Proof.
  intros Hi H. destruct q as [r patch|c r patch|r patch|]; cbn [SrvReq.srv_step] in H.
  - destruct (head_is hash hash_eqb H2 tm dat l r); injection H as <- <-; split; intro E; try discriminate; try reflexivity.
    right. left. exists patch. reflexivity.
  - destruct (log_rewind hash hash_eqb tm dat l c) as [l1 removed| |] eqn:Er;
      try (injection H as <- <-; split; intro E; [reflexivity|discriminate]).
    destruct (rewind_ok hash hash_eqb hash_eqb_spec H2 tm dat l c l1 removed Hi Er) as (Hrecs & _).
    destruct (head_is hash hash_eqb H2 tm dat l1 r); injection H as <- <-; split; intro E; try discriminate.
    + right. right. exists (l_recs l1), removed, patch. split; [exact Hrecs|reflexivity].
    + apply (rewind_rollback hash hash_eqb hash_eqb_spec H2 tm dat l c l1 removed Hi Er).
  - destruct (l_tree l).
    + injection H as <- <-. split; intro E; [discriminate|]. right. left. exists patch. reflexivity.
    + destruct (head_is hash hash_eqb H2 tm dat l r); injection H as <- <-; split; intro E; try discriminate; try reflexivity.
      right. left. exists patch. reflexivity.
  - injection H as <- <-. split; intro E; [discriminate|left; reflexivity].
Qed.

(* a diff request never removes anything *)
Theorem diff_keeps_everything l r patch l' ok :
  srv_step l (ReqDiff r patch) = (l', ok) -> exists s, l_recs l' = l_recs l ++ s.
Proof.
  cbn [SrvReq.srv_step]. destruct (head_is hash hash_eqb H2 tm dat l r); intro H; injection H as <- _.
  - exists patch. reflexivity.
  - exists []. rewrite app_nil_r. reflexivity.
Qed.

(* an accepted rewind-and-patch removes exactly the records after the last occurrence of c:
   nothing is dropped iff c is the log's last commit (the device's diff is still current) *)
Theorem patch_drops_only_after_c l c r patch l' : Inv l ->
  srv_step l (ReqPatch c r patch) = (l', true) ->
  exists kept removed, l_recs l = kept ++ removed /\ l_recs l' = kept ++ patch /\
                       Forall (fun x => er_commit x <> c) removed.
Proof.
  intros Hi H. cbn [SrvReq.srv_step] in H.
  destruct (log_rewind hash hash_eqb tm dat l c) as [l1 removed| |] eqn:Er; try discriminate.
  destruct (rewind_ok hash hash_eqb hash_eqb_spec H2 tm dat l c l1 removed Hi Er) as (Hrecs & _ & _ & Hall).
  destruct (head_is hash hash_eqb H2 tm dat l1 r); [|discriminate]. injection H as <-.
  exists (l_recs l1), removed. repeat split; [exact Hrecs|exact Hall].
Qed.
End SrvReqLemmas.
