"""C03 — secret material never reaches storage or the network unencrypted.
Real accounts in which every secret field, label, tag, comment, custom field and folder description is
a fresh high-entropy marker; after a scripted life (create per kind, update, move, archive, change folder
password, compact, sync two devices, export a backup archive, optional extra steps) every file under both
client directories and the server directory — SQLite pages and write-ahead logs, archives, audit and log
files, file names — and every request/response in the protocol's own wire encoding is searched for every
marker, the folder passwords, the account password and the device signing key in raw, hex, base64
(3 alignments x 2 alphabets) and UTF-16 forms.  A marker used as a folder NAME (public) must be found:
it shows the scanner reaches the stored bytes.
Correspondence: every stored folder event is parsed by the extracted decoder, split into public and
ciphertext chunks by the extracted [split_event] (model/Taint.v); the split must join back to the bytes
and its public fields must equal what the SDK decodes."""

ID = "C03"
SUB = "c03"
LEVEL = "proof"
RESILIENT = True
IMPL_TIMEOUT = 3000
KINDS = ["note", "login", "list", "page", "card", "bank", "link", "password", "identity", "age", "pem", "totp", "contact", "file"]
RULE = ("a case = backend pair x seed x set of secret kinds x extra steps; explored = markers x forms x (files + wire buffers); "
        "non-trivial = at least 3 secret kinds with user data and at least 10 wire buffers; distinct by case")
TRUSTED_BASE = [
    "model/Taint.v splits the encoding of a folder write event into public and ciphertext chunks; that a ciphertext reveals "
    "nothing about its plaintext is the cipher's property (C10: idealised AEAD), not proved here",
    "the marker scan is decided on the implementation: a marker of 28 random alphanumerics is assumed not to occur by chance",
]
ASSUMPTIONS = ["pairing messages and the relay server are not exercised (no account data is stored there; the pairing protocol is a noise channel)",
               "external file attachments are exercised as embedded file secrets only (external blobs: C17)",
               "wire buffers are the protocol encodings of the values DirectClient passes to the server helpers; TLS and HTTP framing add no plaintext"]


def corpus():
    return ["c03 k_all_fs cbe=fs sbe=fs seed=1 kinds=%s extra=" % ",".join(KINDS),
            "c03 k_all_db cbe=db sbe=db seed=2 kinds=%s extra=z0:0|w0:0|o0|s0" % ",".join(KINDS),
            # a folder exported and imported next to the original (same name: the importer renames the copy)
            "c03 k_import_copy cbe=fs sbe=fs seed=3 kinds=note,login,file extra=i0:0|s0|s1",
            "c03 k_import_copy_db cbe=db sbe=fs seed=4 kinds=note,list extra=i0:0|s0"]


def gen_cases(rng, tier):
    n = 4 if tier == "quick" else 60
    out = []
    for j in range(n):
        ks = rng.sample(KINDS, rng.randrange(3, 8))
        extra = []
        for _ in range(rng.randrange(0, 6)):
            extra.append(rng.choice(["c0:a", "u0:a", "x0:a", "c1:b", "u1:b", "s0", "s1", "z0:0", "w0:0", "p0:0", "o0", "h1:0:0", "a0:a", "f1:1", "m1:b:1", "i0:0", "i1:0"]))
        out.append("c03 g%d cbe=%s sbe=%s seed=%d kinds=%s extra=%s" % (
            j, rng.choice(["fs", "db"]), rng.choice(["fs", "db"]), rng.randrange(1, 1 << 30), ",".join(ks), "|".join(extra)))
    return out


def scan_line(obs):
    s = next((o for o in obs if o.startswith("scan ")), None)
    return dict(x.split("=", 1) for x in s.split()[1:] if "=" in x) if s else None


def oracle(case, obs):
    kv = scan_line(obs)
    if kv is None:
        return [{"oracle": "no_result", "detail": "no scan result"}]
    fails = []
    if kv.get("canary") != "found":
        fails.append({"oracle": "scanner_blind", "detail": "the folder-name marker (public) was not found in storage: the scan does not see the stored bytes"})
    for o in obs:
        if o.startswith("hit "):
            h = dict(x.split("=", 1) for x in o.split()[1:] if "=" in x)
            where = h.get("where", "")
            fails.append({"oracle": "plaintext_found", "marker": h.get("marker", "").split(".", 1)[-1], "form": h.get("form"),
                          "where": "wire" if where.startswith("wire:") else where.rsplit(".", 1)[-1] if "." in where else where,
                          "detail": "marker %s found (%s) in %s" % (h.get("marker"), h.get("form"), where)})
    if int(kv.get("secrets", "0")) == 0:
        fails.append({"oracle": "no_secrets", "detail": "no secret could be created"})
    return fails


def model_input(cases, impl):
    out = []
    for c in cases:
        cid = c.split()[1]
        n = 0
        for o in impl.get(cid, []):
            t = o.split()
            if len(t) == 3 and t[0] == "!evbytes":
                out.append("c03 %s %s %s" % (cid, t[1], t[2])); n += 1
        if n == 0:
            out.append("c03 %s" % cid)
    return out


def impl_projection(obs):
    return [o for o in obs if o.startswith("ev ")]


def nontrivial(case, obs):
    kv = scan_line(obs) or {}
    return int(kv.get("secrets", "0")) >= 3 and int(kv.get("wire", "0")) >= 10


def distinct_key(case):
    return case.split(" ", 2)[2]


def distribution(cases, impl):
    tot = {"files": 0, "bytes": 0, "wire": 0, "wirebytes": 0, "patterns": 0, "markers": 0, "events_split": 0}
    for c in cases:
        kv = scan_line(impl.get(c.split()[1], [])) or {}
        for k in ("files", "bytes", "wire", "wirebytes", "patterns", "markers"):
            tot[k] += int(kv.get(k, "0"))
        tot["events_split"] += len([o for o in impl.get(c.split()[1], []) if o.startswith("ev ")])
    return tot


MANIFEST = {
    "category": "proof",
    "text": ("Coq theorems over the byte-level structure of folder write events: the encoding is exactly a sequence of public chunks "
             "(tag, id, commit, nonces, lengths) and ciphertext chunks, and the public chunks and ciphertext lengths are a function of "
             "the public fields alone (non-interference of the plaintext with everything outside the ciphertext ranges); tied to the code "
             "by splitting every stored event of real accounts with the extracted functions and comparing with the SDK's own decoding; "
             "the rest of the property (every file, SQLite page, archive, audit line and wire buffer, every secret kind and field) is "
             "decided by a marker scan on the implementation in raw/hex/base64/UTF-16 forms"),
    "design_ref": "DESIGN.md §4 C03",
    "note": "partial: secrecy of the ciphertext itself is the cipher's (assumed); pairing/relay traffic is not exercised",
    "technique": "Coq proof (exact public/ciphertext split and non-interference of plaintext with the public bytes) + extracted-model correspondence + marker scan of all stored and transmitted bytes",
}
