(* SHA-256 over N (FIPS 180-4), executable; no theorem depends on its body.
   Bytes are N < 256; words are N < 2^32. *)
From Coq Require Import List NArith.
Import ListNotations.
Local Open Scope N_scope.

Definition byte := N.
Definition w32 (x : N) : N := N.land x 4294967295.
Definition add32 (a b : N) : N := w32 (a + b).
Definition rotr (n x : N) : N := N.lor (N.shiftr x n) (w32 (N.shiftl x (32 - n))).
Definition shr (n x : N) : N := N.shiftr x n.
Definition lnot32 (x : N) : N := N.lxor x 4294967295.
Definition ch (x y z : N) := N.lxor (N.land x y) (N.land (lnot32 x) z).
Definition maj (x y z : N) := N.lxor (N.lxor (N.land x y) (N.land x z)) (N.land y z).
Definition bsig0 x := N.lxor (N.lxor (rotr 2 x) (rotr 13 x)) (rotr 22 x).
Definition bsig1 x := N.lxor (N.lxor (rotr 6 x) (rotr 11 x)) (rotr 25 x).
Definition ssig0 x := N.lxor (N.lxor (rotr 7 x) (rotr 18 x)) (shr 3 x).
Definition ssig1 x := N.lxor (N.lxor (rotr 17 x) (rotr 19 x)) (shr 10 x).

Definition K : list N :=
 [1116352408;1899447441;3049323471;3921009573;961987163;1508970993;2453635748;2870763221;
  3624381080;310598401;607225278;1426881987;1925078388;2162078206;2614888103;3248222580;
  3835390401;4022224774;264347078;604807628;770255983;1249150122;1555081692;1996064986;
  2554220882;2821834349;2952996808;3210313671;3336571891;3584528711;113926993;338241895;
  666307205;773529912;1294757372;1396182291;1695183700;1986661051;2177026350;2456956037;
  2730485921;2820302411;3259730800;3345764771;3516065817;3600352804;4094571909;275423344;
  430227734;506948616;659060556;883997877;958139571;1322822218;1537002063;1747873779;
  1955562222;2024104815;2227730452;2361852424;2428436474;2756734187;3204031479;3329325298].

Definition H0 : list N :=
 [1779033703;3144134277;1013904242;2773480762;1359893119;2600822924;528734635;1541459225].

(* message schedule kept reversed: head = w[t-1] *)
Definition nthN (l : list N) (i : nat) : N := nth i l 0.
Fixpoint extend (k : nat) (rw : list N) : list N :=
  match k with
  | O => rw
  | S k' =>
      let w := add32 (add32 (ssig1 (nthN rw 1)) (nthN rw 6))
                     (add32 (ssig0 (nthN rw 14)) (nthN rw 15)) in
      extend k' (w :: rw)
  end.

Definition round (st : list N) (kw : N * N) : list N :=
  match st with
  | [a;b;c;d;e;f;g;h] =>
      let t1 := add32 (add32 (add32 h (bsig1 e)) (add32 (ch e f g) (fst kw))) (snd kw) in
      let t2 := add32 (bsig0 a) (maj a b c) in
      [add32 t1 t2; a; b; c; add32 d t1; e; f; g]
  | _ => st
  end.

Fixpoint words_of_bytes (l : list byte) : list N :=
  match l with
  | a :: b :: c :: d :: r => (a * 16777216 + b * 65536 + c * 256 + d) :: words_of_bytes r
  | _ => []
  end.

Definition compress (st : list N) (block : list byte) : list N :=
  let w16 := words_of_bytes block in
  let w := rev (extend 48 (rev w16)) in
  let st' := fold_left round (combine K w) st in
  map (fun p => add32 (fst p) (snd p)) (combine st st').

Fixpoint be_bytes (k : nat) (x : N) : list byte :=
  match k with O => [] | S k' => be_bytes k' (x / 256) ++ [x mod 256] end.

Definition pad (msg : list byte) : list byte :=
  let len := N.of_nat (length msg) in
  let zeros := N.to_nat ((119 - (len mod 64)) mod 64) in
  msg ++ [128] ++ repeat 0 zeros ++ be_bytes 8 (len * 8).

Fixpoint blocks (fuel : nat) (st : list N) (l : list byte) : list N :=
  match fuel with
  | O => st
  | S f => match l with
           | [] => st
           | _ => blocks f (compress st (firstn 64 l)) (skipn 64 l)
           end
  end.

Definition sha256 (msg : list byte) : list byte :=
  let p := pad msg in
  flat_map (be_bytes 4) (blocks (S (Nat.div (length p) 64)) H0 p).
