"""C15 — malformed bytes are rejected with an error, never a crash.
Mutants of valid encodings are fed to the real decoders (panics caught, allocation metered,
aborts attributed to the case in flight) and to the extracted model decoders; the outcome
class {value, error} and the re-encoded value must agree, and the implementation must neither
panic, abort, nor allocate out of proportion to the input."""
import os
from vcheck import core
from vcheck.props import c14

ID = "C15"
SUB = "c15"
LEVEL = "proof"
RESILIENT = True
IMPL_CHUNK = 3000
RULE = ("mutants of valid encodings of every modelled type: bit flips, truncation, 4-byte windows overwritten with "
        "boundary lengths, tag sweeps over the first 1-2 bytes, boundary timestamps, splices of two encodings, short "
        "random strings; non-trivial = mutant differs from every valid encoding generated in this run and is not a "
        "duplicate; distinct by (type, bytes); histogram by mutation kind in distribution")
TRUSTED_BASE = c14.TRUSTED_BASE + ["counting global allocator in the harness (peak live bytes and largest request per decode)"]
ASSUMPTIONS = ["the no-panic/no-abort claim is differential (every mutant run on the real decoder); Coq proves the "
               "consumption/termination bounds of the model decoders only",
               "allocation bound checked: largest request <= MAX_BUFFER_SIZE (16 MiB, the guard the code configures) + 4 KiB and "
               "peak <= 64*len + MAX_BUFFER_SIZE + 1 MiB (only the one failing guarded read can hold a buffer larger than the input)"]
ALLOC_SLACK = 1 << 20


def prepare(run):
    return c14.prepare(run)


def corpus():
    return [
        "c15 t0w T=write B=0000 mut=tag",
        "c15 t0a T=account B=0000 mut=tag",
        "c15 t0f T=file B=0000 mut=tag",
        "c15 t0d T=device B=0000 mut=tag",
        "c15 dov T=time B=ff6f40f73a00000000ca9a3b mut=time",       # max secs, nanos = 10^9
        "c15 cap T=comparison B=02ffffffff mut=len",                 # count 2^32-1, no items
        "c15 vecn T=cproof B=" + "00" * 32 + "00000000" + "0100000000000000" + "ffffffff" + " mut=len",
    ]


BOUNDARY = [0, 1, 0x7fffffff, 0x80000000, 0xffffffff, 0x01000000, 0x01000001, 0x00ffffff]


def mutate(rng, ty, hx, pool):
    b = bytearray.fromhex(hx)
    kind = rng.choice(["flip", "trunc", "len", "len", "tag", "splice", "random", "extend"])
    if kind == "flip" and b:
        i = rng.randrange(len(b)); b[i] ^= 1 << rng.randrange(8)
    elif kind == "trunc" and b:
        b = b[:rng.randrange(len(b))]
    elif kind == "len" and len(b) >= 4:
        i = rng.randrange(len(b) - 3)
        v = rng.choice(BOUNDARY + [len(b), len(b) - 1, len(b) + 1, max(len(b) - i - 4, 0), max(len(b) - i - 3, 0)])
        b[i:i + 4] = (v & 0xffffffff).to_bytes(4, "little")
    elif kind == "tag" and b:
        if ty in ("write", "account", "file", "device") and len(b) >= 2:
            t = rng.choice(list(range(0, 40)) + [0xffff, 0x0100, 255])
            b[0:2] = t.to_bytes(2, "little")
        else:
            b[0] = rng.choice([0, 1, 2, 3, 4, 11, 12, 13, 23, 24, 25, 255])
    elif kind == "splice" and pool:
        o = bytearray.fromhex(rng.choice(pool))
        i, j = rng.randrange(len(b) + 1), rng.randrange(len(o) + 1)
        b = b[:i] + o[j:]
    elif kind == "random":
        b = bytearray(rng.randrange(256) for _ in range(rng.randrange(0, 24)))
    elif kind == "extend":
        b = b + bytearray(rng.randrange(256) for _ in range(rng.randrange(1, 9)))
    else:
        kind = "none"
    return kind, bytes(b).hex()


def gen_cases(rng, tier):
    nvals = 1100 if tier == "quick" else 11000
    per = 18 if tier == "quick" else 90
    vals = c14.generated(rng, nvals, "C15")
    by_type = {}
    for t, b, _ in vals:
        by_type.setdefault(t, []).append(b)
    valid = set((t, b) for t, b, _ in vals)
    out, seen, k = [], set(), 0
    # boundary timestamps: secs in {min-1,min,max,max+1} x nanos in {0, 10^9-1, 10^9, 2^32-1}
    for secs in (-377705116801, -377705116800, 253402300799, 253402300800, 253402300796, -1, 0):
        for nanos in (0, 999999999, 1000000000, 3999999999, 4294967295):
            hx = (secs & ((1 << 64) - 1)).to_bytes(8, "little").hex() + nanos.to_bytes(4, "little").hex()
            out.append("c15 ts%d T=time B=%s mut=time" % (k, hx)); k += 1
    # event log files: every row's leading and trailing length marker set to boundary values (the row iterator
    # computes positions from them in both directions), for the first files generated
    ROWLEN = [0, 1, 7, 8, 0x7fffffff, 0x80000000, 0xfffffff7, 0xfffffff8, 0xfffffffb, 0xfffffffc, 0xffffffff]
    for b in by_type.get("evfile", [])[:10 if tier == "quick" else 60]:
        raw = bytes.fromhex(b)
        pos, marks = 4, []
        while pos + 8 <= len(raw):
            n = int.from_bytes(raw[pos:pos + 4], "little")
            if pos + n + 8 > len(raw): break
            marks += [pos, pos + 4 + n]
            pos += n + 8
        for mk in marks:
            n = int.from_bytes(raw[mk:mk + 4], "little")
            for v in ROWLEN + [n - 1, n + 1, n + 8, len(raw), len(raw) - mk]:
                m = (raw[:mk] + (v & 0xffffffff).to_bytes(4, "little") + raw[mk + 4:]).hex()
                if ("evfile", m) in seen or m == b: continue
                seen.add(("evfile", m))
                out.append("c15 r%d T=evfile B=%s mut=rowlen" % (k, m)); k += 1
    for t, b, _ in vals:
        if t == "tagset": continue       # a list of tags in the harness' own framing, not an encoding the SDK reads
        for _ in range(per):
            kind, m = mutate(rng, t, b, by_type.get(t, []))
            if (t, m) in seen or (t, m) in valid:
                continue
            seen.add((t, m))
            out.append("c15 m%d T=%s B=%s mut=%s" % (k, t, m, kind)); k += 1
    return out


def fields(case):
    toks = case.split()
    d = dict(t.split("=", 1) for t in toks[2:] if "=" in t)
    return toks[1], d.get("T", ""), d.get("B", ""), d.get("mut", "")


def oracle(case, obs):
    cid, ty, b, mut = fields(case)
    fails = []
    res = [o for o in obs if not o.startswith("!")]
    if not res:
        return [{"oracle": "no_result", "type": ty, "detail": "no observation for " + cid}]
    r = res[0].split()[0]
    if r == "panic":
        msg = next((o for o in obs if o.startswith("!panic")), "")
        fails.append({"oracle": "no_panic", "type": ty, "detail": "decoder panicked: %s" % msg[:160]})
    elif r == "abort":
        fails.append({"oracle": "no_abort", "type": ty, "detail": "process aborted while decoding (allocation failure / overflow)"})
    cp = next((o for o in obs if o.startswith("!caught-panic")), None)
    if cp and r != "panic":
        fails.append({"oracle": "no_panic", "type": ty, "caught_by_runtime": True, "at": cp.split("at=")[-1], "at_file": cp.split("at=")[-1].rsplit(":", 1)[0],
                      "detail": "the decoder panicked inside a blocking task (the caller saw an error): %s" % cp[:160]})
    if any("hang" in o for o in obs if not o.startswith("!alloc")):
        fails.append({"oracle": "no_hang", "type": ty, "detail": "an iteration over the input did not end within 200000 rows: %s" % " ".join(obs)[:200]})
    for o in obs:
        if o.startswith("!alloc"):
            d = dict(x.split("=") for x in o.split()[1:])
            peak, maxreq, ln = int(d["peak"]), int(d["maxreq"]), int(d["len"])
            if peak > 64 * ln + (16 << 20) + ALLOC_SLACK or maxreq > (16 << 20) + 4096:
                fails.append({"oracle": "alloc_bound", "type": ty,
                              "detail": "peak=%d maxreq=%d for %d input bytes" % (peak, maxreq, ln)})
    return fails


def nontrivial(case, obs):
    return True


def distinct_key(case):
    cid, ty, b, _ = fields(case)
    return (ty, b)


def shrink(case):
    cid, ty, b, mut = fields(case)
    raw = bytes.fromhex(b)
    c = []
    for n in (len(raw) // 2, len(raw) - 1):
        if 0 <= n < len(raw):
            c.append("c15 s T=%s B=%s mut=%s" % (ty, raw[:n].hex(), mut))
    return c


def distribution(cases, impl):
    muts, outcomes, per = {}, {}, {}
    for c in cases:
        cid, ty, b, mut = fields(c)
        muts[mut] = muts.get(mut, 0) + 1
        per[ty] = per.get(ty, 0) + 1
        res = [o for o in impl.get(cid, []) if not o.startswith("!")]
        k = res[0].split()[0] if res else "none"
        outcomes[k] = outcomes.get(k, 0) + 1
    return {"mutation_kinds": muts, "implementation_outcomes": outcomes, "per_type": per}


MANIFEST = {
    "category": "proof",
    "text": ("Coq theorems bound what the model decoders consume and allocate (every length-prefixed read is guarded "
             "by MAX_BUFFER_SIZE before allocation; Vec decoding recurses on the remaining input so it cannot spin; "
             "decoders are total); the no-panic/no-abort/proportional-allocation claim itself is decided differentially: "
             "every mutant is run through the real decoder (panics caught, allocation metered, aborts attributed) and "
             "through the extracted model, and the outcome class and re-encoded value must agree"),
    "design_ref": "DESIGN.md §4 C15",
    "note": ("proof covers the model's bounds; 'never panics' on the implementation is differential exploration over "
             "generated mutants (stated as such); trusts Coq kernel, extraction, harness allocator"),
    "technique": "Coq proof of decoder consumption/allocation bounds + differential mutant run (model vs real decoder and event-log file iterator, metered; panics caught by the runtime counted through the panic hook)",
}
