//! C19: upgrade of file-system accounts to the database backend, on real accounts.
//! Case:  "c19 <id> side=client|server hist=<steps>"     (steps as in acct.rs; both backends start as fs)
//!   1. the history runs on two file-system devices and a file-system server; everything is observed
//!      ("before": step n);
//!   2. side=client: device 0 signs out; its data directory is upgraded — first a dry run (the
//!      directory must be byte-identical afterwards), then for real — and re-opened on the
//!      database backend ("after": step n+1); it then syncs with the (un-upgraded) server
//!      (step n+2), makes one more edit, syncs, and device 1 syncs (steps n+3..n+5);
//!      side=server: the same for the server's directory; both devices then sync against it.
//!   Lines:  <id> upgrade dry_unchanged=<0|1> dry=<ok|err..> real=<ok|err..> accounts=<n> reopen=<ok|err..>
//!           <id> <step> ...  observation lines as in acct.rs
//! Case:  "c19 <id> mode=twin hist=<steps>": the same history on an fs world and on a db world,
//!   the final observation of each printed under who-prefixes F* / B* (compared modulo ids).
use crate::acct::World;
use crate::sync::{Device, Gate, Server};
use crate::util::{kv, rt};
use sha2::{Digest, Sha256};
use sos_account::Account;
use sos_core::Paths;
use sos_database_upgrader::{upgrade_accounts, UpgradeOptions};
use std::io::Write;
use std::path::Path;

fn tree_digest(dir: &Path) -> String {
    fn walk(p: &Path, rel: String, out: &mut Vec<(String, Vec<u8>)>) {
        let Ok(rd) = std::fs::read_dir(p) else { return };
        for e in rd.flatten() {
            let name = e.file_name().to_string_lossy().to_string();
            let r = if rel.is_empty() { name.clone() } else { format!("{rel}/{name}") };
            if e.file_type().map(|t| t.is_dir()).unwrap_or(false) {
                out.push((format!("{r}/"), vec![]));
                walk(&e.path(), r, out);
            } else {
                out.push((r, std::fs::read(e.path()).unwrap_or_default()));
            }
        }
    }
    let mut v = vec![];
    walk(dir, String::new(), &mut v);
    v.sort();
    let mut h = Sha256::new();
    for (k, b) in v {
        h.update(k.as_bytes());
        h.update((b.len() as u64).to_le_bytes());
        h.update(&b);
    }
    hex::encode(&h.finalize()[..8])
}

fn cls(e: impl std::fmt::Debug) -> String {
    format!("{e:?}").chars().filter(|c| c.is_ascii_alphanumeric() || *c == '_' || *c == ':' || *c == '(').take(70).collect()
}

async fn observe_all(w: &mut World, id: &str, step: usize, out: &mut impl Write) {
    let mut lines = vec![];
    for d in 0..w.devs.len() {
        w.observe_device(d, &mut lines).await;
    }
    w.observe_server(&mut lines).await;
    for l in lines {
        if let Some(rest) = l.strip_prefix('!') {
            writeln!(out, "{id} !{step} {rest}").unwrap();
        } else {
            writeln!(out, "{id} {step} {l}").unwrap();
        }
    }
}

pub type Att = (sos_core::VaultId, sos_core::SecretId, sos_core::ExternalFileName, Vec<u8>);

/// a file secret with two further external files attached to it (three blobs under one secret id) on
/// the default folder; returns every external file the account's directory lists, with its plaintext
pub async fn add_attachments(w: &World, a: &mut sos_account::LocalAccount) -> Vec<Att> {
    use sos_client_storage::AccessOptions;
    use sos_vault::secret::{Secret, SecretMeta, SecretRow};
    let mut out = vec![];
    let folder = *w.fslots.get("0").unwrap();
    let mk = |tag: &str, n: usize| -> std::path::PathBuf {
        let p = w.base.join(format!("attachment-{tag}.bin"));
        std::fs::write(&p, format!("c19 attachment {tag} {}", "q".repeat(n)).into_bytes()).unwrap();
        p
    };
    let Ok(secret) = Secret::try_from(mk("input", 777)) else { return out };
    let meta = SecretMeta::new("Fatt".to_string(), secret.kind());
    let Ok(r) = a.create_secret(meta, secret, AccessOptions { folder: Some(folder), ..Default::default() }).await else { return out };
    for (i, len) in [(1usize, 300usize), (2, 1500)] {
        if let (Ok((mut row, _)), Ok(att)) = (a.read_secret(&r.id, Some(&folder)).await, Secret::try_from(mk(&format!("att{i}"), len))) {
            let ameta = SecretMeta::new(format!("Att{i}"), att.kind());
            row.secret_mut().add_field(SecretRow::new(sos_core::SecretId::new_v4(), ameta, att));
            let _ = a.update_secret(&r.id, row.meta().clone(), Some(row.secret().clone()), AccessOptions { folder: Some(folder), ..Default::default() }).await;
        }
    }
    let target = a.backend_target().await.with_account_id(&w.account_id);
    if let Ok(files) = target.list_files().await {
        for f in files {
            if let Ok(content) = a.download_file(f.vault_id(), f.secret_id(), f.file_name()).await {
                out.push((*f.vault_id(), *f.secret_id(), *f.file_name(), content));
            }
        }
    }
    out
}

pub fn run(text: &str, cases_path: &str, out: &mut impl Write) {
    let rt = rt();
    let base = std::path::Path::new(cases_path).parent().unwrap().join("data-c19");
    for line in text.lines() {
        let toks: Vec<&str> = line.split_whitespace().collect();
        if toks.len() < 2 || toks[0].starts_with('#') {
            continue;
        }
        let id = toks[1].to_string();
        let hist: Vec<String> = kv(&toks, "hist").unwrap_or("").split('|').filter(|s| !s.is_empty()).map(|s| s.to_string()).collect();
        writeln!(out, "{id} !begin").unwrap();
        out.flush().unwrap();
        if kv(&toks, "mode") == Some("twin") {
            for (tag, db) in [("F", false), ("B", true)] {
                rt.block_on(async {
                    let mut w = World::new(base.join(format!("{id}-{tag}")), db, db, 2, Gate::default()).await;
                    for (n, op) in hist.iter().enumerate() {
                        let res = w.step(op).await;
                        writeln!(out, "{id} {tag}{} op={op} res={res}", n + 1).unwrap();
                    }
                    let mut lines = vec![];
                    for d in 0..w.devs.len() {
                        w.observe_device(d, &mut lines).await;
                    }
                    w.observe_server(&mut lines).await;
                    for l in lines {
                        if let Some(rest) = l.strip_prefix('!') {
                            writeln!(out, "{id} !{tag} {rest}").unwrap();
                        } else {
                            writeln!(out, "{id} {tag} {l}").unwrap();
                        }
                    }
                    crate::acct::set_clock(0);
                });
                let _ = std::fs::remove_dir_all(base.join(format!("{id}-{tag}")));
            }
            continue;
        }
        let side = kv(&toks, "side").unwrap_or("client").to_string();
        rt.block_on(async {
            let mut w = World::new(base.join(&id), false, false, 2, Gate::default()).await;
            let mut n = 0;
            for op in hist.iter() {
                n += 1;
                let res = w.step(op).await;
                writeln!(out, "{id} {n} op={op} res={res}").unwrap();
            }
            // client side: an attachment (external file blob) on the main account, and a second account without
            // attachments in the same data directory whose name sorts first
            let mut attach: Vec<Att> = vec![];
            let mut second_id: Option<sos_core::AccountId> = None;
            if side == "client" {
                let acct = w.devs[0].bridge.account.clone();
                let mut a = acct.lock().await;
                attach = add_attachments(&w, &mut a).await;
                writeln!(out, "{id} !attachment created files={}", attach.len()).unwrap();
                drop(a);
                let paths = Paths::new_client(&w.devs[0].dir);
                let target = sos_backend::BackendTarget::FileSystem(paths);
                if let Ok(mut other) = sos_account::LocalAccount::new_account("aaa-first".to_string(), crate::sync::password(), target).await {
                    let key: sos_core::crypto::AccessKey = crate::sync::password().into();
                    let _ = other.sign_in(&key).await;
                    second_id = Some(*other.account_id());
                    let _ = other.sign_out().await;
                }
            }

            observe_all(&mut w, &id, n, out).await;

            let account_id = w.account_id;
            let dir = if side == "client" { w.devs[0].dir.clone() } else { w.base.join("server") };
            // stop using the directory
            if side == "client" {
                let d0 = w.devs.remove(0);
                {
                    let mut a = d0.bridge.account.lock().await;
                    let _ = a.sign_out().await;
                }
                drop(d0);
            } else {
                *w.server.storage.write().await = None;
            }
            let paths = if side == "client" { Paths::new_client(&dir) } else { Paths::new_server(&dir) };
            let before = tree_digest(&dir);
            let dry = upgrade_accounts(&dir, UpgradeOptions { paths: paths.clone(), dry_run: true, keep_stale_files: true, ..Default::default() }).await;
            let after_dry = tree_digest(&dir);
            let real = upgrade_accounts(&dir, UpgradeOptions { paths: paths.clone(), dry_run: false, ..Default::default() }).await;
            let (real_s, naccounts) = match &real {
                Ok(r) => ("ok".to_string(), r.accounts.len()),
                Err(e) => (format!("err:{}", cls(e)), 0),
            };
            // re-open on the database backend
            let reopen = if side == "client" {
                match Device::try_open("D0", &dir, account_id, w.server.clone(), true, Gate::default()).await {
                    Ok(d) => {
                        w.devs.insert(0, d);
                        w.cdb = true;
                        "ok".to_string()
                    }
                    Err(e) => format!("err:{e}"),
                }
            } else {
                match Server::try_new(&dir, account_id, true).await {
                    Ok(s) => {
                        let has = s.account().await.is_some();
                        // the devices talk to the new server object
                        let mut devs = vec![];
                        let old: Vec<_> = w.devs.drain(..).collect();
                        for (i, d) in old.into_iter().enumerate() {
                            let ddir = d.dir.clone();
                            {
                                let mut a = d.bridge.account.lock().await;
                                let _ = a.sign_out().await;
                            }
                            drop(d);
                            match Device::try_open(&format!("D{i}"), &ddir, account_id, s.clone(), false, Gate::default()).await {
                                Ok(nd) => devs.push(nd),
                                Err(e) => writeln!(out, "{id} !reopen-device {i} {e}").unwrap(),
                            }
                        }
                        w.devs = devs;
                        w.server = s;
                        w.sdb = true;
                        if has { "ok".to_string() } else { "err:noaccount".to_string() }
                    }
                    Err(e) => format!("err:{e}"),
                }
            };
            // the attachment and the second account after the upgrade
            let mut attach_after = "n/a".to_string();
            if !attach.is_empty() && reopen == "ok" && side == "client" {
                let a = w.devs[0].bridge.account.lock().await;
                let mut bad = vec![];
                for (folder, sid, name, content) in &attach {
                    match a.download_file(folder, sid, name).await {
                        Ok(b) if &b == content => {}
                        Ok(_) => bad.push("differs".to_string()),
                        Err(e) => bad.push(format!("err:{}", cls(e))),
                    }
                }
                attach_after = if bad.is_empty() { "ok".to_string() } else { format!("{}of{}:{}", bad.len(), attach.len(), bad[0]) };
            }
            let mut second_after = "n/a".to_string();
            if let (Some(sid2), true) = (second_id, side == "client") {
                let paths = Paths::new_client(&dir);
                let target = crate::sync::client_target(&paths, true).await;
                second_after = match sos_account::LocalAccount::new_unauthenticated(sid2, target).await {
                    Ok(mut acc) => {
                        let key: sos_core::crypto::AccessKey = crate::sync::password().into();
                        match acc.sign_in(&key).await {
                            Ok(_) => "ok".to_string(),
                            Err(e) => format!("err:{}", cls(e)),
                        }
                    }
                    Err(e) => format!("err:{}", cls(e)),
                };
            }
            writeln!(out, "{id} extras attachment={attach_after} second_account={second_after}").unwrap();
            writeln!(
                out,
                "{id} upgrade side={side} dry_unchanged={} dry={} real={real_s} accounts={naccounts} reopen={reopen}",
                (before == after_dry) as u8,
                match &dry { Ok(_) => "ok".to_string(), Err(e) => format!("err:{}", cls(e)) }
            )
            .unwrap();
            if w.devs.len() < 2 {
                crate::acct::set_clock(0);
                return;
            }
            n += 1;
            observe_all(&mut w, &id, n, out).await;
            // the upgraded replica keeps syncing: plain sync, one more edit, sync, the other device syncs
            for op in ["s0", "c0:d", "s0", "s1", "s0"] {
                n += 1;
                let res = w.step(op).await;
                writeln!(out, "{id} {n} op={op} res={res}").unwrap();
                observe_all(&mut w, &id, n, out).await;
            }
            crate::acct::set_clock(0);
        });
        let _ = std::fs::remove_dir_all(base.join(&id));
        // control: the same history and the same tail without any upgrade (which sync results are the
        // history's own doing)
        rt.block_on(async {
            let mut w = World::new(base.join(format!("{id}-ctl")), false, false, 2, Gate::default()).await;
            let mut n = 0;
            for op in hist.iter() {
                n += 1;
                let _ = w.step(op).await;
            }
            if side == "client" {
                let acct = w.devs[0].bridge.account.clone();
                let mut a = acct.lock().await;
                let _ = add_attachments(&w, &mut a).await;
            }
            n += 1;
            for op in ["s0", "c0:d", "s0", "s1", "s0"] {
                n += 1;
                let res = w.step(op).await;
                writeln!(out, "{id} ctl {n} op={op} res={res}").unwrap();
                let mut lines = vec![];
                for d in 0..w.devs.len() {
                    w.observe_device(d, &mut lines).await;
                }
                w.observe_server(&mut lines).await;
                for l in lines {
                    if !l.starts_with('!') && l.contains(" log ") {
                        let short: Vec<&str> = l.split_whitespace().take(4).collect();
                        writeln!(out, "{id} ctl {n} {}", short.join(" ")).unwrap();
                    }
                }
            }
            crate::acct::set_clock(0);
        });
        let _ = std::fs::remove_dir_all(base.join(format!("{id}-ctl")));
    }
}
