//! C11: the real HTTP server on loopback, every route with every credential form.
//! Case:  "c11 <id> access=<none|allowA|denyA|allowO|denyO|bothA|allowAdenyO> sbe=fs|db reqs=<route>.<cred>.<phase>,..."
//! Setup per case: a server (sos_server, started exactly like the repository's test server) with
//! the access lists; account A (devices d0 trusted, d1 trusted until phase 1 revokes it) and
//! account B (device bk) are created over HTTP with valid credentials.
//! For every request: the storage directory of the server is hashed before and after and the
//! HTTP status recorded:
//!   <id> req <n> route=<r> cred=<c> phase=<p> status=<code> changed=<0|1>
//! Routes (signed bytes in brackets):
//!   head,fetch,delete,status [path] · create,update,sync,scan,diff,patch [body] ·
//!   files(compare) [path, has a body] · fput,fmove,fget,fdel [path] · ws [path]
//! Credential forms:
//!   valid · none (no Authorization) · malformed · short (base58 of 10 bytes) · dotted (legacy) ·
//!   nohdr (no account header) · unknown (random key) · revoked (d1) · otherbytes (d0 over other bytes) ·
//!   otheracct (B's key, account A) · toB (A's key, account B) · denyhdr (valid for account A2 that the lists refuse) ·
//!   dropped (d2: trusted until phase 2 cuts its Trust event off the device log by a rewinding patch) ·
//!   rerevoked (d3: trusted, revoked, trusted again before phase 0; phase 1 revokes it a second time) ·
//!   bodyswap (valid signature, but the body sent differs from the one the client built: only meaningful where a body is sent)
use crate::sync::{password, Device, Gate, Server};
use crate::util::{kv, rt};
use async_trait::async_trait;
use sha2::{Digest, Sha256};
use sos_account::{Account, LocalAccount};
use sos_core::{
    commit::CommitHash,
    device::TrustedDevice,
    encode,
    events::{DeviceEvent, EventLog, EventLogType, EventRecord},
    AccountId, Origin, SecretId, VaultId,
};
use sos_login::device::DeviceSigner;
use sos_protocol::{
    network_client::{HttpClient, HttpClientOptions},
    transfer::FileTransferQueueSender,
    DiffRequest, PatchRequest, ScanRequest, SyncOptions, WireEncodeDecode,
};
use sos_remote_sync::{AutoMerge, RemoteSyncHandler};
use sos_server::{AccessControlConfig, ServerConfig};
use sos_signer::ed25519::{BinaryEd25519Signature, BoxedEd25519Signer};
use sos_sync::{StorageEventLogs, SyncDirection, SyncStorage, UpdateSet};
use std::collections::HashSet;
use std::io::Write;
use std::net::SocketAddr;
use std::path::{Path, PathBuf};
use std::sync::Arc;
use tokio::io::{AsyncReadExt, AsyncWriteExt};
use tokio::sync::Mutex;

pub struct HttpBridge {
    pub account_id: AccountId,
    pub account: Arc<Mutex<LocalAccount>>,
    pub client: HttpClient,
    pub origin: Origin,
    pub queue: FileTransferQueueSender,
}

#[async_trait]
impl RemoteSyncHandler for HttpBridge {
    type Client = HttpClient;
    type Account = LocalAccount;
    type Error = sos_net::Error;
    fn direction(&self) -> SyncDirection {
        SyncDirection::Push
    }
    fn client(&self) -> &Self::Client {
        &self.client
    }
    fn origin(&self) -> &Origin {
        &self.origin
    }
    fn account_id(&self) -> &AccountId {
        &self.account_id
    }
    fn account(&self) -> Arc<Mutex<Self::Account>> {
        self.account.clone()
    }
    fn file_transfer_queue(&self) -> &FileTransferQueueSender {
        &self.queue
    }
    async fn execute_sync_file_transfers(&self) -> Result<(), Self::Error> {
        Ok(())
    }
}
impl AutoMerge for HttpBridge {}

fn tree_digest(dir: &Path) -> String {
    fn walk(p: &Path, rel: String, out: &mut Vec<(String, Vec<u8>)>) {
        let Ok(rd) = std::fs::read_dir(p) else { return };
        for e in rd.flatten() {
            let name = e.file_name().to_string_lossy().to_string();
            let r = if rel.is_empty() { name.clone() } else { format!("{rel}/{name}") };
            if e.file_type().map(|t| t.is_dir()).unwrap_or(false) {
                if name == "logs" {
                    continue;
                }
                out.push((format!("{r}/"), vec![]));
                walk(&e.path(), r, out);
            } else if !name.ends_with("-shm") {
                out.push((r, std::fs::read(e.path()).unwrap_or_default()));
            }
        }
    }
    let mut v = vec![];
    walk(dir, String::new(), &mut v);
    v.sort();
    let mut h = Sha256::new();
    for (k, b) in v {
        h.update(k.as_bytes());
        h.update((b.len() as u64).to_le_bytes());
        h.update(&b);
    }
    hex::encode(&h.finalize()[..8])
}

struct Resp {
    status: u16,
}

async fn http(addr: &SocketAddr, method: &str, target: &str, headers: &[(String, String)], body: &[u8]) -> Resp {
    let Ok(mut s) = tokio::net::TcpStream::connect(addr).await else { return Resp { status: 0 } };
    let upgrade = headers.iter().any(|(k, _)| k == "Upgrade");
    let mut req = format!("{method} {target} HTTP/1.1\r\nHost: {addr}\r\nContent-Length: {}\r\n", body.len());
    if !upgrade {
        req.push_str("Connection: close\r\n");
    }
    for (k, v) in headers {
        req.push_str(&format!("{k}: {v}\r\n"));
    }
    req.push_str("\r\n");
    let mut bytes = req.into_bytes();
    bytes.extend_from_slice(body);
    if s.write_all(&bytes).await.is_err() {
        return Resp { status: 0 };
    }
    let mut buf = vec![];
    if upgrade {
        // an accepted upgrade keeps the connection open: the status line is all that is needed
        let mut first = [0u8; 64];
        if let Ok(Ok(n)) = tokio::time::timeout(std::time::Duration::from_secs(10), s.read(&mut first)).await {
            buf.extend_from_slice(&first[..n]);
        }
    } else {
        let _ = tokio::time::timeout(std::time::Duration::from_secs(10), s.read_to_end(&mut buf)).await;
    }
    let text = String::from_utf8_lossy(&buf[..buf.len().min(64)]).to_string();
    let status = text.split_whitespace().nth(1).and_then(|x| x.parse().ok()).unwrap_or(0);
    Resp { status }
}

/// open a websocket on the change-notification route and keep the connection: (status, stream, bytes that
/// arrived behind the handshake answer)
async fn ws_open(addr: &SocketAddr, account: &AccountId, signer: &BoxedEd25519Signer, conn_id: &str) -> (u16, Option<tokio::net::TcpStream>, usize) {
    let path = "/api/v1/sync/changes";
    let Ok(mut s) = tokio::net::TcpStream::connect(addr).await else { return (0, None, 0) };
    let req = format!(
        "GET {path}?connection_id={conn_id} HTTP/1.1\r\nHost: {addr}\r\nContent-Length: 0\r\nx-sos-account-id: {account}\r\nAuthorization: Bearer {}\r\nConnection: Upgrade\r\nUpgrade: websocket\r\nSec-WebSocket-Version: 13\r\nSec-WebSocket-Key: dGhlIHNhbXBsZSBub25jZQ==\r\n\r\n",
        sig_token(signer, path.as_bytes()).await
    );
    if s.write_all(req.as_bytes()).await.is_err() {
        return (0, None, 0);
    }
    let mut buf: Vec<u8> = vec![];
    let mut chunk = [0u8; 512];
    let deadline = tokio::time::Instant::now() + std::time::Duration::from_secs(10);
    while !buf.windows(4).any(|w| w == b"\r\n\r\n") {
        match tokio::time::timeout_at(deadline, s.read(&mut chunk)).await {
            Ok(Ok(n)) if n > 0 => buf.extend_from_slice(&chunk[..n]),
            _ => break,
        }
    }
    let text = String::from_utf8_lossy(&buf[..buf.len().min(64)]).to_string();
    let status: u16 = text.split_whitespace().nth(1).and_then(|x| x.parse().ok()).unwrap_or(0);
    let end = buf.windows(4).position(|w| w == b"\r\n\r\n").map(|p| p + 4).unwrap_or(buf.len());
    let extra = buf.len() - end;
    if status == 101 { (status, Some(s), extra) } else { (status, None, extra) }
}
/// bytes the server pushed on an open websocket within `ms` (the server sends nothing but change notifications)
async fn ws_drain(s: &mut Option<tokio::net::TcpStream>, ms: u64) -> usize {
    let Some(s) = s.as_mut() else { return 0 };
    let mut total = 0usize;
    let mut chunk = [0u8; 4096];
    let deadline = tokio::time::Instant::now() + std::time::Duration::from_millis(ms);
    loop {
        match tokio::time::timeout_at(deadline, s.read(&mut chunk)).await {
            Ok(Ok(n)) if n > 0 => total += n,
            _ => break,
        }
    }
    total
}

/// d1 has been revoked (phase 1) and still holds the websocket it opened while trusted: discard what was pushed
/// up to and including the revocation itself, let the account make one more change, count what arrives after it
async fn ws_revoked_probe(a: &Acct, ba: &HttpBridge, sock: &mut Option<tokio::net::TcpStream>) -> usize {
    let d0 = ws_drain(sock, 800).await;
    let r1 = {
        let mut acc = a.dev.bridge.account.lock().await;
        let td = TrustedDevice::new(DeviceSigner::random().public_key(), None, None);
        acc.patch_devices_unchecked(&[DeviceEvent::Trust(td)]).await.is_ok()
    };
    let r2 = ba.execute_sync(&SyncOptions::default()).await;
    let n = ws_drain(sock, 1500).await;
    let _ = (d0, r1, r2);
    n
}

async fn sig_token(signer: &BoxedEd25519Signer, msg: &[u8]) -> String {
    let sig = signer.sign(msg).await.unwrap();
    let b: BinaryEd25519Signature = sig.into();
    bs58::encode(encode(&b).await.unwrap()).into_string()
}

struct Acct {
    dev: Device,
    id: AccountId,
    signer: BoxedEd25519Signer,
}

async fn new_account(dir: &Path, name: &str) -> Acct {
    // Device::create needs a Server object only for its DirectClient; it is never used here
    let dummy = Server::new(&dir.join("dummy-server"), AccountId::from([0u8; 20]), false).await;
    let dev = Device::create(name, &dir.join(name), dummy, false, Gate::default()).await;
    let (id, signer) = {
        let a = dev.bridge.account.lock().await;
        (*a.account_id(), a.device_signer().await.unwrap().signing_key().clone())
    };
    Acct { dev, id, signer }
}

fn bridge(a: &Acct, origin: &Origin) -> HttpBridge {
    let (tx, _rx) = tokio::sync::broadcast::channel(8);
    let client = HttpClient::new(HttpClientOptions {
        account_id: a.id,
        origin: origin.clone(),
        device_signer: a.signer.clone(),
        connection_id: "c11-harness".to_string(),
        network_config: Default::default(),
    })
    .unwrap();
    HttpBridge { account_id: a.id, account: a.dev.bridge.account.clone(), client, origin: origin.clone(), queue: tx }
}

pub fn run(text: &str, cases_path: &str, out: &mut impl Write) {
    let rt2 = rt();
    let base = std::path::Path::new(cases_path).parent().unwrap().join("data-c11");
    for line in text.lines() {
        let toks: Vec<&str> = line.split_whitespace().collect();
        if toks.len() < 2 || toks[0].starts_with('#') {
            continue;
        }
        let id = toks[1].to_string();
        let access = kv(&toks, "access").unwrap_or("none").to_string();
        let sdb = kv(&toks, "sbe") == Some("db");
        let reqs: Vec<String> = kv(&toks, "reqs").unwrap_or("").split(',').filter(|s| !s.is_empty()).map(|s| s.to_string()).collect();
        writeln!(out, "{id} !begin").unwrap();
        out.flush().unwrap();
        let dir = base.join(&id);
        let _ = std::fs::remove_dir_all(&dir);
        // sos_test_utils::spawn puts the server storage under <cwd>/../../target/integration-test
        let cwd = dir.join("x").join("y");
        std::fs::create_dir_all(&cwd).unwrap();
        std::env::set_current_dir(&cwd).unwrap();
        if sdb {
            std::env::set_var("SOS_TEST_SERVER_DB", "1");
        } else {
            std::env::remove_var("SOS_TEST_SERVER_DB");
        }
        rt2.block_on(async {
            crate::acct::set_clock(1);
            let a = new_account(&dir, "A").await;
            let b = new_account(&dir, "B").await;
            let a2 = new_account(&dir, "A2").await;
            let other = AccountId::from([7u8; 20]);
            let set = |ids: &[AccountId]| -> Option<HashSet<AccountId>> { Some(ids.iter().copied().collect()) };
            // B is always served; A2 is the account the lists refuse
            let cfg = match access.as_str() {
                "allowA" => Some(AccessControlConfig { allow: set(&[a.id, b.id]), deny: None }),
                "denyA2" => Some(AccessControlConfig { allow: None, deny: set(&[a2.id]) }),
                "denyO" => Some(AccessControlConfig { allow: None, deny: set(&[other]) }),
                "both" => Some(AccessControlConfig { allow: set(&[a.id, b.id, a2.id]), deny: set(&[a2.id]) }),
                _ => None,
            };
            // a configuration loaded from a file, like the server binary does
            let cfg_file = dir.join("config.toml");
            std::fs::write(&cfg_file, "[storage]\npath = \".\"\n").unwrap();
            let mut config = match ServerConfig::load(&cfg_file).await {
                Ok(c) => c,
                Err(e) => {
                    writeln!(out, "{id} setup-failed config {e:?}").unwrap();
                    return;
                }
            };
            config.access = cfg;
            let spawned = tokio::time::timeout(std::time::Duration::from_secs(30), sos_test_utils::spawn_with_config(&id, None, None, Some(config))).await;
            let server = match spawned {
                Ok(Ok(s)) => s,
                other => {
                    writeln!(out, "{id} setup-failed spawn {:?}", other.map(|r| r.map(|_| ()).map_err(|e| format!("{e:?}")))).unwrap();
                    return;
                }
            };
            let addr = server.addr;
            let origin = server.origin.clone();
            let srv_dir: PathBuf = server.paths.documents_dir().to_path_buf();

            // a stranger (a key no account knows) subscribes to A's change notifications before A exists on the server
            let stranger_signer = DeviceSigner::random().signing_key().clone();
            let (st_status, mut st_sock, st_extra) = ws_open(&addr, &a.id, &stranger_signer, "c11-stranger").await;
            // accounts A and B reach the server through the SDK's own client (valid credentials)
            let ba = bridge(&a, &origin);
            let bb = bridge(&b, &origin);
            let r1 = ba.execute_sync(&SyncOptions::default()).await;
            let r2 = bb.execute_sync(&SyncOptions::default()).await;
            writeln!(out, "{id} !setup syncA={} syncB={}", r1.is_ok(), r2.is_ok()).unwrap();
            // a second trusted device for A
            let d1 = DeviceSigner::random();
            let d1_signer = d1.signing_key().clone();
            {
                let mut acc = a.dev.bridge.account.lock().await;
                let td = TrustedDevice::new(d1.public_key(), None, None);
                let r = acc.patch_devices_unchecked(&[DeviceEvent::Trust(td)]).await;
                writeln!(out, "{id} !setup trust_d1={}", r.is_ok()).unwrap();
            }
            // a third one (d2): phase 2 drops it from the device log by a rewinding patch, without a Revoke event
            let d2 = DeviceSigner::random();
            let d2_signer = d2.signing_key().clone();
            {
                let mut acc = a.dev.bridge.account.lock().await;
                let td = TrustedDevice::new(d2.public_key(), None, None);
                let r = acc.patch_devices_unchecked(&[DeviceEvent::Trust(td)]).await;
                writeln!(out, "{id} !setup trust_d2={}", r.is_ok()).unwrap();
            }
            // a fourth one (d3): trusted, revoked and trusted again before phase 0 (so it is trusted in phase 0);
            // phase 1 revokes it a second time: the device log then holds Revoke(d3) twice, byte-identical
            let d3 = DeviceSigner::random();
            let d3_signer = d3.signing_key().clone();
            {
                let mut acc = a.dev.bridge.account.lock().await;
                let r1 = acc.patch_devices_unchecked(&[DeviceEvent::Trust(TrustedDevice::new(d3.public_key(), None, None))]).await;
                let r2 = acc.revoke_device(&d3.public_key()).await;
                let r3 = acc.patch_devices_unchecked(&[DeviceEvent::Trust(TrustedDevice::new(d3.public_key(), None, None))]).await;
                writeln!(out, "{id} !setup trust_revoke_trust_d3={}{}{}", r1.is_ok() as u8, r2.is_ok() as u8, r3.is_ok() as u8).unwrap();
            }
            let r3 = ba.execute_sync(&SyncOptions::default()).await;
            writeln!(out, "{id} !setup sync_trust={}", r3.is_ok()).unwrap();
            // d1, trusted now, opens a websocket of its own and keeps it
            let (d1_status, mut d1_sock, _) = ws_open(&addr, &a.id, &d1_signer, "c11-d1").await;
            let mut revoked_probe: Option<usize> = None;
            // a file blob on the server for the file routes (uploaded with valid credentials below)
            let folder: VaultId = { *a.dev.bridge.account.lock().await.default_folder().await.unwrap().id() };
            let secret = SecretId::new_v4();
            let blob = b"c11 attachment bytes".to_vec();
            let blob_name = hex::encode(Sha256::digest(&blob));
            let file_path = format!("/api/v1/sync/file/{folder}/{secret}/{blob_name}");
            let unknown = DeviceSigner::random().signing_key().clone();

            let mut phase_now = 0;
            for (n, spec) in reqs.iter().enumerate() {
                let parts: Vec<&str> = spec.split('.').collect();
                let (route, cred, phase) = (parts[0], parts[1], parts.get(2).and_then(|p| p.parse::<u32>().ok()).unwrap_or(0));
                if phase >= 1 && phase_now == 0 {
                    let mut acc = a.dev.bridge.account.lock().await;
                    let r = acc.revoke_device(&d1.public_key()).await;
                    let rr = acc.revoke_device(&d3.public_key()).await;
                    drop(acc);
                    let r2 = ba.execute_sync(&SyncOptions::default()).await;
                    writeln!(out, "{id} !setup revoke_d1={} revoke_d3_again={} sync={}", r.is_ok(), rr.is_ok(), r2.is_ok()).unwrap();
                    // d1 is revoked now and still holds the websocket it opened while trusted
                    revoked_probe = Some(ws_revoked_probe(&a, &ba, &mut d1_sock).await);
                    phase_now = 1;
                }
                if phase >= 2 && phase_now == 1 {
                    // a device-log patch in the form the auto merge sends: rewind to the record that trusted d1,
                    // then append one new event.  What it cuts off: Trust(d2) and Revoke(d1).
                    let (body, info) = {
                        let acc = a.dev.bridge.account.lock().await;
                        let log = acc.device_log().await.unwrap();
                        let log = log.read().await;
                        let leaves = log.tree().leaves().unwrap_or_default();
                        // records: [Trust d0, Trust d1, Trust d2, Revoke d1, ...]
                        let keep = 2usize.min(leaves.len());
                        let mut prefix = sos_core::commit::CommitTree::new();
                        let mut lv = leaves[..keep].to_vec();
                        prefix.append(&mut lv);
                        prefix.commit();
                        let proof = prefix.head().unwrap();
                        let commit = Some(CommitHash(leaves[keep - 1]));
                        let td = TrustedDevice::new(DeviceSigner::random().public_key(), None, None);
                        let mut rec = EventRecord::encode_event(&DeviceEvent::Trust(td)).await.unwrap();
                        rec.set_last_commit(commit);
                        let r = PatchRequest { log_type: EventLogType::Device, commit, proof, patch: vec![rec] };
                        (r.encode().await.unwrap(), format!("log_len={} keep={keep}", leaves.len()))
                    };
                    let headers = vec![
                        ("x-sos-account-id".to_string(), a.id.to_string()),
                        ("Authorization".to_string(), format!("Bearer {}", sig_token(&a.signer, &body).await)),
                        ("Content-Type".to_string(), "application/x-protobuf".to_string()),
                    ];
                    let resp = http(&addr, "PATCH", "/api/v1/sync/account/events?connection_id=c11-probe", &headers, &body).await;
                    writeln!(out, "{id} !setup rewind_patch status={} {info}", resp.status).unwrap();
                    phase_now = 2;
                }
                // the request: method, target, body, what the handler treats as signed bytes
                let q = "?connection_id=c11-probe";
                let acc = a.dev.bridge.account.lock().await;
                let (method, path, body): (&str, String, Vec<u8>) = match route {
                    "head" => ("HEAD", "/api/v1/sync/account".into(), vec![]),
                    "fetch" => ("GET", "/api/v1/sync/account".into(), vec![]),
                    "delete" => ("DELETE", "/api/v1/sync/account".into(), vec![]),
                    "status" => ("GET", "/api/v1/sync/account/status".into(), vec![]),
                    "create" => ("PUT", "/api/v1/sync/account".into(), acc.create_set().await.unwrap().encode().await.unwrap()),
                    "update" => {
                        // a forced overwrite of the account log by the device's whole log
                        let log = acc.account_log().await.unwrap();
                        let log = log.read().await;
                        let diff = log.diff_unchecked().await.unwrap();
                        let set = UpdateSet { account: Some(diff), ..Default::default() };
                        ("POST", "/api/v1/sync/account".into(), set.encode().await.unwrap())
                    }
                    "sync" => {
                        let status = acc.sync_status().await.unwrap();
                        let packet = sos_sync::SyncPacket { status, diff: Default::default(), compare: None };
                        ("PATCH", "/api/v1/sync/account".into(), packet.encode().await.unwrap())
                    }
                    "scan" => {
                        let r = ScanRequest { log_type: EventLogType::Account, limit: 8, offset: 0 };
                        ("GET", "/api/v1/sync/account/events".into(), r.encode().await.unwrap())
                    }
                    "diff" => {
                        let r = DiffRequest { log_type: EventLogType::Account, from_hash: None };
                        ("POST", "/api/v1/sync/account/events".into(), r.encode().await.unwrap())
                    }
                    "patch" => {
                        // a patch that WOULD apply: one new device event on top of the server's device log head
                        let log = acc.device_log().await.unwrap();
                        let log = log.read().await;
                        let proof = log.tree().head().unwrap();
                        let commit: Option<CommitHash> = log.tree().last_commit();
                        let td = TrustedDevice::new(DeviceSigner::random().public_key(), None, None);
                        let mut rec = EventRecord::encode_event(&DeviceEvent::Trust(td)).await.unwrap();
                        rec.set_last_commit(commit);
                        let r = PatchRequest { log_type: EventLogType::Device, commit, proof, patch: vec![rec] };
                        ("PATCH", "/api/v1/sync/account/events".into(), r.encode().await.unwrap())
                    }
                    "files" => {
                        let set = sos_core::ExternalFile::new(sos_core::SecretPath(folder, secret), { let d: [u8; 32] = Sha256::digest(&blob).into(); d.into() });
                        let fs = sos_protocol::transfer::FileSet([set].into_iter().collect());
                        ("POST", "/api/v1/sync/files".into(), fs.encode().await.unwrap())
                    }
                    "fput" => ("PUT", file_path.clone(), blob.clone()),
                    "fget" => ("GET", file_path.clone(), vec![]),
                    "fdel" => ("DELETE", file_path.clone(), vec![]),
                    "fmove" => ("POST", file_path.clone(), vec![]),
                    "ws" => ("GET", "/api/v1/sync/changes".into(), vec![]),
                    _ => ("GET", "/api/v1".into(), vec![]),
                };
                drop(acc);
                let body_signed = matches!(route, "create" | "update" | "sync" | "scan" | "diff" | "patch");
                let signed: Vec<u8> = if body_signed { body.clone() } else { path.as_bytes().to_vec() };
                let mut other_bytes = signed.clone();
                if let Some(last) = other_bytes.last_mut() {
                    *last ^= 1;
                }
                let mut target = format!("{path}{q}");
                if route == "fmove" {
                    target.push_str(&format!("&vault_id={folder}&secret_id={}&name={blob_name}", SecretId::new_v4()));
                }
                let mut headers: Vec<(String, String)> = vec![];
                if !body.is_empty() {
                    headers.push(("Content-Type".into(), "application/x-protobuf".into()));
                }
                if route == "ws" {
                    headers.push(("Connection".into(), "Upgrade".into()));
                    headers.push(("Upgrade".into(), "websocket".into()));
                    headers.push(("Sec-WebSocket-Version".into(), "13".into()));
                    headers.push(("Sec-WebSocket-Key".into(), "dGhlIHNhbXBsZSBub25jZQ==".into()));
                }
                let hdr_account = |x: &AccountId| ("x-sos-account-id".to_string(), x.to_string());
                match cred {
                    "valid" | "bodyswap" => {
                        headers.push(hdr_account(&a.id));
                        headers.push(("Authorization".into(), format!("Bearer {}", sig_token(&a.signer, &signed).await)));
                    }
                    "none" => headers.push(hdr_account(&a.id)),
                    "malformed" => {
                        headers.push(hdr_account(&a.id));
                        headers.push(("Authorization".into(), "Bearer 0OIl-not-base58".into()));
                    }
                    "short" => {
                        headers.push(hdr_account(&a.id));
                        headers.push(("Authorization".into(), format!("Bearer {}", bs58::encode([1u8; 10]).into_string())));
                    }
                    "dotted" => {
                        headers.push(hdr_account(&a.id));
                        let t = sig_token(&a.signer, &signed).await;
                        headers.push(("Authorization".into(), format!("Bearer {t}.{t}")));
                    }
                    "nohdr" => headers.push(("Authorization".into(), format!("Bearer {}", sig_token(&a.signer, &signed).await))),
                    "unknown" => {
                        headers.push(hdr_account(&a.id));
                        headers.push(("Authorization".into(), format!("Bearer {}", sig_token(&unknown, &signed).await)));
                    }
                    "revoked" => {
                        headers.push(hdr_account(&a.id));
                        headers.push(("Authorization".into(), format!("Bearer {}", sig_token(&d1_signer, &signed).await)));
                    }
                    "dropped" => {
                        headers.push(hdr_account(&a.id));
                        headers.push(("Authorization".into(), format!("Bearer {}", sig_token(&d2_signer, &signed).await)));
                    }
                    "rerevoked" => {
                        headers.push(hdr_account(&a.id));
                        headers.push(("Authorization".into(), format!("Bearer {}", sig_token(&d3_signer, &signed).await)));
                    }
                    "otherbytes" => {
                        headers.push(hdr_account(&a.id));
                        headers.push(("Authorization".into(), format!("Bearer {}", sig_token(&a.signer, &other_bytes).await)));
                    }
                    "otheracct" => {
                        headers.push(hdr_account(&a.id));
                        headers.push(("Authorization".into(), format!("Bearer {}", sig_token(&b.signer, &signed).await)));
                    }
                    "toB" => {
                        headers.push(hdr_account(&b.id));
                        headers.push(("Authorization".into(), format!("Bearer {}", sig_token(&a.signer, &signed).await)));
                    }
                    "denyhdr" => {
                        // an account the access lists refuse, with its own valid device signature
                        headers.push(hdr_account(&a2.id));
                        headers.push(("Authorization".into(), format!("Bearer {}", sig_token(&a2.signer, &signed).await)));
                    }
                    _ => {}
                }
                // bodyswap: the credential is valid for the bytes the client signed, the body sent is another one
                let body = if cred == "bodyswap" {
                    let fs = sos_protocol::transfer::FileSet(Default::default());
                    fs.encode().await.unwrap()
                } else {
                    body
                };
                let before = tree_digest(&srv_dir);
                let resp = http(&addr, method, &target, &headers, &body).await;
                // let the server finish anything it does after responding
                tokio::time::sleep(std::time::Duration::from_millis(15)).await;
                let after = tree_digest(&srv_dir);
                writeln!(out, "{id} req {n} route={route} cred={cred} phase={phase} status={} changed={}", resp.status, (before != after) as u8).unwrap();
            }
            // websocket probes: what the server pushed to sockets held by keys the account does not trust
            let stranger_bytes = st_extra + ws_drain(&mut st_sock, 1500).await;
            writeln!(out, "{id} wsprobe who=stranger status={st_status} pushed={stranger_bytes}").unwrap();
            match revoked_probe {
                Some(n) => writeln!(out, "{id} wsprobe who=revoked status={d1_status} pushed={n}").unwrap(),
                None => writeln!(out, "{id} wsprobe who=revoked status={d1_status} pushed=na").unwrap(),
            }
            crate::acct::set_clock(0);
            drop(server);
        });
        let _ = std::env::set_current_dir(&base);
        let _ = std::fs::remove_dir_all(&dir);
        let _ = password();
    }
}

/// C17 (b): uploads of a blob to the real server under the name sha256(correct body), with bodies that
/// do or do not hash to that name; after each attempt the server directory is inspected.
pub fn upload_case(id: &str, toks: &[&str], base: &Path, out: &mut impl Write) {
    let rt2 = rt();
    let sdb = kv(toks, "sbe") == Some("db");
    let bodies: Vec<String> = kv(toks, "bodies").unwrap_or("correct").split(',').map(|s| s.to_string()).collect();
    let dir = base.join(id);
    let _ = std::fs::remove_dir_all(&dir);
    let cwd = dir.join("x").join("y");
    std::fs::create_dir_all(&cwd).unwrap();
    std::env::set_current_dir(&cwd).unwrap();
    if sdb {
        std::env::set_var("SOS_TEST_SERVER_DB", "1");
    } else {
        std::env::remove_var("SOS_TEST_SERVER_DB");
    }
    rt2.block_on(async {
        crate::acct::set_clock(1);
        let a = new_account(&dir, "A").await;
        let cfg_file = dir.join("config.toml");
        std::fs::write(&cfg_file, "[storage]\npath = \".\"\n").unwrap();
        let Ok(config) = ServerConfig::load(&cfg_file).await else {
            writeln!(out, "{id} setup-failed config").unwrap();
            return;
        };
        let spawned = tokio::time::timeout(std::time::Duration::from_secs(30), sos_test_utils::spawn_with_config(id, None, None, Some(config))).await;
        let server = match spawned {
            Ok(Ok(s)) => s,
            _ => {
                writeln!(out, "{id} setup-failed spawn").unwrap();
                return;
            }
        };
        let addr = server.addr;
        let origin = server.origin.clone();
        let srv_dir: PathBuf = server.paths.documents_dir().to_path_buf();
        let ba = bridge(&a, &origin);
        let r1 = ba.execute_sync(&SyncOptions::default()).await;
        writeln!(out, "{id} !setup syncA={}", r1.is_ok()).unwrap();
        let folder: VaultId = { *a.dev.bridge.account.lock().await.default_folder().await.unwrap().id() };
        for (k, kind) in bodies.iter().enumerate() {
            // a fresh blob (and secret id) per attempt so that attempts do not see each other's files
            let secret = SecretId::new_v4();
            let correct: Vec<u8> = format!("c17 blob number {k} {}", "z".repeat(200 + 37 * k)).into_bytes();
            let name = hex::encode(Sha256::digest(&correct));
            let body: Vec<u8> = match kind.as_str() {
                "correct" => correct.clone(),
                "altered" => {
                    let mut b = correct.clone();
                    let i = b.len() / 2;
                    b[i] ^= 1;
                    b
                }
                "truncated" => correct[..correct.len() / 2].to_vec(),
                "empty" => vec![],
                "extended" => {
                    let mut b = correct.clone();
                    b.push(0);
                    b
                }
                _ => b"some other file entirely".to_vec(),
            };
            let path = format!("/api/v1/sync/file/{folder}/{secret}/{name}");
            let headers = vec![
                ("x-sos-account-id".to_string(), a.id.to_string()),
                ("Authorization".to_string(), format!("Bearer {}", sig_token(&a.signer, path.as_bytes()).await)),
                ("Content-Type".to_string(), "application/octet-stream".to_string()),
            ];
            let resp = http(&addr, "PUT", &format!("{path}?connection_id=c17"), &headers, &body).await;
            tokio::time::sleep(std::time::Duration::from_millis(20)).await;
            // what the server holds for this secret now
            let mut found: Vec<(String, Vec<u8>)> = vec![];
            fn walk(p: &Path, needle: &str, out: &mut Vec<(String, Vec<u8>)>) {
                let Ok(rd) = std::fs::read_dir(p) else { return };
                for e in rd.flatten() {
                    if e.file_type().map(|t| t.is_dir()).unwrap_or(false) {
                        walk(&e.path(), needle, out);
                    } else if e.path().to_string_lossy().contains(needle) {
                        out.push((e.file_name().to_string_lossy().to_string(), std::fs::read(e.path()).unwrap_or_default()));
                    }
                }
            }
            walk(&srv_dir, &secret.to_string(), &mut found);
            let fin = match found.iter().find(|(n, _)| *n == name) {
                None => "absent".to_string(),
                Some((_, b)) => {
                    if hex::encode(Sha256::digest(b)) == name { "ok".to_string() } else { "BADHASH".to_string() }
                }
            };
            let leftovers: Vec<String> = found.iter().filter(|(n, _)| *n != name).map(|(n, _)| if n.ends_with(".upload") { "upload".to_string() } else { n.chars().take(12).collect() }).collect();
            writeln!(out, "{id} up {k} body={kind} status={} final={fin} leftovers={}", resp.status, leftovers.join(",")).unwrap();
            // a stored blob moved (by its owner, valid signature) to a destination whose NAME is not its hash
            if kind == "correct" && k == 0 {
                let other_name = hex::encode(Sha256::digest(b"not the content of that blob"));
                let dest_secret = SecretId::new_v4();
                let headers = vec![
                    ("x-sos-account-id".to_string(), a.id.to_string()),
                    ("Authorization".to_string(), format!("Bearer {}", sig_token(&a.signer, path.as_bytes()).await)),
                ];
                let target = format!("{path}?connection_id=c17&vault_id={folder}&secret_id={dest_secret}&name={other_name}");
                let resp = http(&addr, "POST", &target, &headers, &[]).await;
                tokio::time::sleep(std::time::Duration::from_millis(20)).await;
                let mut found: Vec<(String, Vec<u8>)> = vec![];
                walk(&srv_dir, &dest_secret.to_string(), &mut found);
                let bad = found.iter().filter(|(n, b)| n.len() == 64 && hex::encode(Sha256::digest(b)) != *n).count();
                writeln!(out, "{id} mv status={} stored={} name_not_hash={bad}", resp.status, found.len()).unwrap();
            }
        }
        crate::acct::set_clock(0);
        drop(server);
    });
    let _ = std::env::set_current_dir(base);
    let _ = std::fs::remove_dir_all(&dir);
}

