(* C04 — devices and server converge once edits stop and everyone syncs.
   Model: model/SyncProto.v, one event log, atomic requests.  The tree comparison is a
   parameter whose laws L1-L4 are what C08 proves for CommitTree::compare modulo explicit hash
   collisions (C08_equal_sound/complete, C08_contains_complete, C08_contains_char): the
   theorems below therefore hold for a collision-free hash.
   Proved: one uninterrupted sync of a device whose log shares a non-empty prefix with the
   server's ends with device log = server log, in each of the three possible shapes (device
   ahead, server ahead, diverged) — under the stated hypotheses: no commit hash occurs twice in
   a log, and (diverged case) no position beyond the common prefix holds the same commit on
   both sides.  Convergence of any number of devices after quiescent rounds follows by
   iterating these steps; it is checked on real accounts by the correspondence run, not proved
   here (partial). *)
From Coq Require Import List NArith.
From SosModel Require Import model.EventLog model.MergePatches model.SyncProto proofs.SyncProto_Lemmas.
Import ListNotations.

Section C04.
Variable hash : Type.
Variable hash_eqb : hash -> hash -> bool.
Hypothesis hash_eqb_spec : forall a b, hash_eqb a b = true <-> a = b.
Variable dat : Type.
Variable cmpf : list hash -> list hash -> cmp3.
Hypothesis L1 : forall a, cmpf a a = CEq.
Hypothesis L2 : forall a b, cmpf a b = CEq -> a = b.
Hypothesis L3 : forall b s, b <> [] -> s <> [] -> cmpf (b ++ s) b = CContains.
Hypothesis L4 : forall a b, cmpf a b = CContains ->
  b <> [] /\ nth_error a (length b - 1) = nth_error b (length b - 1).
Notation sync_log := (sync_log hash hash_eqb dat cmpf).
Notation commits := (commits hash dat).

Theorem C04_sync_device_ahead srv s : srv <> [] -> s <> [] -> NoDup (commits (srv ++ s)) ->
  sync_log (srv ++ s) srv = (SyncOk, srv ++ s, srv ++ s).
Proof. exact (sync_push hash hash_eqb hash_eqb_spec dat cmpf L3 srv s). Qed.

Theorem C04_sync_server_ahead dev s : dev <> [] -> s <> [] -> NoDup (commits (dev ++ s)) ->
  sync_log dev (dev ++ s) = (SyncOk, dev ++ s, dev ++ s).
Proof. exact (sync_pull hash hash_eqb hash_eqb_spec dat cmpf L1 L2 L3 L4 dev s). Qed.

Theorem C04_sync_diverged p x l r : l <> [] -> r <> [] ->
  NoDup (commits (p ++ x :: l)) -> NoDup (commits (p ++ x :: r)) ->
  NoAlignedMatch hash (S (length p)) (commits (p ++ x :: l)) (commits (p ++ x :: r)) ->
  exists m, sync_log (p ++ x :: l) (p ++ x :: r) = (SyncOk, (p ++ [x]) ++ m, (p ++ [x]) ++ m).
Proof. exact (sync_diverged hash hash_eqb hash_eqb_spec dat cmpf L1 L2 L3 L4 p x l r). Qed.

Theorem C04_sync_equal l : sync_log l l = (SyncOk, l, l).
Proof. exact (sync_equal hash hash_eqb dat cmpf L1 l). Qed.
End C04.

Print Assumptions C04_sync_device_ahead.
Print Assumptions C04_sync_server_ahead.
Print Assumptions C04_sync_diverged.
Print Assumptions C04_sync_equal.
