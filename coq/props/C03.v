(* C03 — secret material never reaches storage or the network unencrypted.
   What is proved: the byte-level structure of every folder write event (the only carrier of
   secret meta/secret data in logs, patches, diffs and sync packets).  Its encoding is exactly a
   sequence of public chunks and ciphertext chunks, and the public chunks and the ciphertext
   lengths are a function of the public fields (tag, id, commit, nonces, lengths) alone: two
   events that agree on those store identical bytes outside the ciphertext ranges, whatever was
   encrypted.  That the ciphertext reveals nothing is the cipher's property (C10, assumed).
   The vault header inside CreateVault, the identity folder, archives, audit files, SQLite pages
   and the wire encodings are covered by the marker scan on the implementation, not by a theorem. *)
From Coq Require Import List NArith.
From SosModel Require Import base.Bytes model.Formats model.Taint proofs.Taint_Lemmas.
Import ListNotations.

Theorem C03_split_exact e : join (split_event e) = e_write_event e.
Proof. exact (split_exact e). Qed.

Theorem C03_public_noninterference e f : same_public e f ->
  publics (split_event e) = publics (split_event f) /\ ct_lengths (split_event e) = ct_lengths (split_event f).
Proof. exact (public_noninterference e f). Qed.

(* non-vacuity: two create events with different ciphertexts of equal length *)
Example C03_nonvacuous :
  let a1 := mkAead (Nonce12 (repeat 1%N 12)) [5;6;7]%N in
  let a2 := mkAead (Nonce12 (repeat 1%N 12)) [9;9;9]%N in
  let e1 := WCreateSecret (repeat 2%N 16) (mkVCommit (repeat 3%N 32) a1 a1) in
  let e2 := WCreateSecret (repeat 2%N 16) (mkVCommit (repeat 3%N 32) a2 a2) in
  same_public e1 e2 /\ e_write_event e1 <> e_write_event e2 /\ publics (split_event e1) = publics (split_event e2).
Proof. cbv zeta. repeat split; try reflexivity. vm_compute. discriminate. Qed.

Print Assumptions C03_split_exact.
Print Assumptions C03_public_noninterference.
