From Coq Require Import List Bool.
From SosModel Require Import model.Files.
Import ListNotations.

Section FilesLemmas.
Variable file : Type.
Variable file_eqb : file -> file -> bool.
Hypothesis file_eqb_spec : forall a b, file_eqb a b = true <-> a = b.
Notation fevent := (fevent file).
Notation fmem := (fmem file file_eqb).
Notation fremove := (fremove file file_eqb).
Notation finsert := (finsert file file_eqb).
Notation fstep := (fstep file file_eqb).
Notation freduce := (freduce file file_eqb).
Notation dev_run := (dev_run file file_eqb).

Lemma feq_refl a : file_eqb a a = true. Proof. apply file_eqb_spec. reflexivity. Qed.
Lemma fmem_in f s : fmem f s = true <-> In f s.
Proof.
  unfold Files.fmem. rewrite existsb_exists. split.
  - intros (x & Hx & E). apply file_eqb_spec in E. subst x. exact Hx.
  - intro Hin. exists f. split; [exact Hin|apply feq_refl].
Qed.
Lemma in_fremove f g s : In g (fremove f s) <-> In g s /\ g <> f.
Proof.
  unfold Files.fremove. rewrite filter_In. split.
  - intros [Hin Hne]. split; [exact Hin|]. intros ->. rewrite feq_refl in Hne. discriminate.
  - intros [Hin Hne]. split; [exact Hin|]. destruct (file_eqb f g) eqn:E; [|reflexivity].
    apply file_eqb_spec in E. subst g. contradiction.
Qed.
Lemma in_finsert f g s : In g (finsert f s) <-> In g s \/ g = f.
Proof.
  unfold Files.finsert. destruct (fmem f s) eqn:E.
  - apply fmem_in in E. split; [tauto|]. intros [Hin| ->]; assumption.
  - rewrite in_app_iff. cbn [In]. split.
    + intros [Hin|[Heq|[]]]; [left; exact Hin|right; symmetry; exact Heq].
    + intros [Hin|Heq]; [left; exact Hin|right; left; symmetry; exact Heq].
Qed.
Lemma nodup_fremove f s : NoDup s -> NoDup (fremove f s).
Proof. intro H. unfold Files.fremove. apply NoDup_filter. exact H. Qed.
Lemma nodup_snoc (A : Type) (l : list A) x : NoDup l -> ~ In x l -> NoDup (l ++ [x]).
Proof.
  induction l as [|a l IH]; intros Hnd Hn; cbn [app].
  - constructor; [intros []|constructor].
  - inversion Hnd as [|? ? Ha Hl]; subst. constructor.
    + rewrite in_app_iff. cbn [In]. intros [H|[H|[]]]; [contradiction|]. subst. apply Hn. left. reflexivity.
    + apply IH; [exact Hl|]. intro H. apply Hn. right. exact H.
Qed.
Lemma nodup_finsert f s : NoDup s -> NoDup (finsert f s).
Proof.
  intro H. unfold Files.finsert. destruct (fmem f s) eqn:E; [exact H|].
  apply nodup_snoc; [exact H|]. intro Hin. apply fmem_in in Hin. rewrite Hin in E. discriminate.
Qed.

(* the reduced set has no duplicates, whatever the event history *)
Lemma nodup_fstep s e : NoDup s -> NoDup (fstep s e).
Proof.
  intro H. destruct e as [f|a b|f]; cbn [Files.fstep].
  - apply nodup_finsert. exact H.
  - apply nodup_finsert. apply nodup_fremove. exact H.
  - apply nodup_fremove. exact H.
Qed.
Theorem freduce_nodup evs : NoDup (freduce evs).
Proof.
  unfold Files.freduce. assert (forall s, NoDup s -> NoDup (fold_left fstep evs s)) as G.
  { induction evs as [|e evs IH]; intros s Hs; [exact Hs|]. cbn [fold_left]. apply IH. apply nodup_fstep. exact Hs. }
  apply G. constructor.
Qed.

(* membership after one more event *)
Theorem reduce_create evs f g : In g (freduce (evs ++ [FCreate _ f])) <-> In g (freduce evs) \/ g = f.
Proof. unfold Files.freduce. rewrite fold_left_app. cbn [fold_left Files.fstep]. apply in_finsert. Qed.
Theorem reduce_delete evs f g : In g (freduce (evs ++ [FDelete _ f])) <-> In g (freduce evs) /\ g <> f.
Proof. unfold Files.freduce. rewrite fold_left_app. cbn [fold_left Files.fstep]. apply in_fremove. Qed.
Theorem reduce_move evs a b g :
  In g (freduce (evs ++ [FMove _ a b])) <-> (In g (freduce evs) /\ g <> a) \/ g = b.
Proof.
  unfold Files.freduce. rewrite fold_left_app. cbn [fold_left Files.fstep]. rewrite in_finsert, in_fremove. tauto.
Qed.

(* the editing device: the blob directory is the replay of the file log, after any history *)
Theorem blobs_eq_reduce es : blobs _ (dev_run es) = freduce (flog _ (dev_run es)).
Proof.
  unfold Files.dev_run.
  assert (forall d, blobs _ d = freduce (flog _ d) ->
          blobs _ (fold_left (dev_apply file file_eqb) es d) = freduce (flog _ (fold_left (dev_apply file file_eqb) es d))) as G.
  { induction es as [|e es IH]; intros d Hd; [exact Hd|]. cbn [fold_left]. apply IH.
    unfold Files.dev_apply. cbn [blobs flog]. unfold Files.freduce. rewrite fold_left_app. cbn [fold_left].
    fold (freduce (flog _ d)). rewrite <- Hd. reflexivity. }
  apply G. reflexivity.
Qed.
End FilesLemmas.

(* ---- the upload machine ---- *)
Section Upload.
Variables name bytes : Type.
Variable name_eqb : name -> name -> bool.
Hypothesis name_eqb_spec : forall a b, name_eqb a b = true <-> a = b.
Variable H : bytes -> name.
Notation srv := (srv name bytes).
Notation ustep_apply := (ustep_apply name bytes name_eqb H).
Notation receive_steps := (receive_steps name bytes name_eqb H).

(* everything under a final name hashes to that name *)
Definition store_ok (s : srv) : Prop := forall n b, In (n, b) (store _ _ s) -> H b = n.

Lemma ustep_ok s u : store_ok s -> store_ok (ustep_apply s u).
Proof.
  intros Hs. destruct u as [n|n b|n|n]; cbn [Files.ustep_apply].
  - exact Hs.
  - exact Hs.
  - destruct (find (fun x => name_eqb (fst x) n) (uploads _ _ s)) as [[m b]|] eqn:E; [|exact Hs].
    destruct (name_eqb (H b) n) eqn:Eh; [|exact Hs].
    intros n' b' Hin. cbn [store] in Hin. destruct Hin as [Heq|Hin]; [|exact (Hs n' b' Hin)].
    injection Heq as <- <-. apply name_eqb_spec. exact Eh.
  - exact Hs.
Qed.

(* at every step boundary of an upload — a crash point or a concurrent reader — the files visible
   under final names are whole and verified; a body that does not hash to the name never appears *)
Theorem upload_never_exposes_partial s n b k : store_ok s ->
  store_ok (fold_left ustep_apply (firstn k (receive_steps s n b)) s).
Proof.
  intro Hs. generalize (firstn k (receive_steps s n b)). intro l. revert s Hs.
  induction l as [|u l IH]; intros s Hs; [exact Hs|]. cbn [fold_left]. apply IH. apply ustep_ok. exact Hs.
Qed.

Theorem upload_mismatch_refused s n b : H b <> n ->
  store _ _ (receive name bytes name_eqb H s n b) = store _ _ s.
Proof.
  intro Hne. unfold Files.receive, Files.receive_steps. destruct (has name bytes name_eqb n (store _ _ s)); [reflexivity|].
  assert (name_eqb (H b) n = false) as -> by (destruct (name_eqb (H b) n) eqn:E; [apply name_eqb_spec in E; contradiction|reflexivity]).
  cbn [fold_left Files.ustep_apply store]. reflexivity.
Qed.
End Upload.
