From Coq Require Import List Bool.
From SosModel Require Import model.Auth.
Import ListNotations.

Section AuthLemmas.
Variables account key sig msg : Type.
Variable account_eqb : account -> account -> bool.
Variable verify : key -> msg -> sig -> bool.
Hypothesis account_eqb_spec : forall a b, account_eqb a b = true <-> a = b.
Notation authorize := (authorize account key sig msg account_eqb verify).
Notation is_allowed := (is_allowed account account_eqb).
Notation mem := (mem account account_eqb).
Notation access := (access account).

Lemma mem_in a l : mem a l = true <-> In a l.
Proof.
  unfold Auth.mem. rewrite existsb_exists. split.
  - intros (x & Hx & E). apply account_eqb_spec in E. subst x. exact Hx.
  - intro H. exists a. split; [exact H|]. apply account_eqb_spec. reflexivity.
Qed.

(* an accepted auth_request for an existing account: allowed by the access lists, names an account,
   carries a signature, and some currently trusted key verifies it over exactly the signed bytes *)
Theorem accept_sound cfg trusted r a ks :
  authorize cfg trusted r = Accept -> ar_account _ _ _ r = Some a -> trusted a = Some ks ->
  is_allowed cfg a = true /\
  exists s k, ar_token _ _ _ r = TokSig _ s /\ In k ks /\ verify k (ar_signed _ _ _ r) s = true.
Proof.
  unfold Auth.authorize. intros H Ha Ht. rewrite Ha in H.
  destruct (ar_token _ _ _ r) as [| | |s] eqn:Etok; try discriminate.
  destruct (is_allowed cfg a) eqn:Eal; cbn [negb] in H; [|discriminate]. rewrite Ht in H.
  destruct (existsb (fun k => verify k (ar_signed _ _ _ r) s) ks) eqn:Eex; [|discriminate].
  split; [reflexivity|]. apply existsb_exists in Eex. destruct Eex as (k & Hk & Hv).
  exists s, k. repeat split; assumption.
Qed.

(* no signature, a malformed or legacy token, or no account header: refused *)
Theorem no_credentials_refused cfg trusted r :
  (ar_account _ _ _ r = None \/ forall s, ar_token _ _ _ r <> TokSig _ s) -> authorize cfg trusted r = BadRequest.
Proof.
  unfold Auth.authorize. intros [H|H].
  - rewrite H. destruct (ar_token _ _ _ r); reflexivity.
  - destruct (ar_token _ _ _ r) as [| | |s]; try reflexivity. exfalso. exact (H s eq_refl).
Qed.

(* no trusted key verifies (unknown key, revoked key, other bytes, another account's key) *)
Theorem unverified_refused cfg trusted r a ks :
  ar_account _ _ _ r = Some a -> trusted a = Some ks ->
  (forall s k, ar_token _ _ _ r = TokSig _ s -> In k ks -> verify k (ar_signed _ _ _ r) s = false) ->
  authorize cfg trusted r <> Accept.
Proof.
  intros Ha Ht Hno H. destruct (accept_sound cfg trusted r a ks H Ha Ht) as (_ & s & k & Es & Hk & Hv).
  rewrite (Hno s k Es Hk) in Hv. discriminate.
Qed.

(* access lists *)
Theorem denied_refused (x : access) trusted r a d :
  ar_account _ _ _ r = Some a -> deny _ x = Some d -> In a d -> authorize (Some x) trusted r <> Accept.
Proof.
  intros Ha Hd Hin H. unfold Auth.authorize in H. rewrite Ha in H.
  destruct (ar_token _ _ _ r) as [| | |s]; try discriminate.
  assert (is_allowed (Some x) a = false) as E.
  { unfold Auth.is_allowed. rewrite Hd. apply mem_in in Hin. destruct (allow _ x); rewrite Hin; reflexivity. }
  rewrite E in H. discriminate.
Qed.
Theorem not_on_allow_list_refused (x : access) trusted r a al :
  ar_account _ _ _ r = Some a -> allow _ x = Some al -> ~ In a al -> authorize (Some x) trusted r <> Accept.
Proof.
  intros Ha Hal Hnin H. unfold Auth.authorize in H. rewrite Ha in H.
  destruct (ar_token _ _ _ r) as [| | |s]; try discriminate.
  assert (is_allowed (Some x) a = false) as E.
  { unfold Auth.is_allowed. rewrite Hal.
    assert (mem a al = false) as Em by (destruct (mem a al) eqn:E; [apply mem_in in E; contradiction|reflexivity]).
    destruct (deny _ x) as [d|]; [destruct (mem a d)|]; try reflexivity; exact Em. }
  rewrite E in H. discriminate.
Qed.

(* a refused auth_request leaves the server state untouched *)
Section Serve.
Variable state : Type.
Variable handler : state -> auth_request account sig msg -> state.
Variable trusted_of : state -> account -> option (list key).
Theorem refused_untouched cfg st r :
  snd (serve account key sig msg account_eqb verify state handler trusted_of cfg st r) <> Accept ->
  fst (serve account key sig msg account_eqb verify state handler trusted_of cfg st r) = st.
Proof.
  unfold Auth.serve. destruct (authorize cfg (trusted_of st) r); cbn [fst snd]; intro H; [contradiction|reflexivity|reflexivity].
Qed.
End Serve.
End AuthLemmas.

(* the behaviour before the fix: an account on both lists was served *)
Lemma allow_first_serves_denied :
  is_allowed_allow_first nat Nat.eqb (Some (mkAccess nat (Some [7]) (Some [7]))) 7 = true /\
  is_allowed nat Nat.eqb (Some (mkAccess nat (Some [7]) (Some [7]))) 7 = false.
Proof. split; reflexivity. Qed.

(* ---- the trusted set as the replay of the device log ---- *)
Section DeviceLemmas.
Variable key : Type.
Variable key_eqb : key -> key -> bool.
Hypothesis key_eqb_spec : forall a b, key_eqb a b = true <-> a = b.
Notation dev_step := (dev_step key key_eqb).
Notation reduce_devices := (reduce_devices key key_eqb).
Notation last_about := (last_about key key_eqb).

Lemma key_eqb_refl k : key_eqb k k = true. Proof. apply key_eqb_spec. reflexivity. Qed.
Lemma key_eqb_neq a b : a <> b -> key_eqb a b = false.
Proof. intro H. destruct (key_eqb a b) eqn:E; [apply key_eqb_spec in E; contradiction|reflexivity]. Qed.

Lemma fold_in k log : forall ds acc, (In k ds <-> acc = Some true) ->
  (In k (fold_left dev_step log ds) <-> last_about k log acc = Some true).
Proof.
  induction log as [|e log IH]; intros ds acc H; cbn [fold_left Auth.last_about]; [exact H|].
  destruct e as [j|j|]; cbn [Auth.dev_step].
  - destruct (key_eqb j k) eqn:E.
    + apply key_eqb_spec in E. subst j. apply IH. split; [reflexivity|]. intros _.
      destruct (existsb (key_eqb k) ds) eqn:Ex.
      * apply existsb_exists in Ex. destruct Ex as (x & Hx & Hk). apply key_eqb_spec in Hk. subst x. exact Hx.
      * apply in_or_app. right. left. reflexivity.
    + apply IH. rewrite <- H. destruct (existsb (key_eqb j) ds); [reflexivity|].
      split; [|intro Hi; apply in_or_app; left; exact Hi].
      intro Hi. apply in_app_or in Hi. destruct Hi as [Hi|[Hi|[]]]; [exact Hi|].
      subst j. rewrite key_eqb_refl in E. discriminate.
  - destruct (key_eqb j k) eqn:E.
    + apply key_eqb_spec in E. subst j. apply IH. split; [|discriminate].
      intro Hi. apply filter_In in Hi. destruct Hi as [_ Hi]. rewrite key_eqb_refl in Hi. discriminate.
    + apply IH. rewrite <- H. rewrite filter_In. split; [tauto|]. intro Hi. split; [exact Hi|].
      destruct (key_eqb k j) eqn:E2; [|reflexivity]. apply key_eqb_spec in E2. subst j. rewrite key_eqb_refl in E. discriminate.
  - apply IH. exact H.
Qed.

(* a key is trusted exactly when the last event of the device log that names it is a Trust *)
Theorem trusted_iff_last_trust log k : In k (reduce_devices log) <-> last_about k log None = Some true.
Proof. unfold Auth.reduce_devices. apply fold_in. split; [intros []|discriminate]. Qed.

Lemma last_about_app k l1 : forall l2 acc, last_about k (l1 ++ l2) acc = last_about k l2 (last_about k l1 acc).
Proof.
  induction l1 as [|e l1 IH]; intros l2 acc; [reflexivity|]. cbn [app Auth.last_about].
  destruct e as [j|j|]; apply IH.
Qed.
(* whatever came before — trusted once, or trusted, revoked and trusted again — a device whose key
   was revoked last is not in the trusted set; a second, byte-identical Revoke counts like the first *)
Theorem revoked_not_trusted log k : ~ In k (reduce_devices (log ++ [DevRevoke key k])).
Proof.
  rewrite trusted_iff_last_trust, last_about_app. cbn [Auth.last_about]. rewrite key_eqb_refl. discriminate.
Qed.
Theorem trusted_after_trust log k : In k (reduce_devices (log ++ [DevTrust key k])).
Proof. rewrite trusted_iff_last_trust, last_about_app. cbn [Auth.last_about]. rewrite key_eqb_refl. reflexivity. Qed.
(* events about other keys do not change whether k is trusted *)
Theorem other_events_irrelevant log rest k :
  (forall e, In e rest -> e <> DevTrust key k /\ e <> DevRevoke key k) ->
  (In k (reduce_devices (log ++ rest)) <-> In k (reduce_devices log)).
Proof.
  intro H. rewrite !trusted_iff_last_trust, last_about_app.
  assert (forall acc, last_about k rest acc = acc) as Hr; [|rewrite Hr; reflexivity].
  induction rest as [|e rest IH]; intro acc; [reflexivity|]. cbn [Auth.last_about].
  assert (forall e', In e' rest -> e' <> DevTrust key k /\ e' <> DevRevoke key k) as H' by (intros e' He'; apply H; right; exact He').
  destruct e as [j|j|].
  - rewrite key_eqb_neq; [apply IH, H'|]. intro Ej. subst j. destruct (H (DevTrust key k) (or_introl eq_refl)) as [Hc _]. apply Hc. reflexivity.
  - rewrite key_eqb_neq; [apply IH, H'|]. intro Ej. subst j. destruct (H (DevRevoke key k) (or_introl eq_refl)) as [_ Hc]. apply Hc. reflexivity.
  - apply IH, H'.
Qed.
End DeviceLemmas.

(* end to end: a request whose signature verifies under one key only is refused once the device log's
   last word on that key is not a Trust *)
Section RevokedRefused.
Variables account key sig msg : Type.
Variable account_eqb : account -> account -> bool.
Variable verify : key -> msg -> sig -> bool.
Variable key_eqb : key -> key -> bool.
Hypothesis key_eqb_spec : forall a b, key_eqb a b = true <-> a = b.
Theorem revoked_device_refused cfg (logs : account -> option (list (dev_event key))) r a log k s :
  ar_account _ _ _ r = Some a -> ar_token _ _ _ r = TokSig _ s -> logs a = Some log ->
  (forall k', verify k' (ar_signed _ _ _ r) s = true -> k' = k) ->
  last_about key key_eqb k log None <> Some true ->
  authorize account key sig msg account_eqb verify cfg
    (fun a => option_map (reduce_devices key key_eqb) (logs a)) r <> Accept.
Proof.
  intros Ha Ht Hl Honly Hlast.
  apply (unverified_refused account key sig msg account_eqb verify cfg _ r a (reduce_devices key key_eqb log) Ha).
  - rewrite Hl. reflexivity.
  - intros s' k' Ht' Hin. rewrite Ht in Ht'. injection Ht' as <-.
    destruct (verify k' (ar_signed _ _ _ r) s) eqn:Ev; [|reflexivity]. exfalso.
    apply Honly in Ev. subst k'. apply Hlast. apply (trusted_iff_last_trust key key_eqb key_eqb_spec). exact Hin.
Qed.
End RevokedRefused.
