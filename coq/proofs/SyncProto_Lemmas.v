From Coq Require Import List NArith Bool Lia Arith.
From SosModel Require Import model.EventLog model.MergePatches model.SyncProto proofs.MergePatches_Lemmas.
Import ListNotations.

Section SyncProtoLemmas.
Variable hash : Type.
Variable hash_eqb : hash -> hash -> bool.
Hypothesis hash_eqb_spec : forall a b, hash_eqb a b = true <-> a = b.
Variable dat : Type.
Notation rec := (@erec hash N dat).
Notation slog := (slog hash dat).
Notation commits := (commits hash dat).
Notation after_last := (after_last hash hash_eqb dat).
Notation after_last_aux := (after_last_aux hash hash_eqb dat).
Notation upto_last := (upto_last hash hash_eqb dat).
Notation last_commit := (last_commit hash dat).
Notation scan := (scan hash hash_eqb dat).
Notation scan_down := (scan_down hash hash_eqb).

(* the comparison function and the laws C08 establishes for it (modulo hash collisions) *)
Variable cmpf : list hash -> list hash -> cmp3.
Hypothesis cmp_refl : forall a, cmpf a a = CEq.
Hypothesis cmp_eq : forall a b, cmpf a b = CEq -> a = b.
Hypothesis cmp_prefix : forall b s, b <> [] -> s <> [] -> cmpf (b ++ s) b = CContains.
Hypothesis cmp_contains : forall a b, cmpf a b = CContains ->
  b <> [] /\ nth_error a (length b - 1) = nth_error b (length b - 1).
Notation sync_log := (sync_log hash hash_eqb dat cmpf).

Lemma hash_eqb_refl a : hash_eqb a a = true.
Proof. apply hash_eqb_spec. reflexivity. Qed.
Lemma hash_eqb_neq a b : a <> b -> hash_eqb a b = false.
Proof. intro H. destruct (hash_eqb a b) eqn:E; [|reflexivity]. apply hash_eqb_spec in E. congruence. Qed.

Lemma aux_nomatch c : forall s a0, ~ In c (commits s) -> after_last_aux c s (Some a0) = Some (a0 ++ s).
Proof.
  induction s as [|r s IH]; intros a0 Hn; cbn [SyncProto.after_last_aux]; [rewrite app_nil_r; reflexivity|].
  cbn [SyncProto.commits map In] in Hn. rewrite hash_eqb_neq by (intro E; apply Hn; left; exact E).
  rewrite IH by (intro Hi; apply Hn; right; exact Hi). rewrite <- app_assoc. reflexivity.
Qed.

Lemma aux_skip c : forall a t acc, exists acc', after_last_aux c (a ++ t) acc = after_last_aux c t acc'.
Proof.
  induction a as [|x a IH]; intros t acc; [exists acc; reflexivity|].
  cbn [app SyncProto.after_last_aux]. destruct (hash_eqb (er_commit x) c); apply IH.
Qed.

Lemma after_last_split c a r s : er_commit r = c -> ~ In c (commits s) ->
  after_last c (a ++ r :: s) = Some s.
Proof.
  intros Hr Hn. unfold SyncProto.after_last. destruct (aux_skip c a (r :: s) None) as [acc' ->].
  cbn [SyncProto.after_last_aux]. rewrite Hr, hash_eqb_refl. rewrite aux_nomatch by exact Hn. reflexivity.
Qed.

Lemma upto_last_split c a r s : er_commit r = c -> ~ In c (commits s) ->
  upto_last c (a ++ r :: s) = Some (a ++ [r]).
Proof.
  intros Hr Hn. unfold SyncProto.upto_last. rewrite (after_last_split c a r s Hr Hn).
  f_equal. rewrite app_length. cbn [length].
  replace (length a + S (length s) - length s) with (length (a ++ [r])) by (rewrite app_length; cbn [length]; lia).
  replace (a ++ r :: s) with ((a ++ [r]) ++ s) by (rewrite <- app_assoc; reflexivity).
  rewrite firstn_app, Nat.sub_diag, firstn_all. cbn [firstn]. apply app_nil_r.
Qed.

Lemma last_commit_app a r : last_commit (a ++ [r]) = Some (er_commit r).
Proof. unfold SyncProto.last_commit. rewrite rev_app_distr. reflexivity. Qed.

Lemma exists_last_rec (l : slog) : l <> [] -> exists a r, l = a ++ [r].
Proof. intro H. destruct (exists_last H) as (a & r & ->). eauto. Qed.

Lemma nodup_last_not_in (a : slog) r (s : slog) : NoDup (commits (a ++ r :: s)) -> ~ In (er_commit r) (commits s).
Proof.
  unfold SyncProto.commits. rewrite map_app. cbn [map]. intro H. apply NoDup_remove_2 in H.
  intro Hi. apply H. apply in_or_app. right. exact Hi.
Qed.

(* ---- fast forward: the device is ahead ---- *)
Theorem sync_push srv s : srv <> [] -> s <> [] -> NoDup (commits (srv ++ s)) ->
  sync_log (srv ++ s) srv = (SyncOk, srv ++ s, srv ++ s).
Proof.
  intros Hs Hne Hnd. unfold SyncProto.sync_log.
  assert (commits (srv ++ s) = commits srv ++ commits s) as Hc by apply map_app.
  rewrite Hc, cmp_prefix; [|destruct srv; [congruence|discriminate]|destruct s; [congruence|discriminate]].
  destruct (exists_last_rec srv Hs) as (a & r & ->).
  rewrite last_commit_app. rewrite <- app_assoc. cbn [app].
  rewrite (after_last_split (er_commit r) a r s eq_refl).
  - rewrite <- app_assoc. reflexivity.
  - rewrite <- app_assoc in Hnd. cbn [app] in Hnd. apply (nodup_last_not_in a r s Hnd).
Qed.

Lemma cmp_not_contains_shorter a b : length a < length b -> cmpf a b <> CContains.
Proof.
  intros Hl Hc. apply cmp_contains in Hc. destruct Hc as [Hb Hn].
  assert (nth_error a (length b - 1) = None) as Ha by (apply nth_error_None; lia).
  assert (nth_error b (length b - 1) <> None) as Hb' by (apply nth_error_Some; destruct b; [congruence|cbn [length]; lia]).
  congruence.
Qed.

Lemma cmp_unknown_shorter a b : length a < length b -> cmpf a b = CUnknown.
Proof.
  intro Hl. destruct (cmpf a b) eqn:E; [|exfalso; apply (cmp_not_contains_shorter a b Hl E)|reflexivity].
  apply cmp_eq in E. subst. lia.
Qed.

(* ---- fast forward: the server is ahead ---- *)
Theorem sync_pull dev s : dev <> [] -> s <> [] -> NoDup (commits (dev ++ s)) ->
  sync_log dev (dev ++ s) = (SyncOk, dev ++ s, dev ++ s).
Proof.
  intros Hd Hne Hnd. unfold SyncProto.sync_log.
  rewrite cmp_unknown_shorter by (unfold SyncProto.commits; rewrite !map_length, app_length; destruct s; [congruence|cbn [length]; lia]).
  assert (commits (dev ++ s) = commits dev ++ commits s) as Hc by apply map_app.
  rewrite Hc, cmp_prefix; [|destruct dev; [congruence|discriminate]|destruct s; [congruence|discriminate]].
  destruct (exists_last_rec dev Hd) as (a & r & ->).
  rewrite last_commit_app. rewrite <- app_assoc. cbn [app].
  rewrite (after_last_split (er_commit r) a r s eq_refl).
  - rewrite <- app_assoc. reflexivity.
  - rewrite <- app_assoc in Hnd. cbn [app] in Hnd. apply (nodup_last_not_in a r s Hnd).
Qed.

(* ---- diverged logs ---- *)
(* no position at or beyond the common prefix holds the same commit in both logs *)
Definition NoAlignedMatch (n : nat) (d s : list hash) : Prop :=
  forall j a b, n <= j -> nth_error d j = Some a -> nth_error s j = Some b -> a <> b.

Lemma scan_down_finds (p : list hash) x : forall k (d s : list hash),
  NoAlignedMatch (S (length p)) (p ++ x :: d) (p ++ x :: s) ->
  scan_down (S (length p) + k) (p ++ x :: d) (p ++ x :: s) = Some (length p).
Proof.
  induction k as [|k IH]; intros d s Hna.
  - rewrite Nat.add_0_r. cbn [SyncProto.scan_down].
    rewrite !nth_error_app2, Nat.sub_diag by lia. cbn [nth_error]. rewrite hash_eqb_refl. reflexivity.
  - replace (S (length p) + S k) with (S (S (length p) + k)) by lia. cbn [SyncProto.scan_down].
    destruct (nth_error (p ++ x :: d) (S (length p) + k)) as [a|] eqn:Ea;
      destruct (nth_error (p ++ x :: s) (S (length p) + k)) as [b|] eqn:Eb; try (apply IH; exact Hna).
    rewrite hash_eqb_neq; [apply IH; exact Hna|]. apply (Hna (S (length p) + k) a b); [lia|exact Ea|exact Eb].
Qed.

Theorem sync_diverged (p : slog) (x : rec) (l r : slog) :
  l <> [] -> r <> [] ->
  NoDup (commits (p ++ x :: l)) -> NoDup (commits (p ++ x :: r)) ->
  NoAlignedMatch (S (length p)) (commits (p ++ x :: l)) (commits (p ++ x :: r)) ->
  exists m, sync_log (p ++ x :: l) (p ++ x :: r) = (SyncOk, (p ++ [x]) ++ m, (p ++ [x]) ++ m).
Proof.
  intros Hl Hr Hnd Hns Hna. unfold SyncProto.sync_log.
  assert (length (commits (p ++ x :: l)) = S (length p) + length l) as Hld
    by (unfold SyncProto.commits; rewrite map_length, app_length; cbn [length]; lia).
  assert (length (commits (p ++ x :: r)) = S (length p) + length r) as Hls
    by (unfold SyncProto.commits; rewrite map_length, app_length; cbn [length]; lia).
  assert (length l > 0 /\ length r > 0) as [Hl0 Hr0] by (destruct l, r; try congruence; cbn [length]; lia).
  (* neither side contains the other's head *)
  assert (forall a b : list hash, a <> b -> cmpf a b <> CContains -> cmpf a b = CUnknown) as Hunk.
  { intros a b Hab Hc. destruct (cmpf a b) eqn:E; [apply cmp_eq in E; congruence|congruence|reflexivity]. }
  assert (commits (p ++ x :: l) <> commits (p ++ x :: r)) as Hneq.
  { intro E. pose proof (Hna (S (length p))) as H1.
    destruct (nth_error (commits (p ++ x :: l)) (S (length p))) as [a|] eqn:Ea; [|apply nth_error_None in Ea; lia].
    apply (H1 a a); [lia|reflexivity|rewrite <- E; exact Ea|reflexivity]. }
  assert (cmpf (commits (p ++ x :: l)) (commits (p ++ x :: r)) = CUnknown) as C1.
  { apply Hunk; [exact Hneq|]. intro Hc. apply cmp_contains in Hc. destruct Hc as [_ Hn].
    destruct (nth_error (commits (p ++ x :: r)) (length (commits (p ++ x :: r)) - 1)) as [b|] eqn:Eb; [|apply nth_error_None in Eb; lia].
    destruct (nth_error (commits (p ++ x :: l)) (length (commits (p ++ x :: r)) - 1)) as [a|] eqn:Ea; [|discriminate].
    apply (Hna (length (commits (p ++ x :: r)) - 1) a b); [lia|exact Ea|exact Eb|congruence]. }
  assert (cmpf (commits (p ++ x :: r)) (commits (p ++ x :: l)) = CUnknown) as C2.
  { apply Hunk; [congruence|]. intro Hc. apply cmp_contains in Hc. destruct Hc as [_ Hn].
    destruct (nth_error (commits (p ++ x :: l)) (length (commits (p ++ x :: l)) - 1)) as [a|] eqn:Ea; [|apply nth_error_None in Ea; lia].
    destruct (nth_error (commits (p ++ x :: r)) (length (commits (p ++ x :: l)) - 1)) as [b|] eqn:Eb; [|discriminate].
    apply (Hna (length (commits (p ++ x :: l)) - 1) a b); [lia|exact Ea|exact Eb|congruence]. }
  rewrite C1, C2.
  (* the scan finds the end of the common prefix *)
  assert (scan (p ++ x :: l) (p ++ x :: r) = ScanAncestor hash (length p) (er_commit x)) as Hscan.
  { unfold SyncProto.scan, SyncProto.commits. rewrite !map_app. cbn [map].
    assert (exists h t t', map er_commit p ++ er_commit x :: map er_commit l = h :: t /\
                           map er_commit p ++ er_commit x :: map er_commit r = h :: t') as (h & t & t' & E1 & E2).
    { destruct p as [|y p']; cbn [map app]; eauto. }
    rewrite E1, E2, hash_eqb_refl, <- E1, <- E2.
    replace (length (p ++ x :: r)) with (S (length (map er_commit p)) + length r)
      by (rewrite app_length, map_length; cbn [length]; lia).
    rewrite scan_down_finds.
    - rewrite nth_error_app2, map_length, Nat.sub_diag by (rewrite map_length; lia). reflexivity.
    - unfold SyncProto.commits in Hna. rewrite !map_app in Hna. cbn [map] in Hna.
      rewrite map_length. exact Hna. }
  rewrite Hscan.
  rewrite (after_last_split (er_commit x) p x l eq_refl (nodup_last_not_in p x l Hnd)).
  rewrite (after_last_split (er_commit x) p x r eq_refl (nodup_last_not_in p x r Hns)).
  rewrite (upto_last_split (er_commit x) p x l eq_refl (nodup_last_not_in p x l Hnd)).
  rewrite (upto_last_split (er_commit x) p x r eq_refl (nodup_last_not_in p x r Hns)).
  destruct (merge_patches hash hash_eqb dat l r) as [rs|m] eqn:Em.
  - apply (rewind_local_spec hash hash_eqb hash_eqb_spec dat) in Em. destruct Em as [-> _].
    exists r. rewrite <- app_assoc. reflexivity.
  - exists m. reflexivity.
Qed.

Theorem sync_equal l : sync_log l l = (SyncOk, l, l).
Proof. unfold SyncProto.sync_log. rewrite cmp_refl. reflexivity. Qed.

End SyncProtoLemmas.
