(* Symmetric encryption as the SDK uses it (crypto/cipher/*.rs, vault.rs encrypt/decrypt,
   access_point.rs unlock, key_derivation.rs derive), relative to idealised primitives:
   [aead_enc k n p] / [aead_dec k n c] are section variables with the laws of an authenticated
   cipher (correctness; integrity: a ciphertext opens only if it is the one produced for that
   key and nonce), [kdf] and the final hash are functions.  Nonces are drawn from a stream.
   Definitions only. *)
From Coq Require Import List NArith Bool.
Import ListNotations.

Section Crypto.
Variables key nonce plain cipher salt seed pw : Type.
Variable aead_enc : key -> nonce -> plain -> cipher.
Variable aead_dec : key -> nonce -> cipher -> option plain.
Variable nonce_len : nonce -> nat.
Variable expected_len : nat.                 (* 12 for AES-GCM, 24 for XChaCha20 *)

Record pack := mkPack { pk_nonce : nonce; pk_ct : cipher }.

(* cipher::encrypt(key, plaintext, None): the nonce is the next value of the RNG stream *)
Definition encrypt (k : key) (n : nonce) (p : plain) : pack := mkPack n (aead_enc k n p).
(* cipher::decrypt: the nonce must have the size the cipher expects *)
Definition decrypt (k : key) (a : pack) : option plain :=
  if Nat.eqb (nonce_len (pk_nonce a)) expected_len then aead_dec k (pk_nonce a) (pk_ct a) else None.

(* Deriver::derive: SHA-256 of the PHC hash of (password ++ seed) under the salt *)
Variable kdf : pw -> option seed -> salt -> key.

(* AccessPoint::unlock (after fix 'a failed unlock leaves the access point locked') *)
Record access_point := mkAP { ap_meta : pack; ap_salt : salt; ap_seed : option seed; ap_key : option key }.
Definition unlock (a : access_point) (p : pw) : access_point * bool :=
  let k := kdf p (ap_seed a) (ap_salt a) in
  match decrypt k (ap_meta a) with
  | Some _ => (mkAP (ap_meta a) (ap_salt a) (ap_seed a) (Some k), true)
  | None => (mkAP (ap_meta a) (ap_salt a) (ap_seed a) None, false)
  end.

(* a history of encryptions under one key: the i-th uses the i-th value of the stream *)
Fixpoint encrypt_all (k : key) (stream : list nonce) (ps : list plain) : list pack :=
  match stream, ps with
  | n :: s', p :: ps' => encrypt k n p :: encrypt_all k s' ps'
  | _, _ => []
  end.
End Crypto.
