//! C18: backup archives.  Case lines (one of):
//!   c18 <id> mode=san N=<hex of utf-8 entry name>
//!        -> "<id> san <hex of component>/<hex>/..."           sos_archive::sanitize_file_path
//!   c18 <id> mode=export cbe=fs|db out=<zip path> hist=<steps>
//!        builds an account (account-history harness), exports a backup archive to <out> and
//!        prints "<id> exported folders=<snapshot>"
//!   c18 <id> mode=import cbe=fs|db zip=<zip path> [box=<dir>]
//!        imports the archive into an empty target at <box>/target; prints
//!        "<id> import res=<ok|err:..> accounts=<n>" , "<id> tree <relative paths under box, sorted>"
//!        and, when the import succeeded, signs in (harness password) and prints the served
//!        folders "<id> imported folders=<snapshot>"
use crate::acct::World;
use crate::sync::{client_target, password, Gate};
use crate::util::{kv, rt};
use sos_account::{Account, LocalAccount};
use sos_core::{crypto::AccessKey, Paths};
use sos_vault::{secret::Secret, SecretAccess};
use std::io::Write;
use std::path::Path;

async fn snapshot(account: &LocalAccount) -> String {
    let mut out = vec![];
    let folders = account.list_folders().await.unwrap_or_default();
    for s in folders {
        let Ok(folder) = account.folder(s.id()).await else { continue };
        let ap = folder.access_point();
        let ap = ap.lock().await;
        let mut items = vec![];
        for (_id, commit) in ap.vault().iter() {
            if let Ok((meta, secret)) = ap.decrypt_secret(commit, None).await {
                let text = match &secret {
                    Secret::Note { text, .. } => {
                        use secrecy::ExposeSecret;
                        text.expose_secret().to_string()
                    }
                    _ => "?".into(),
                };
                items.push(format!("{}={}", meta.label(), text));
            }
        }
        items.sort();
        let desc = match ap.vault().header().meta() {
            Some(a) => ap.decrypt_meta(a).await.map(|m| m.description().to_string()).unwrap_or("?".into()),
            None => "-".into(),
        };
        out.push(format!("{}:{}:{}:{}", s.name().replace(' ', "_"), ap.vault().flags().bits(), desc, items.join(";")));
    }
    out.sort();
    // attachments: every external file the account's storage lists, downloaded (decrypted) through the account
    let target = account.backend_target().await.with_account_id(account.account_id());
    let mut atts = vec![];
    if let Ok(files) = target.list_files().await {
        for f in files {
            use sha2::Digest;
            let name = f.file_name().to_string();
            atts.push(match account.download_file(f.vault_id(), f.secret_id(), f.file_name()).await {
                Ok(b) => format!("{}={}", &name[..8.min(name.len())], &hex::encode(sha2::Sha256::digest(&b))[..8]),
                Err(_) => format!("{}=unreadable", &name[..8.min(name.len())]),
            });
        }
    }
    atts.sort();
    out.push(format!("@attachments:{}", atts.join(";")));
    out.join("|")
}

fn tree(root: &Path, base: &Path, out: &mut Vec<String>) {
    if let Ok(rd) = std::fs::read_dir(root) {
        for e in rd.flatten() {
            let p = e.path();
            if p.is_dir() {
                tree(&p, base, out);
            } else {
                out.push(p.strip_prefix(base).unwrap_or(&p).to_string_lossy().to_string());
            }
        }
    }
}

pub fn run(text: &str, cases_path: &str, out: &mut impl Write) {
    let rt = rt();
    let base = std::path::Path::new(cases_path).parent().unwrap().join("data-c18");
    for line in text.lines() {
        let toks: Vec<&str> = line.split_whitespace().collect();
        if toks.len() < 2 || toks[0].starts_with('#') {
            continue;
        }
        let id = toks[1].to_string();
        let mode = kv(&toks, "mode").unwrap_or("san");
        let cdb = kv(&toks, "cbe") == Some("db");
        match mode {
            "san" => {
                let raw = hex::decode(kv(&toks, "N").unwrap_or("")).unwrap_or_default();
                match String::from_utf8(raw) {
                    Ok(name) => {
                        let res = crate::util::guarded(|| sos_archive::sanitize_file_path(&name));
                        match res {
                            Ok(p) => {
                                let comps: Vec<String> = p.iter().map(|c| hex::encode(c.to_string_lossy().as_bytes())).collect();
                                writeln!(out, "{id} san {}", comps.join("/")).unwrap();
                            }
                            Err(_) => writeln!(out, "{id} san PANIC").unwrap(),
                        }
                    }
                    Err(_) => writeln!(out, "{id} san notutf8").unwrap(),
                }
            }
            "export" => {
                let hist: Vec<String> = kv(&toks, "hist").unwrap_or("").split('|').filter(|s| !s.is_empty()).map(|s| s.to_string()).collect();
                let zip = kv(&toks, "out").unwrap().to_string();
                rt.block_on(async {
                    let mut w = World::new(base.join(&id), cdb, false, 1, Gate::default()).await;
                    for op in &hist {
                        let _ = w.step(op).await;
                    }
                    let acct = w.devs[0].bridge.account.clone();
                    let mut account = acct.lock().await;
                    // att=1: a file secret with two further attachments on the default folder
                    if kv(&toks, "att") == Some("1") {
                        let n = crate::c19::add_attachments(&w, &mut account).await.len();
                        writeln!(out, "{id} !attachments created files={n}").unwrap();
                    }
                    let snap = snapshot(&account).await;
                    let _ = std::fs::remove_file(&zip);
                    let r = account.export_backup_archive(&zip).await;
                    writeln!(out, "{id} exported res={} account={} folders={snap}", if r.is_ok() { "ok".to_string() } else { format!("err:{:?}", r.err()).replace(' ', "_") }, account.account_id()).unwrap();
                    crate::acct::set_clock(0);
                });
                let _ = std::fs::remove_dir_all(base.join(&id));
            }
            "import" => {
                let zip = kv(&toks, "zip").unwrap().to_string();
                let sandbox = base.join(&id);
                let _ = std::fs::remove_dir_all(&sandbox);
                // the target sits six levels below the listed sandbox so that entry names climbing out of it
                // with up to ten ".." still land where the listing sees them
                let target_dir = sandbox.join("o1/o2/o3/o4/o5/o6/target");
                std::fs::create_dir_all(&target_dir).unwrap();
                rt.block_on(async {
                    let paths = Paths::new_client(&target_dir);
                    let target = client_target(&paths, cdb).await;
                    let res = tokio::time::timeout(std::time::Duration::from_secs(60), LocalAccount::import_backup_archive(&zip, &target)).await;
                    let (rs, accounts) = match res {
                        Ok(Ok(a)) => ("ok".to_string(), a),
                        Ok(Err(e)) => {
                            let s = format!("{e:?}");
                            (format!("err:{}", s.split(|c: char| !c.is_alphanumeric()).find(|t| !t.is_empty()).unwrap_or("E")), vec![])
                        }
                        Err(_) => ("timeout".to_string(), vec![]),
                    };
                    // what exists now, relative to the sandbox (anything outside target/ is an escape)
                    let mut files = vec![];
                    tree(&sandbox, &sandbox, &mut files);
                    files.sort();
                    // accounts visible in the target storage after the attempt
                    let listed = target.list_accounts().await.map(|a| a.len()).unwrap_or(0);
                    writeln!(out, "{id} import res={rs} accounts={} listed={}", accounts.len(), listed).unwrap();
                    writeln!(out, "{id} tree {}", files.iter().map(|f| f.replace(' ', "_")).collect::<Vec<_>>().join(",")).unwrap();
                    if let Some(first) = accounts.first() {
                        if let Ok(mut account) = LocalAccount::new_unauthenticated(*first.account_id(), target.clone()).await {
                            let key: AccessKey = password().into();
                            match account.sign_in(&key).await {
                                Ok(_) => writeln!(out, "{id} imported signin=ok folders={}", snapshot(&account).await).unwrap(),
                                Err(e) => writeln!(out, "{id} imported signin=err:{}", format!("{e:?}").chars().filter(|c| !c.is_whitespace()).take(80).collect::<String>()).unwrap(),
                            }
                        }
                    }
                });
                let _ = std::fs::remove_dir_all(&sandbox);
            }
            _ => {}
        }
    }
}
