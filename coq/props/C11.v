(* C11 — the server acts only for requests signed by a trusted device.
   Model: model/Auth.v (authenticate_endpoint = bearer token parse, access lists, verify_device;
   [serve] = a handler that runs only after authorisation).  [verify] is abstract: the theorems
   hold for every signature scheme; that ed25519 signatures cannot be forged is outside them. *)
From Coq Require Import List Bool.
From SosModel Require Import model.Auth proofs.Auth_Lemmas.
Import ListNotations.

Section C11.
Variables account key sig msg : Type.
Variable account_eqb : account -> account -> bool.
Variable verify : key -> msg -> sig -> bool.
Hypothesis account_eqb_spec : forall a b, account_eqb a b = true <-> a = b.
Notation authorize := (authorize account key sig msg account_eqb verify).

Theorem C11_accept_sound cfg trusted r a ks :
  authorize cfg trusted r = Accept -> ar_account _ _ _ r = Some a -> trusted a = Some ks ->
  is_allowed account account_eqb cfg a = true /\
  exists s k, ar_token _ _ _ r = TokSig _ s /\ In k ks /\ verify k (ar_signed _ _ _ r) s = true.
Proof. exact (accept_sound account key sig msg account_eqb verify cfg trusted r a ks). Qed.

Theorem C11_no_credentials_refused cfg trusted r :
  (ar_account _ _ _ r = None \/ forall s, ar_token _ _ _ r <> TokSig _ s) -> authorize cfg trusted r = BadRequest.
Proof. exact (no_credentials_refused account key sig msg account_eqb verify cfg trusted r). Qed.

Theorem C11_unverified_refused cfg trusted r a ks :
  ar_account _ _ _ r = Some a -> trusted a = Some ks ->
  (forall s k, ar_token _ _ _ r = TokSig _ s -> In k ks -> verify k (ar_signed _ _ _ r) s = false) ->
  authorize cfg trusted r <> Accept.
Proof. exact (unverified_refused account key sig msg account_eqb verify cfg trusted r a ks). Qed.

Theorem C11_denied_refused (x : access account) trusted r a d :
  ar_account _ _ _ r = Some a -> deny _ x = Some d -> In a d -> authorize (Some x) trusted r <> Accept.
Proof. exact (denied_refused account key sig msg account_eqb verify account_eqb_spec x trusted r a d). Qed.

Theorem C11_not_on_allow_list_refused (x : access account) trusted r a al :
  ar_account _ _ _ r = Some a -> allow _ x = Some al -> ~ In a al -> authorize (Some x) trusted r <> Accept.
Proof. exact (not_on_allow_list_refused account key sig msg account_eqb verify account_eqb_spec x trusted r a al). Qed.

Variable state : Type.
Variable handler : state -> auth_request account sig msg -> state.
Variable trusted_of : state -> account -> option (list key).
Theorem C11_refused_untouched cfg st r :
  snd (serve account key sig msg account_eqb verify state handler trusted_of cfg st r) <> Accept ->
  fst (serve account key sig msg account_eqb verify state handler trusted_of cfg st r) = st.
Proof. exact (refused_untouched account key sig msg account_eqb verify state handler trusted_of cfg st r). Qed.
End C11.

(* the trusted set is the replay of the device log (model: reduce_devices = DeviceReducer::reduce) *)
Section C11_devices.
Variables account key sig msg : Type.
Variable account_eqb : account -> account -> bool.
Variable verify : key -> msg -> sig -> bool.
Variable key_eqb : key -> key -> bool.
Hypothesis key_eqb_spec : forall a b, key_eqb a b = true <-> a = b.
Theorem C11_trusted_iff_last_event_is_trust log k :
  In k (reduce_devices key key_eqb log) <-> last_about key key_eqb k log None = Some true.
Proof. exact (trusted_iff_last_trust key key_eqb key_eqb_spec log k). Qed.
Theorem C11_revoked_last_is_not_trusted log k : ~ In k (reduce_devices key key_eqb (log ++ [DevRevoke key k])).
Proof. exact (revoked_not_trusted key key_eqb key_eqb_spec log k). Qed.
Theorem C11_other_devices_events_irrelevant log rest k :
  (forall e, In e rest -> e <> DevTrust key k /\ e <> DevRevoke key k) ->
  (In k (reduce_devices key key_eqb (log ++ rest)) <-> In k (reduce_devices key key_eqb log)).
Proof. exact (other_events_irrelevant key key_eqb key_eqb_spec log rest k). Qed.
Theorem C11_revoked_device_refused cfg (logs : account -> option (list (dev_event key))) r a log k s :
  ar_account _ _ _ r = Some a -> ar_token _ _ _ r = TokSig _ s -> logs a = Some log ->
  (forall k', verify k' (ar_signed _ _ _ r) s = true -> k' = k) ->
  last_about key key_eqb k log None <> Some true ->
  authorize account key sig msg account_eqb verify cfg
    (fun a => option_map (reduce_devices key key_eqb) (logs a)) r <> Accept.
Proof. exact (revoked_device_refused account key sig msg account_eqb verify key_eqb key_eqb_spec cfg logs r a log k s). Qed.
End C11_devices.
(* non-vacuity: trusted, revoked, trusted again, revoked again (the two Revoke events are identical) *)
Example C11_nonvacuous_rerevoked :
  reduce_devices nat Nat.eqb [DevTrust nat 1; DevTrust nat 3; DevRevoke nat 3; DevTrust nat 3] = [1; 3] /\
  reduce_devices nat Nat.eqb [DevTrust nat 1; DevTrust nat 3; DevRevoke nat 3; DevTrust nat 3; DevRevoke nat 3] = [1].
Proof. split; reflexivity. Qed.
(* the access check as it was before the fix served an account that is on the deny list *)
Theorem C11_allow_first_refuted :
  is_allowed_allow_first nat Nat.eqb (Some (mkAccess nat (Some [7]) (Some [7]))) 7 = true /\
  is_allowed nat Nat.eqb (Some (mkAccess nat (Some [7]) (Some [7]))) 7 = false.
Proof. exact allow_first_serves_denied. Qed.

(* non-vacuity: a auth_request that is accepted, with idealised signatures (a signature is the pair
   of the key and the message it was made over) *)
Example C11_nonvacuous_accept :
  let verify := fun (k : nat) (m : nat) (s : nat * nat) => Nat.eqb k (fst s) && Nat.eqb m (snd s) in
  authorize nat nat (nat * nat) nat Nat.eqb verify None (fun a => if Nat.eqb a 1 then Some [5; 6] else None)
    (mkAReq nat (nat * nat) nat (Some 1) (TokSig _ (6, 42)) 42) = Accept /\
  authorize nat nat (nat * nat) nat Nat.eqb verify None (fun a => if Nat.eqb a 1 then Some [5; 6] else None)
    (mkAReq nat (nat * nat) nat (Some 1) (TokSig _ (6, 42)) 43) = Forbidden.
Proof. split; reflexivity. Qed.

Print Assumptions C11_accept_sound.
Print Assumptions C11_no_credentials_refused.
Print Assumptions C11_unverified_refused.
Print Assumptions C11_denied_refused.
Print Assumptions C11_not_on_allow_list_refused.
Print Assumptions C11_refused_untouched.
Print Assumptions C11_allow_first_refuted.
Print Assumptions C11_trusted_iff_last_event_is_trust.
Print Assumptions C11_revoked_last_is_not_trusted.
Print Assumptions C11_other_devices_events_irrelevant.
Print Assumptions C11_revoked_device_refused.
