//! Account-history harness shared by C01, C02, C04, C05 (end to end), C12, C20.
//! Case:  "<sub> <id> cbe=fs|db sbe=fs|db devs=<n> hist=<step>|<step>|..."
//! Steps (d = device index, s = secret slot, f = folder slot; f0 = default folder):
//!   c<d>:<s>[@<f>]   create a note secret          u<d>:<s>      update it
//!   x<d>:<s>         delete                         m<d>:<s>:<f>  move to folder f
//!   a<d>:<s>         archive   A<d>:<s> unarchive  (needs the archive folder)
//!   f<d>:<f>         create folder                 r<d>:<f>:<n>  rename folder
//!   p<d>:<f>         set folder description        g<d>:<f>:<bits> set folder flags
//!   k<d>:<f>         delete folder                 i<d>:<f>      export folder f and import the export as a copy (same secret ids)
//!   z<d>:<f>         compact folder                w<d>:<f>      change folder password
//!   o<d>             sign out and sign in again    s<d>          sync with the server
//!   h<d>:<f>:<src>   forced overwrite: device d replaces folder f by device src's whole log
//!                    (ForceMerge::force_merge_folder, what a hard conflict does)
//!   t:<n>            set the clock to base + n ms (requires --cfg sos_verif)
//! After every step, for every device and the server, the harness prints the event logs as
//! token sequences (a token names a commit hash at first sight) and, for devices, every
//! folder three ways: as served, as replayed from its event log, as stored in the vault
//! mirror — plus the search index documents and counters.
use crate::sync::{copy_dir, password, Device, Gate, Server};
use crate::util::{kv, rt};
use futures::{pin_mut, StreamExt};
use sos_account::Account;
use sos_backend::BackendTarget;
use sos_client_storage::{AccessOptions, ClientFolderStorage, ClientStorage, NewFolderOptions};
use sos_core::{
    crypto::AccessKey,
    events::{EventLog, EventRecord, LogEvent, WriteEvent},
    AccountId, SecretId, VaultFlags, VaultId,
};
use sos_reducers::FolderReducer;
use sos_sync::StorageEventLogs;
use sos_vault::{
    secret::{Secret, SecretMeta, SecretRow, SecretType},
    SecretAccess, Vault,
};
use std::collections::{BTreeMap, HashMap};
use std::io::Write;
use std::path::PathBuf;
use std::sync::Arc;

pub struct World {
    pub base: PathBuf,
    pub cdb: bool,
    pub sdb: bool,
    pub server: Arc<Server>,
    pub devs: Vec<Device>,
    pub account_id: AccountId,
    pub slots: HashMap<String, (SecretId, VaultId)>,
    pub fslots: HashMap<String, VaultId>,
    pub fnames: HashMap<VaultId, String>,
    pub tokens: HashMap<[u8; 32], String>,
    pub counter: u64,
    pub step: usize,
    pub keycheck: Option<String>,
    /// the account password each device currently signs in with (op W changes it)
    pub passwords: HashMap<usize, secrecy::SecretString>,
    pub cipher_flip: bool,
}

const CLOCK_BASE: i64 = 1_700_000_000_000_000_000;

pub fn set_clock(ms: i64) {
    #[cfg(sos_verif)]
    sos_core::verif_hooks::set_clock(CLOCK_BASE + ms * 1_000_000, 1_000);
    #[cfg(not(sos_verif))]
    let _ = ms;
}

/// slots a and c are favourites; b carries tag t1, c carries t1 and t2 (exercise the counters)
fn note(label: &str, text: &str) -> (SecretMeta, Secret) {
    let secret = Secret::Note { text: text.to_string().into(), user_data: Default::default() };
    let mut meta = SecretMeta::new(label.to_string(), secret.kind());
    if label.ends_with('a') || label.ends_with('c') {
        meta.set_favorite(true);
    }
    if label.ends_with('b') {
        meta.set_tags(["t1".to_string()].into_iter().collect());
    }
    if label.ends_with('c') {
        meta.set_tags(["t1".to_string(), "t2".to_string()].into_iter().collect());
    }
    (meta, secret)
}

impl World {
    pub async fn new(base: PathBuf, cdb: bool, sdb: bool, ndev: usize, gate: Gate) -> World {
        let _ = std::fs::remove_dir_all(&base);
        std::fs::create_dir_all(&base).unwrap();
        set_clock(1);
        // the account id is only known after creation: create the first device against a
        // server object whose id is patched in afterwards
        let tmp_server = Server::new(&base.join("server"), AccountId::from([0u8; 20]), sdb).await;
        let d0 = Device::create("D0", &base.join("d0"), tmp_server, cdb, gate.clone()).await;
        let account_id = *d0.bridge.account.lock().await.account_id();
        let server = Server::new(&base.join("server"), account_id, sdb).await;
        drop(d0);
        if cdb {
            // let the SQLite connection thread of the dropped client finish
            tokio::time::sleep(std::time::Duration::from_millis(60)).await;
        }
        // re-open device 0 bound to the real server object, and copy its data for the others
        let mut devs = vec![];
        for i in 1..ndev {
            copy_dir(&base.join("d0"), &base.join(format!("d{i}")));
        }
        for i in 0..ndev {
            let d = Device::open(&format!("D{i}"), &base.join(format!("d{i}")), account_id, server.clone(), cdb, gate.clone()).await;
            devs.push(d);
        }
        let mut w = World {
            base, cdb, sdb, server, devs, account_id,
            slots: HashMap::new(), fslots: HashMap::new(), fnames: HashMap::new(),
            tokens: HashMap::new(), counter: 0, step: 0, keycheck: None, passwords: HashMap::new(), cipher_flip: false,
        };
        let default = w.devs[0].bridge.account.lock().await.default_folder().await.unwrap();
        w.fslots.insert("0".to_string(), *default.id());
        w.fnames.insert(*default.id(), "f0".to_string());
        w
    }

    fn fname(&mut self, id: &VaultId) -> String {
        if let Some(n) = self.fnames.get(id) {
            return n.clone();
        }
        let n = format!("x{}", self.fnames.len());
        self.fnames.insert(*id, n.clone());
        n
    }

    fn token(&mut self, r: &EventRecord, out: &mut Vec<String>, logname: &str) -> String {
        let c: [u8; 32] = *r.commit().as_ref();
        if let Some(t) = self.tokens.get(&c) {
            return t.clone();
        }
        let t = format!("e{}", self.tokens.len());
        self.tokens.insert(c, t.clone());
        let odt: time::OffsetDateTime = r.time().clone().into();
        let nanos = odt.unix_timestamp_nanos() - CLOCK_BASE as i128;
        out.push(format!("def {t} log={logname} time={nanos} bytes={}", r.event_bytes().len()));
        t
    }

    fn fmt_log(&mut self, who: &str, name: &str, recs: &[EventRecord], len: usize, root: Option<String>, lines: &mut Vec<String>) {
        let mut defs = vec![];
        let toks: Vec<String> = recs
            .iter()
            .map(|r| {
                let odt: time::OffsetDateTime = r.time().clone().into();
                let nanos = odt.unix_timestamp_nanos() - CLOCK_BASE as i128;
                format!("{}@{nanos}", self.token(r, &mut defs, name))
            })
            .collect();
        lines.extend(defs.into_iter().map(|d| format!("!{d}")));
        lines.push(format!("{who} log {name} len={len} root={} toks={}", root.map(|r| r[..8].to_string()).unwrap_or("-".into()), toks.join(",")));
    }

    pub async fn observe_logs<S>(&mut self, who: &str, storage: &S, lines: &mut Vec<String>)
    where
        S: StorageEventLogs,
        <S as StorageEventLogs>::Error: std::fmt::Debug,
    {
        macro_rules! one {
            ($name:expr, $getter:expr, $t:ty) => {
                if let Ok(log) = $getter {
                    let log = log.read().await;
                    let recs = {
                        let stream = EventLog::<$t>::record_stream(&*log, false).await;
                        pin_mut!(stream);
                        let mut v: Vec<EventRecord> = vec![];
                        while let Some(r) = stream.next().await {
                            if let Ok(r) = r {
                                v.push(r);
                            }
                        }
                        v
                    };
                    let (len, root) = (log.tree().len(), log.tree().root_hex());
                    drop(log);
                    self.fmt_log(who, $name, &recs, len, root, lines);
                }
            };
        }
        one!("identity", storage.identity_log().await, WriteEvent);
        one!("account", storage.account_log().await, sos_core::events::AccountEvent);
        one!("device", storage.device_log().await, sos_core::events::DeviceEvent);
        one!("files", storage.file_log().await, sos_core::events::FileEvent);
        let mut ids: Vec<VaultId> = storage.folder_details().await.map(|s| s.iter().map(|x| *x.id()).collect()).unwrap_or_default();
        ids.sort_by_key(|id| self.fnames.get(id).cloned().unwrap_or_else(|| "zz".into()));
        for id in ids {
            let name = format!("folder:{}", self.fname(&id));
            one!(&name, storage.folder_log(&id).await, WriteEvent);
        }
    }

    async fn fmt_vault(ap: &sos_backend::AccessPoint, vault: &Vault) -> String {
        let mut items = vec![];
        for (id, commit) in vault.iter() {
            match ap.decrypt_secret(commit, None).await {
                Ok((meta, secret)) => {
                    let text = match &secret {
                        Secret::Note { text, .. } => {
                            use secrecy::ExposeSecret;
                            text.expose_secret().to_string()
                        }
                        _ => "?".into(),
                    };
                    let mut tags: Vec<String> = meta.tags().iter().cloned().collect();
                    tags.sort();
                    items.push(format!("{}={}{}{}", meta.label(), text, if meta.favorite() { "!" } else { "" },
                        tags.iter().map(|t| format!("#{t}")).collect::<String>()));
                }
                Err(_) => items.push(format!("{}=UNDECRYPTABLE", &id.to_string()[..8])),
            }
        }
        items.sort();
        let desc = match vault.header().meta() {
            Some(aead) => match ap.decrypt_meta(aead).await {
                Ok(m) => m.description().to_string(),
                Err(_) => "UNDECRYPTABLE".into(),
            },
            None => "-".into(),
        };
        format!("name={} flags={} desc={} items={}", vault.name().replace(' ', "_"), vault.flags().bits(), desc.replace(' ', "_"), items.join(";"))
    }

    pub async fn observe_device(&mut self, d: usize, lines: &mut Vec<String>) {
        let who = format!("D{d}");
        let acct = self.devs[d].bridge.account.clone();
        let account = acct.lock().await;
        if !account.is_authenticated().await {
            lines.push(format!("{who} signed-out"));
            return;
        }
        self.observe_logs(&who, &*account, lines).await;
        let folders = account.list_folders().await.unwrap_or_default();
        let mut ids: Vec<VaultId> = folders.iter().map(|s| *s.id()).collect();
        ids.sort_by_key(|id| self.fnames.get(id).cloned().unwrap_or_else(|| "zz".into()));
        let mirror_storage = ClientStorage::new_unauthenticated(account.backend_target().await, &self.account_id).await.ok();
        for id in &ids {
            let fname = self.fname(id);
            if let Some(folder) = account.folder(id).await.ok() {
                let ap = folder.access_point();
                let ap = ap.lock().await;
                let served = Self::fmt_vault(&ap, ap.vault()).await;
                let log = folder.event_log();
                let log = log.read().await;
                let reduced = match FolderReducer::new().reduce(&*log).await {
                    Ok(r) => match r.build(true).await {
                        Ok(v) => Self::fmt_vault(&ap, &v).await,
                        Err(e) => format!("ERR:{e:?}"),
                    },
                    Err(e) => format!("ERR:{e:?}"),
                };
                let mut stored_rows: Option<Vec<String>> = None;
                let mirror = match &mirror_storage {
                    Some(ms) => match ms.read_vault(id).await {
                        Ok(v) => {
                            // the rows of the stored vault in storage order (file order / row order): id8:body
                            let mut rows = vec![];
                            for (sid, commit) in v.iter() {
                                let body = match ap.decrypt_secret(commit, None).await {
                                    Ok((meta, Secret::Note { text, .. })) => {
                                        use secrecy::ExposeSecret;
                                        let enc = |s: &str| s.replace([' ', ',', ':', ';', '|'], "_");
                                        let mut tags: Vec<String> = meta.tags().iter().cloned().collect();
                                        tags.sort();
                                        format!("{}={}{}{}", enc(meta.label()), enc(text.expose_secret()), if meta.favorite() { "!" } else { "" },
                                            tags.iter().map(|t| format!("#{t}")).collect::<String>())
                                    }
                                    Ok((meta, _)) => format!("{}=?", meta.label().replace([' ', ',', ':', ';', '|'], "_")),
                                    Err(_) => "UNDECRYPTABLE".into(),
                                };
                                rows.push(format!("{}:{}", &sid.to_string()[..8], body));
                            }
                            stored_rows = Some(rows);
                            Self::fmt_vault(&ap, &v).await
                        }
                        Err(e) => format!("ERR:{}", format!("{e:?}").replace(' ', "_")),
                    },
                    None => "ERR:nostorage".into(),
                };
                // decrypted event trace of the persisted log (input of the Coq replay model)
                let mut evs: Vec<String> = vec![];
                {
                    let stream = log.event_stream(false).await;
                    pin_mut!(stream);
                    while let Some(item) = stream.next().await {
                        let Ok((_, event)) = item else { evs.push("ERR".into()); break };
                        let enc = |s: &str| s.replace([' ', ',', ':', ';', '|'], "_");
                        match &event {
                            WriteEvent::CreateVault(buf) => {
                                let v: Vault = sos_core::decode(buf).await.unwrap_or_default();
                                let desc = match v.header().meta() {
                                    Some(a) => ap.decrypt_meta(a).await.map(|m| m.description().to_string()).unwrap_or("UNDECRYPTABLE".into()),
                                    None => "-".into(),
                                };
                                evs.push(format!("V:{}:{}:{}:{}", enc(v.name()), v.flags().bits(), enc(&desc), v.len()));
                            }
                            WriteEvent::SetVaultName(n) => evs.push(format!("N:{}", enc(n))),
                            WriteEvent::SetVaultFlags(f) => evs.push(format!("G:{}", f.bits())),
                            WriteEvent::SetVaultMeta(a) => {
                                let d = ap.decrypt_meta(a).await.map(|m| m.description().to_string()).unwrap_or("UNDECRYPTABLE".into());
                                evs.push(format!("M:{}", enc(&d)));
                            }
                            WriteEvent::CreateSecret(sid, c) | WriteEvent::UpdateSecret(sid, c) => {
                                let tag = if matches!(event, WriteEvent::CreateSecret(_, _)) { "C" } else { "U" };
                                let body = match ap.decrypt_secret(c, None).await {
                                    Ok((meta, Secret::Note { text, .. })) => {
                                        use secrecy::ExposeSecret;
                                        let mut tags: Vec<String> = meta.tags().iter().cloned().collect();
                                        tags.sort();
                                        format!("{}={}{}{}", enc(meta.label()), enc(text.expose_secret()), if meta.favorite() { "!" } else { "" },
                                            tags.iter().map(|t| format!("#{t}")).collect::<String>())
                                    }
                                    Ok((meta, _)) => format!("{}=?", enc(meta.label())),
                                    Err(_) => "UNDECRYPTABLE".into(),
                                };
                                evs.push(format!("{tag}:{}:{}", &sid.to_string()[..8], body));
                            }
                            WriteEvent::DeleteSecret(sid) => evs.push(format!("D:{}", &sid.to_string()[..8])),
                            _ => evs.push("?".into()),
                        }
                    }
                }
                lines.push(format!("!{who} events {fname} {}", evs.join(",")));
                if let Some(rows) = stored_rows {
                    lines.push(format!("!{who} rows {fname} {}", rows.join(",")));
                }
                lines.push(format!("{who} folder {fname} served {served}"));
                lines.push(format!("{who} folder {fname} reduced {reduced}"));
                lines.push(format!("{who} folder {fname} mirror {mirror}"));
            }
        }
        // the folder passwords the identity folder currently hands out (fingerprints)
        {
            use sos_login::DelegatedAccess;
            let mut ks: Vec<String> = vec![];
            for id in &ids {
                let fp = match account.find_folder_password(id).await {
                    Ok(Some(AccessKey::Password(p))) => {
                        use secrecy::ExposeSecret;
                        use sha2::Digest;
                        hex::encode(&sha2::Sha256::digest(p.expose_secret().as_bytes())[..4])
                    }
                    Ok(Some(_)) => "identity".to_string(),
                    _ => "-".to_string(),
                };
                ks.push(format!("{}={fp}", self.fname(id)));
            }
            lines.push(format!("!{who} idkeys {}", ks.join(";")));
        }
        // search index
        if let Ok(index) = account.search_index().await {
            let index = index.read().await;
            let mut per: BTreeMap<String, Vec<String>> = BTreeMap::new();
            for doc in index.values() {
                let f = self.fnames.get(doc.folder_id()).cloned().unwrap_or("?".into());
                per.entry(f).or_default().push(doc.meta().label().to_string());
            }
            for v in per.values_mut() {
                v.sort();
            }
            let docs: Vec<String> = per.iter().map(|(f, v)| format!("{f}:{}", v.join(";"))).collect();
            let count = index.statistics().count();
            let mut vc: Vec<String> = count.vaults().iter().map(|(id, n)| format!("{}:{n}", self.fnames.get(id).cloned().unwrap_or("?".into()))).collect();
            vc.sort();
            let mut kc: Vec<String> = count.kinds().iter().map(|(k, n)| format!("{k}:{n}")).collect();
            kc.sort();
            let mut tc: Vec<String> = count.tags().iter().map(|(t, n)| format!("{t}:{n}")).collect();
            tc.sort();
            lines.push(format!("{who} index docs={} vaults={} kinds={} favs={} tags={}", docs.join("|"), vc.join(";"), kc.join(";"), count.favorites(), tc.join(";")));
        }
    }

    pub async fn observe_server(&mut self, lines: &mut Vec<String>) {
        if let Some(st) = self.server.account().await {
            let st = st.read().await;
            self.observe_logs("SRV", &*st, lines).await;
        } else {
            lines.push("SRV none".into());
        }
    }

    pub async fn step(&mut self, op: &str) -> String {
        self.step += 1;
        let parts: Vec<&str> = op.split(':').collect();
        let head = parts[0];
        if head == "t" {
            set_clock(parts[1].parse().unwrap());
            return "ok".into();
        }
        let kind = &head[..1];
        let d: usize = head[1..].parse().unwrap_or(0);
        if d >= self.devs.len() {
            return "nodev".into();
        }
        let acct = self.devs[d].bridge.account.clone();
        macro_rules! res {
            ($e:expr) => {
                match $e {
                    Ok(_) => "ok".to_string(),
                    Err(e) => {
                        let s = format!("{e:?}");
                        format!("err:{}", s.split(|c: char| !c.is_alphanumeric()).find(|t| !t.is_empty()).unwrap_or("E"))
                    }
                }
            };
        }
        match kind {
            "s" => {
                let r = self.devs[d].sync().await;
                match r {
                    Ok(_) => "ok".into(),
                    Err(e) => {
                        let s = format!("{e:?}");
                        let cls = if s.contains("Soft") { "soft" } else if s.contains("Hard") { "hard" } else { "other" };
                        format!("err:{cls}:{}", s.chars().filter(|c| !c.is_whitespace()).take(120).collect::<String>())
                    }
                }
            }
            "c" => {
                let (slot, fslot) = match parts[1].split_once('@') {
                    Some((s, f)) => (s.to_string(), f.to_string()),
                    None => (parts[1].to_string(), "0".to_string()),
                };
                let Some(fid) = self.fslots.get(&fslot).copied() else { return "nofolder".into() };
                self.counter += 1;
                let (meta, secret) = note(&format!("L{slot}"), &format!("v{}", self.counter));
                let mut account = acct.lock().await;
                match account.create_secret(meta, secret, AccessOptions { folder: Some(fid), ..Default::default() }).await {
                    Ok(ch) => {
                        self.slots.insert(slot, (ch.id, fid));
                        "ok".into()
                    }
                    Err(e) => res!(Err::<(), _>(e)),
                }
            }
            "u" | "x" | "m" | "a" | "A" => {
                let slot = parts[1].to_string();
                let Some((sid, fid)) = self.slots.get(&slot).copied() else { return "noslot".into() };
                let mut account = acct.lock().await;
                // the device may not know the secret (not synced yet / deleted)
                let known = account.read_secret(&sid, Some(&fid)).await.is_ok();
                if !known {
                    return "unknown".into();
                }
                let opts = AccessOptions { folder: Some(fid), ..Default::default() };
                match kind {
                    "u" => {
                        self.counter += 1;
                        let (meta, secret) = note(&format!("L{slot}"), &format!("v{}", self.counter));
                        res!(account.update_secret(&sid, meta, Some(secret), opts).await)
                    }
                    "x" => res!(account.delete_secret(&sid, opts).await),
                    "m" => {
                        let Some(to) = self.fslots.get(parts[2]).copied() else { return "nofolder".into() };
                        if account.folder(&to).await.is_err() {
                            return "unknownfolder".into();
                        }
                        match account.move_secret(&sid, &fid, &to, Default::default()).await {
                            Ok(mv) => {
                                self.slots.insert(slot, (mv.id, to));
                                "ok".into()
                            }
                            Err(e) => res!(Err::<(), _>(e)),
                        }
                    }
                    "a" => match account.archive(&fid, &sid, Default::default()).await {
                        Ok(mv) => {
                            let arch = account.archive_folder().await.map(|s| *s.id());
                            if let Some(arch) = arch {
                                self.fnames.entry(arch).or_insert_with(|| "arch".into());
                                self.slots.insert(slot, (mv.id, arch));
                            }
                            "ok".into()
                        }
                        Err(e) => res!(Err::<(), _>(e)),
                    },
                    _ => match account.unarchive(&sid, &SecretType::Note, Default::default()).await {
                        Ok((mv, to)) => {
                            self.slots.insert(slot, (mv.id, *to.id()));
                            "ok".into()
                        }
                        Err(e) => res!(Err::<(), _>(e)),
                    },
                }
            }
            "f" => {
                let fslot = parts[1].to_string();
                let mut account = acct.lock().await;
                match account.create_folder(NewFolderOptions::new(format!("F{fslot}"))).await {
                    Ok(fc) => {
                        let id = *fc.folder.id();
                        self.fslots.insert(fslot.clone(), id);
                        self.fnames.insert(id, format!("f{fslot}"));
                        "ok".into()
                    }
                    Err(e) => res!(Err::<(), _>(e)),
                }
            }
            "i" => {
                // export folder <f> and import the export next to the original (overwrite = false): a new folder
                // holding the SAME secret ids
                let Some(fid) = self.fslots.get(parts[1]).copied() else { return "nofolder".into() };
                let mut account = acct.lock().await;
                if account.folder(&fid).await.is_err() {
                    return "unknown".into();
                }
                self.counter += 1;
                let path = self.base.join(format!("export-{}.vault", self.counter));
                let pw: secrecy::SecretString = secrecy::SecretString::new(format!("export-passphrase-{}", self.counter).into());
                if let Err(e) = account.export_folder(&path, &fid, pw.clone().into(), false).await {
                    return res!(Err::<(), _>(e));
                }
                match account.import_folder(&path, pw.into(), false).await {
                    Ok(fc) => {
                        let id = *fc.folder.id();
                        let n = format!("c{}", self.counter);
                        self.fnames.insert(id, n);
                        "ok".into()
                    }
                    Err(e) => res!(Err::<(), _>(e)),
                }
            }
            "r" | "p" | "g" | "k" | "z" | "w" | "R" => {
                let Some(fid) = self.fslots.get(parts[1]).copied() else { return "nofolder".into() };
                let mut account = acct.lock().await;
                if account.folder(&fid).await.is_err() {
                    return "unknownfolder".into();
                }
                match kind {
                    "r" => res!(account.rename_folder(&fid, format!("N{}", parts.get(2).unwrap_or(&"x"))).await),
                    "p" => {
                        self.counter += 1;
                        res!(account.set_folder_description(&fid, format!("desc{}", self.counter)).await)
                    }
                    "g" => {
                        let bits: u64 = parts.get(2).and_then(|b| b.parse().ok()).unwrap_or(0);
                        res!(account.update_folder_flags(&fid, VaultFlags::from_bits_truncate(bits)).await)
                    }
                    "k" => res!(account.delete_folder(&fid).await),
                    // forget a folder: dropped from the in-memory collections only
                    "R" => res!(account.forget_folder(&fid).await),
                    "z" => res!(account.compact_folder(&fid).await),
                    _ => {
                        use sos_login::DelegatedAccess;
                        self.counter += 1;
                        let new_pw_text = format!("new-folder-password-{}", self.counter);
                        let new_fp = {
                            use sha2::Digest;
                            hex::encode(&sha2::Sha256::digest(new_pw_text.as_bytes())[..4])
                        };
                        let key: AccessKey = secrecy::SecretString::new(new_pw_text.into()).into();
                        // what the old key opened before the change
                        let storage = ClientStorage::new_unauthenticated(account.backend_target().await, &self.account_id).await.ok();
                        let old_key = account.find_folder_password(&fid).await.ok().flatten();
                        let old_vault = match &storage { Some(s) => s.read_vault(&fid).await.ok(), None => None };
                        let r = account.change_folder_password(&fid, key).await;
                        let mut report = String::from("nokey");
                        if let (Some(old_key), Some(old_vault), Some(storage)) = (old_key, old_vault, storage) {
                            let new_key = account.find_folder_password(&fid).await.ok().flatten();
                            let new_vault = storage.read_vault(&fid).await.ok();
                            // an access point holding the OLD header (old salt) unlocked with the OLD key
                            let mut ap_old = sos_backend::AccessPoint::from_vault(old_vault);
                            let old_ok_before = ap_old.unlock(&old_key).await.is_ok();
                            let mut opens = 0usize;
                            let mut total = 0usize;
                            let (mut old_unlock, mut new_unlock) = ("n/a", "n/a");
                            if let Some(nv) = new_vault {
                                for (_, commit) in nv.iter() {
                                    total += 1;
                                    if ap_old.decrypt_secret(commit, None).await.is_ok() { opens += 1; }
                                }
                                if let Some(aead) = nv.header().meta() {
                                    total += 1;
                                    if ap_old.decrypt_meta(aead).await.is_ok() { opens += 1; }
                                }
                                let mut ap1 = sos_backend::AccessPoint::from_vault(nv.clone());
                                old_unlock = if ap1.unlock(&old_key).await.is_ok() { "ok" } else { "err" };
                                if let Some(nk) = &new_key {
                                    let mut ap2 = sos_backend::AccessPoint::from_vault(nv);
                                    new_unlock = if ap2.unlock(nk).await.is_ok() { "ok" } else { "err" };
                                }
                            }
                            // every entry of the rewritten event log
                            if let Ok(folder) = account.folder(&fid).await {
                                let log = folder.event_log();
                                let log = log.read().await;
                                let stream = log.event_stream(false).await;
                                pin_mut!(stream);
                                while let Some(Ok((_, ev))) = stream.next().await {
                                    match ev {
                                        WriteEvent::CreateSecret(_, c) | WriteEvent::UpdateSecret(_, c) => {
                                            total += 1;
                                            if ap_old.decrypt_secret(&c, None).await.is_ok() { opens += 1; }
                                        }
                                        WriteEvent::SetVaultMeta(a) => {
                                            total += 1;
                                            if ap_old.decrypt_meta(&a).await.is_ok() { opens += 1; }
                                        }
                                        _ => {}
                                    }
                                }
                            }
                            // every other file of the folder's storage (file-system backend): anything next to <id>.vault
                            // and <id>.events whose name carries the folder id is read as an event log and tried with the old key
                            let (mut sib_files, mut sib_opens) = (0usize, 0usize);
                            let target = account.backend_target().await.with_account_id(&self.account_id);
                            if let sos_backend::BackendTarget::FileSystem(paths) = &target {
                                let vdir = paths.vaults_dir();
                                let idtxt = fid.to_string();
                                let names: Vec<std::path::PathBuf> = std::fs::read_dir(&vdir)
                                    .map(|rd| rd.flatten().map(|e| e.path()).collect())
                                    .unwrap_or_default();
                                for p in names {
                                    let name = p.file_name().map(|n| n.to_string_lossy().to_string()).unwrap_or_default();
                                    if !name.contains(&idtxt) || name == format!("{idtxt}.vault") || name == format!("{idtxt}.events") {
                                        continue;
                                    }
                                    sib_files += 1;
                                    // read a copy so that nothing is created next to the account's files
                                    let copy = self.base.join(format!("sibling-copy-{}.events", self.counter));
                                    if std::fs::copy(&p, &copy).is_err() { continue; }
                                    if let Ok(log) = sos_filesystem::FolderEventLog::<sos_backend::Error>::new_folder(
                                        &copy, self.account_id, sos_core::events::EventLogType::Folder(fid)).await
                                    {
                                        use sos_core::events::EventLog;
                                        let stream = log.event_stream(false).await;
                                        pin_mut!(stream);
                                        while let Some(Ok((_, ev))) = stream.next().await {
                                            match ev {
                                                WriteEvent::CreateSecret(_, c) | WriteEvent::UpdateSecret(_, c) => {
                                                    if ap_old.decrypt_secret(&c, None).await.is_ok() { sib_opens += 1; }
                                                }
                                                WriteEvent::SetVaultMeta(a) => {
                                                    if ap_old.decrypt_meta(&a).await.is_ok() { sib_opens += 1; }
                                                }
                                                _ => {}
                                            }
                                        }
                                    }
                                    let _ = std::fs::remove_file(&copy);
                                }
                            }
                            report = format!("old_before={} old_unlock={old_unlock} new_unlock={new_unlock} blobs={total} old_opens={opens} siblings={sib_files} sibling_old_opens={sib_opens}", if old_ok_before { "ok" } else { "err" });
                        }
                        let fname = self.fname(&fid);
                        self.keycheck = Some(format!("{report} folder={fname} newfp={new_fp} changed={}", r.is_ok() as u8));
                        res!(r)
                    }
                }
            }
            "h" => {
                use sos_core::events::patch::{FolderDiff, FolderPatch};
                use sos_sync::ForceMerge;
                let Some(fid) = self.fslots.get(parts[1]).copied() else { return "nofolder".into() };
                let src: usize = parts.get(2).and_then(|x| x.parse().ok()).unwrap_or(0);
                if src >= self.devs.len() || src == d { return "badsrc".into(); }
                let diff = {
                    let sacct = self.devs[src].bridge.account.clone();
                    let sa = sacct.lock().await;
                    let Ok(log) = sa.folder_log(&fid).await else { return "unknownfolder".into() };
                    let log = log.read().await;
                    let Ok(records) = log.diff_records(None).await else { return "err:diff".into() };
                    let Ok(head) = log.tree().head() else { return "err:head".into() };
                    FolderDiff { last_commit: None, checkpoint: head, patch: FolderPatch::new(records) }
                };
                let mut account = acct.lock().await;
                if account.folder(&fid).await.is_err() { return "unknownfolder".into(); }
                let mut outcome = sos_sync::MergeOutcome::default();
                res!(account.force_merge_folder(&fid, diff, &mut outcome).await)
            }
            "W" => {
                // change the account password; then a fresh account over the same storage must refuse the old
                // password and accept the new one
                self.counter += 1;
                let old = self.passwords.get(&d).cloned().unwrap_or_else(password);
                let new: secrecy::SecretString = secrecy::SecretString::new(format!("harness-changed-passphrase-{}-abcdefgh", self.counter).into());
                let mut account = acct.lock().await;
                let r = account.change_account_password(new.clone()).await;
                let out = res!(r);
                if out == "ok" {
                    self.passwords.insert(d, new.clone());
                    let target = account.backend_target().await;
                    let mut report = vec![];
                    for (name, pw) in [("old", old), ("new", new)] {
                        let verdict = match sos_account::LocalAccount::new_unauthenticated(self.account_id, target.clone()).await {
                            Ok(mut fresh) => {
                                let key: AccessKey = pw.into();
                                match fresh.sign_in(&key).await {
                                    Ok(_) => {
                                        let _ = fresh.sign_out().await;
                                        "ok"
                                    }
                                    Err(_) => "err",
                                }
                            }
                            Err(_) => "noopen",
                        };
                        report.push(format!("{name}_signin={verdict}"));
                    }
                    self.keycheck = Some(format!("acctpw {}", report.join(" ")));
                }
                out
            }
            "Z" => {
                // change the cipher of the whole account (alternating between the two symmetric ciphers)
                let pw = self.passwords.get(&d).cloned().unwrap_or_else(password);
                let key: AccessKey = pw.into();
                self.cipher_flip = !self.cipher_flip;
                let cipher = if self.cipher_flip { sos_core::crypto::Cipher::XChaCha20Poly1305 } else { sos_core::crypto::Cipher::AesGcm256 };
                let mut account = acct.lock().await;
                res!(account.change_cipher(&key, &cipher, None).await.map(|_| ()))
            }
            "o" => {
                // a real reload: a fresh LocalAccount built from storage (sign_out + sign_in on the
                // same value keeps the folders it already holds)
                let mut account = acct.lock().await;
                let _ = account.sign_out().await;
                let target = account.backend_target().await;
                let key: AccessKey = self.passwords.get(&d).cloned().unwrap_or_else(password).into();
                match sos_account::LocalAccount::new_unauthenticated(self.account_id, target).await {
                    Ok(mut fresh) => {
                        let r = fresh.sign_in(&key).await;
                        let _ = fresh.initialize_search_index().await;
                        let out = res!(r);
                        *account = fresh;
                        out
                    }
                    Err(e) => res!(Err::<(), _>(e)),
                }
            }
            _ => "badop".into(),
        }
    }
}

pub fn run(text: &str, cases_path: &str, out: &mut impl Write) {
    let rt = rt();
    let base = std::path::Path::new(cases_path).parent().unwrap().join("data-acct");
    for line in text.lines() {
        let toks: Vec<&str> = line.split_whitespace().collect();
        if toks.len() < 2 || toks[0].starts_with('#') {
            continue;
        }
        let id = toks[1].to_string();
        let cdb = kv(&toks, "cbe") == Some("db");
        let sdb = kv(&toks, "sbe") == Some("db");
        let ndev: usize = kv(&toks, "devs").unwrap_or("2").parse().unwrap();
        let hist: Vec<String> = kv(&toks, "hist").unwrap_or("").split('|').filter(|s| !s.is_empty()).map(|s| s.to_string()).collect();
        let quiet = kv(&toks, "obs") == Some("end");
        writeln!(out, "{id} !begin").unwrap();
        out.flush().unwrap();
        rt.block_on(async {
            let mut w = World::new(base.join(&id), cdb, sdb, ndev, Gate::default()).await;
            for (n, op) in hist.iter().enumerate() {
                let res = w.step(op).await;
                writeln!(out, "{id} {} op={op} res={res}", n + 1).unwrap();
                if let Some(k) = w.keycheck.take() {
                    writeln!(out, "{id} !{} keycheck {k}", n + 1).unwrap();
                }
                if !quiet || n + 1 == hist.len() {
                    let mut lines = vec![];
                    for d in 0..w.devs.len() {
                        w.observe_device(d, &mut lines).await;
                    }
                    w.observe_server(&mut lines).await;
                    for l in lines {
                        if let Some(rest) = l.strip_prefix('!') {
                            writeln!(out, "{id} !{} {rest}", n + 1).unwrap();
                        } else {
                            writeln!(out, "{id} {} {l}", n + 1).unwrap();
                        }
                    }
                }
            }
            set_clock(0);
        });
        let _ = std::fs::remove_dir_all(base.join(&id));
    }
}
