//! C14/C15: encode/decode of stored and transmitted types.
//!   harness c14gen <spec-file>   spec line: "seed=<n> count=<n>": prints "T=<type> B=<hex> rt=<0|1>"
//!   harness c14 <cases>          case line: "c14 <id> T=<type> B=<hex>"
//! For every case the bytes are decoded with the real decoder; on success the value is
//! re-encoded: "<id> ok <hex>"; decode error: "<id> err"; panic: "<id> panic".  Lines whose
//! payload starts with '!' are implementation-only observations (allocation, messages).
use crate::util::{guarded, kv, quiet_panics, rt, Rng};
use sos_core::{
    commit::{CommitHash, CommitProof, CommitState, Comparison},
    crypto::{AeadPack, Nonce},
    decode, encode,
    events::{AccountEvent, DeviceEvent, EventRecord, FileEvent, WriteEvent},
    ExternalFileName, SecretPath, UtcDateTime, VaultCommit, VaultEntry, VaultFlags,
};
use std::io::Write;

pub const TYPES: &[&str] = &[
    "time", "aead", "vcommit", "write", "account", "file", "device", "record", "cproof", "cstate",
    "comparison", "vaultmeta", "secretmeta", "secret", "tagset", "evfile",
    // protobuf wire types of the sync protocol (not modelled in Coq: round trip and mutation on the implementation only)
    "wscanreq", "wscanres", "wdiffreq", "wdiffres", "wpatchreq", "wpatchres", "wstatus",
];

fn gen_time(r: &mut Rng) -> UtcDateTime {
    let secs: i64 = match r.below(6) {
        0 => 0,
        1 => -377705116800,
        2 => 253402300799,
        3 => r.below(4102444800) as i64,
        4 => -(r.below(377705116800) as i64),
        _ => 1_700_000_000 + r.below(100_000_000) as i64,
    };
    let nanos = match r.below(4) { 0 => 0, 1 => 999_999_999, _ => r.below(1_000_000_000) } as i64;
    let t = time::OffsetDateTime::from_unix_timestamp(secs).unwrap();
    let t = t.checked_add(time::Duration::nanoseconds(nanos)).unwrap_or(t);
    t.into()
}
fn gen_blob(r: &mut Rng) -> Vec<u8> {
    let n = match r.below(6) { 0 => 0, 1 => 1, 2 => 255, 3 => 256, _ => r.below(80) } as usize;
    r.bytes(n)
}
fn gen_aead(r: &mut Rng) -> AeadPack {
    let nonce = if r.below(2) == 0 {
        Nonce::Nonce12(r.bytes(12).try_into().unwrap())
    } else {
        Nonce::Nonce24(r.bytes(24).try_into().unwrap())
    };
    AeadPack { nonce, ciphertext: gen_blob(r) }
}
fn gen_vcommit(r: &mut Rng) -> VaultCommit {
    VaultCommit(CommitHash(r.bytes(32).try_into().unwrap()), VaultEntry(gen_aead(r), gen_aead(r)))
}
fn gen_uuid(r: &mut Rng) -> uuid::Uuid {
    uuid::Uuid::from_bytes(r.bytes(16).try_into().unwrap())
}
fn gen_string(r: &mut Rng) -> String {
    let pool = ["", "a", "Login", "h\u{e9}llo", "\u{65e5}\u{672c}\u{8a9e}", "\u{1F511} key", "x y z", "\u{7ff}\u{800}\u{ffff}\u{10000}\u{10ffff}"];
    let mut s = r.pick(&pool).to_string();
    if r.below(3) == 0 {
        let extra: &str = *r.pick(&pool);
        s.push_str(extra);
    }
    s
}
fn gen_write(r: &mut Rng) -> WriteEvent {
    match r.below(7) {
        0 => WriteEvent::CreateVault(gen_blob(r)),
        1 => WriteEvent::SetVaultName(gen_string(r)),
        2 => WriteEvent::SetVaultFlags(VaultFlags::from_bits_truncate(r.next())),
        3 => WriteEvent::SetVaultMeta(gen_aead(r)),
        4 => WriteEvent::CreateSecret(gen_uuid(r), gen_vcommit(r)),
        5 => WriteEvent::UpdateSecret(gen_uuid(r), gen_vcommit(r)),
        _ => WriteEvent::DeleteSecret(gen_uuid(r)),
    }
}
fn gen_account(r: &mut Rng) -> AccountEvent {
    match r.below(8) {
        0 => AccountEvent::RenameAccount(gen_string(r)),
        1 => AccountEvent::UpdateIdentity(gen_blob(r)),
        2 => AccountEvent::CreateFolder(gen_uuid(r), gen_blob(r)),
        3 => AccountEvent::ChangeFolderPassword(gen_uuid(r), gen_blob(r)),
        4 => AccountEvent::UpdateFolder(gen_uuid(r), gen_blob(r)),
        5 => AccountEvent::CompactFolder(gen_uuid(r), gen_blob(r)),
        6 => AccountEvent::RenameFolder(gen_uuid(r), gen_string(r)),
        _ => AccountEvent::DeleteFolder(gen_uuid(r)),
    }
}
fn gen_name(r: &mut Rng) -> ExternalFileName {
    let b: [u8; 32] = r.bytes(32).try_into().unwrap();
    b.into()
}
fn gen_file(r: &mut Rng) -> FileEvent {
    match r.below(3) {
        0 => FileEvent::CreateFile(SecretPath(gen_uuid(r), gen_uuid(r)), gen_name(r)),
        1 => FileEvent::DeleteFile(SecretPath(gen_uuid(r), gen_uuid(r)), gen_name(r)),
        _ => FileEvent::MoveFile {
            name: gen_name(r),
            from: SecretPath(gen_uuid(r), gen_uuid(r)),
            dest: SecretPath(gen_uuid(r), gen_uuid(r)),
        },
    }
}
fn gen_device(r: &mut Rng) -> DeviceEvent {
    let b: [u8; 32] = r.bytes(32).try_into().unwrap();
    DeviceEvent::Revoke(b.into())
}
fn gen_record(r: &mut Rng) -> EventRecord {
    EventRecord::new(
        gen_time(r),
        CommitHash(r.bytes(32).try_into().unwrap()),
        CommitHash(r.bytes(32).try_into().unwrap()),
        gen_blob(r),
    )
}
fn gen_cproof(r: &mut Rng) -> CommitProof {
    let n = 1 + r.below(40) as usize;
    let syms: Vec<u8> = (0..n).map(|_| r.below(5) as u8).collect();
    let t = crate::c08::build(&syms, r.below(n as u64 + 1) as usize);
    let i = r.below(n as u64) as usize;
    t.proof(&[i]).unwrap()
}
fn gen_comparison(r: &mut Rng) -> Comparison {
    match r.below(3) {
        0 => Comparison::Equal,
        1 => Comparison::Contains((0..r.below(4)).map(|_| r.below(1 << 40) as usize).collect()),
        _ => Comparison::Unknown,
    }
}

// ---- wire types (sos_protocol bindings over prost)
fn gen_log_type(r: &mut Rng) -> sos_core::events::EventLogType {
    use sos_core::events::EventLogType::*;
    match r.below(5) {
        0 => Identity,
        1 => Account,
        2 => Device,
        3 => Files,
        _ => Folder(gen_uuid(r)),
    }
}
fn gen_hash(r: &mut Rng) -> CommitHash {
    CommitHash(r.bytes(32).try_into().unwrap())
}
fn gen_records(r: &mut Rng) -> Vec<EventRecord> {
    (0..r.below(4)).map(|_| gen_record(r)).collect()
}
fn gen_scan_req(r: &mut Rng) -> sos_protocol::ScanRequest {
    let limit = *r.pick(&[0u16, 1, 255, 256, 257, u16::MAX]);
    let offset = *r.pick(&[0u64, 1, 255, u32::MAX as u64, u64::MAX]);
    sos_protocol::ScanRequest { log_type: gen_log_type(r), limit, offset }
}
fn gen_scan_res(r: &mut Rng) -> sos_protocol::ScanResponse {
    sos_protocol::ScanResponse {
        first_proof: if r.below(2) == 0 { None } else { Some(gen_cproof(r)) },
        proofs: (0..r.below(4)).map(|_| gen_cproof(r)).collect(),
        offset: *r.pick(&[0u64, 7, u64::MAX]),
    }
}
fn gen_diff_req(r: &mut Rng) -> sos_protocol::DiffRequest {
    sos_protocol::DiffRequest { log_type: gen_log_type(r), from_hash: if r.below(2) == 0 { None } else { Some(gen_hash(r)) } }
}
fn gen_diff_res(r: &mut Rng) -> sos_protocol::DiffResponse {
    sos_protocol::DiffResponse { patch: gen_records(r), checkpoint: gen_cproof(r) }
}
fn gen_patch_req(r: &mut Rng) -> sos_protocol::PatchRequest {
    sos_protocol::PatchRequest {
        log_type: gen_log_type(r),
        commit: if r.below(2) == 0 { None } else { Some(gen_hash(r)) },
        proof: gen_cproof(r),
        patch: gen_records(r),
    }
}
fn gen_patch_res(r: &mut Rng) -> sos_protocol::PatchResponse {
    use sos_core::events::patch::CheckedPatch;
    let checked_patch = match r.below(3) {
        0 => CheckedPatch::Success(gen_cproof(r)),
        1 => CheckedPatch::Conflict { head: gen_cproof(r), contains: None },
        _ => CheckedPatch::Conflict { head: gen_cproof(r), contains: Some(gen_cproof(r)) },
    };
    sos_protocol::PatchResponse { checked_patch }
}
fn gen_status(r: &mut Rng) -> sos_sync::SyncStatus {
    let mut st = |r: &mut Rng| CommitState(gen_hash(r), gen_cproof(r));
    let mut s = sos_sync::SyncStatus::default();
    s.root = gen_hash(r);
    s.identity = st(r);
    s.account = st(r);
    s.device = st(r);
    s.files = if r.below(2) == 0 { None } else { Some(st(r)) };
    for _ in 0..r.below(4) {
        let id = gen_uuid(r);
        let v = st(r);
        s.folders.insert(id, v);
    }
    s
}
macro_rules! wroundtrip {
    ($rt:expr, $v:expr, $t:ty) => {{
        use sos_protocol::WireEncodeDecode;
        let v = $v;
        let bytes = $rt.block_on(v.clone().encode()).expect("wire encode");
        let back: Result<$t, _> = $rt.block_on(<$t>::decode(std::io::Cursor::new(bytes.clone())));
        let same = match back { Ok(b) => b == v, Err(_) => false };
        (bytes, same)
    }};
}
macro_rules! wredecode {
    ($rt:expr, $bytes:expr, $t:ty) => {{
        use sos_protocol::WireEncodeDecode;
        match $rt.block_on(<$t>::decode(std::io::Cursor::new($bytes.to_vec()))) {
            Ok(v) => match $rt.block_on(v.encode()) {
                Ok(b) => format!("ok {}", hex::encode(b)),
                Err(_) => "ok !reencode-failed".to_string(),
            },
            Err(_) => "err".to_string(),
        }
    }};
}

// ---- vault crate types (not modelled in Coq: explored through the round-trip oracle only)
fn gen_secret_meta(r: &mut Rng) -> sos_vault::secret::SecretMeta {
    use sos_vault::secret::{SecretMeta, SecretType};
    let kinds = [SecretType::Note, SecretType::Account, SecretType::List, SecretType::Card, SecretType::File];
    let mut m = SecretMeta::new(gen_string(r), *r.pick(&kinds));
    // several tags: the set must be written in an order that depends on its contents only
    match r.below(7) {
        0 => {}
        1 => m.set_tags(["work".to_string()].into_iter().collect()),
        2 => m.set_tags([String::new()].into_iter().collect()),
        3 => m.set_tags(["  ".to_string()].into_iter().collect()),
        4 => m.set_tags([gen_string(r)].into_iter().collect()),
        5 => m.set_tags(["work".to_string(), "home".to_string(), "bank".to_string(), gen_string(r)].into_iter().collect()),
        _ => m.set_tags((0..(2 + r.below(6))).map(|i| format!("t{i}{}", gen_string(r))).collect()),
    }
    m.set_favorite(r.below(2) == 0);
    m.set_date_created(gen_time(r));
    m.set_last_updated(gen_time(r));
    if r.below(3) == 0 {
        m.set_urn(Some("urn:sos:verif:1".parse().unwrap()));
    }
    m
}
fn meta_same(a: &sos_vault::secret::SecretMeta, b: &sos_vault::secret::SecretMeta) -> bool {
    a.label() == b.label()
        && a.kind() == b.kind()
        && a.tags() == b.tags()
        && a.favorite() == b.favorite()
        && a.flags().bits() == b.flags().bits()
        && a.urn() == b.urn()
        && a.owner_id() == b.owner_id()
        && a.date_created() == b.date_created()
        && a.last_updated() == b.last_updated()
}
fn gen_secret(r: &mut Rng) -> sos_vault::secret::Secret {
    use sos_test_utils::mock;
    let a = gen_string(r);
    let b = gen_string(r);
    let (_, s) = match r.below(14) {
        0 => mock::note("l", &a),
        1 => mock::login("l", &a, b.clone().into()),
        2 => {
            // a list of several items: a map, written in an order that must depend on its contents only
            let mut h = std::collections::HashMap::new();
            h.insert(a.as_str(), b.as_str());
            let extra = ["k1", "k2", "k3", "user", "pin", "zz"];
            let n = r.below(6) as usize;
            for k in &extra[..n] {
                h.insert(*k, b.as_str());
            }
            mock::list("l", h)
        }
        3 => mock::card("l", &a, &b),
        4 => mock::bank("l", &a, &b),
        5 => mock::link("l", "https://example.com/x"),
        6 => mock::password("l", a.clone().into()),
        7 => mock::page("l", &a, &b),
        8 => mock::contact("l", "Jane Doe"),
        9 => mock::totp("l"),
        10 => mock::pem("l"),
        11 => mock::identity("l", sos_vault::secret::IdentityKind::IdCard, "12345"),
        12 => mock::age("l"),
        _ => mock::internal_file("l", "name.txt", "text/plain", b.as_bytes()),
    };
    let mut s = s;
    if r.below(2) == 0 {
        s.user_data_mut().set_comment(Some(gen_string(r)));
    }
    if r.below(3) == 0 {
        s.user_data_mut().set_recovery_note(Some(gen_string(r)));
    }
    s
}

/// the tag field of the encoding of a SecretMeta holding `tags` (inserted in the given order): the bytes between
/// the prefix and the suffix it shares with the encoding of the same meta data without tags
fn tag_section(rt: &tokio::runtime::Runtime, tags: &[String]) -> Vec<u8> {
    use sos_vault::secret::{SecretMeta, SecretType};
    let fixed: UtcDateTime = time::OffsetDateTime::from_unix_timestamp(1_700_000_000).unwrap().into();
    let mk = |tags: &[String]| {
        let mut m = SecretMeta::new(String::new(), SecretType::Note);
        m.set_date_created(fixed.clone());
        m.set_last_updated(fixed.clone());
        let mut set = std::collections::HashSet::new();
        for t in tags {
            set.insert(t.clone());
        }
        m.set_tags(set);
        m
    };
    let e0 = rt.block_on(encode(&mk(&[]))).expect("encode");
    let et = rt.block_on(encode(&mk(tags))).expect("encode");
    if tags.is_empty() {
        return vec![0, 0, 0, 0];
    }
    let p = e0.iter().zip(et.iter()).position(|(a, b)| a != b).unwrap_or(e0.len());
    let s = e0.len().saturating_sub(p + 4);
    et[p..et.len() - s].to_vec()
}
fn tags_to_bytes(tags: &[String]) -> Vec<u8> {
    let mut b = (tags.len() as u32).to_le_bytes().to_vec();
    for t in tags {
        b.extend_from_slice(&(t.len() as u32).to_le_bytes());
        b.extend_from_slice(t.as_bytes());
    }
    b
}
fn tags_from_bytes(b: &[u8]) -> Option<Vec<String>> {
    let mut pos = 4usize;
    let n = u32::from_le_bytes(b.get(0..4)?.try_into().ok()?) as usize;
    let mut out = vec![];
    for _ in 0..n {
        let l = u32::from_le_bytes(b.get(pos..pos + 4)?.try_into().ok()?) as usize;
        pos += 4;
        out.push(String::from_utf8(b.get(pos..pos + l)?.to_vec()).ok()?);
        pos += l;
    }
    Some(out)
}

fn evfile_dir() -> std::path::PathBuf {
    let d = std::env::current_dir().unwrap_or_else(|_| std::env::temp_dir()).join("c15-evfile");
    let _ = std::fs::create_dir_all(&d);
    d
}
/// the bytes of a folder event log file (file-system backend) holding the given events
fn evfile_bytes(rt: &tokio::runtime::Runtime, evs: &[WriteEvent]) -> Vec<u8> {
    use sos_core::events::EventLog;
    let p = evfile_dir().join("gen.events");
    let _ = std::fs::remove_file(&p);
    rt.block_on(async {
        let mut log = sos_filesystem::FolderEventLog::<sos_backend::Error>::new_folder(
            &p,
            sos_core::AccountId::from([0xC5u8; 20]),
            sos_core::events::EventLogType::Folder(sos_core::VaultId::new_v4()),
        )
        .await
        .expect("new event log");
        log.apply(evs).await.expect("apply");
    });
    let b = std::fs::read(&p).unwrap_or_default();
    let _ = std::fs::remove_file(&p);
    b
}
/// open the bytes as a folder event log file: the row iterator in both directions (compared with the
/// model), then the record streams with their payload reads (panics / allocation only)
fn evfile_walk(rt: &tokio::runtime::Runtime, bytes: &[u8]) -> String {
    use futures::{pin_mut, StreamExt};
    use sos_core::events::EventLog;
    let acc = sos_core::AccountId::from([0xC5u8; 20]);
    let dir = evfile_dir();
    rt.block_on(async {
        let (fwd, rev) = crate::c13::both_directions("folder.events", bytes, &dir, &acc).await;
        let p = dir.join("s.events");
        std::fs::write(&p, bytes).unwrap();
        let mut extra = vec![];
        if let Ok(mut log) = sos_filesystem::FolderEventLog::<sos_backend::Error>::new_folder(
            &p,
            acc,
            sos_core::events::EventLogType::Folder(sos_core::VaultId::new_v4()),
        )
        .await
        {
            extra.push(format!("tree={}", match log.load_tree().await { Ok(_) => log.tree().len().to_string(), Err(_) => "err".into() }));
            for reverse in [false, true] {
                let stream = log.record_stream(reverse).await;
                pin_mut!(stream);
                let mut n = 0usize;
                let mut res = "ok";
                while let Some(r) = stream.next().await {
                    match r {
                        Ok(_) => n += 1,
                        Err(_) => {
                            res = "err";
                            break;
                        }
                    }
                    if n > 200_000 {
                        res = "hang";
                        break;
                    }
                }
                extra.push(format!("{}={res}{n}", if reverse { "rrec" } else { "frec" }));
            }
        }
        let _ = std::fs::remove_file(&p);
        format!("ok fwd={fwd} rev={rev} !!{}", extra.join(","))
    })
}

macro_rules! roundtrip {
    ($rt:expr, $v:expr, $t:ty) => {{
        let v = $v;
        let bytes = $rt.block_on(encode(&v)).expect("encode");
        let back: Result<$t, _> = $rt.block_on(decode::<$t>(&bytes));
        let same = match back { Ok(b) => b == v, Err(_) => false };
        (bytes, same)
    }};
}

pub fn gen(spec: &str, out: &mut impl Write) {
    let toks: Vec<&str> = spec.split_whitespace().collect();
    let seed: u64 = kv(&toks, "seed").unwrap_or("0").parse().unwrap();
    let count: usize = kv(&toks, "count").unwrap_or("10").parse().unwrap();
    let mut r = Rng::new(seed);
    let rt = rt();
    for i in 0..count {
        let ty = TYPES[i % TYPES.len()];
        let (bytes, same) = match ty {
            "time" => roundtrip!(rt, gen_time(&mut r), UtcDateTime),
            "aead" => roundtrip!(rt, gen_aead(&mut r), AeadPack),
            "vcommit" => roundtrip!(rt, gen_vcommit(&mut r), VaultCommit),
            "write" => roundtrip!(rt, gen_write(&mut r), WriteEvent),
            "account" => roundtrip!(rt, gen_account(&mut r), AccountEvent),
            "file" => roundtrip!(rt, gen_file(&mut r), FileEvent),
            "device" => roundtrip!(rt, gen_device(&mut r), DeviceEvent),
            "record" => roundtrip!(rt, gen_record(&mut r), EventRecord),
            "cproof" => roundtrip!(rt, gen_cproof(&mut r), CommitProof),
            "cstate" => {
                let p = gen_cproof(&mut r);
                roundtrip!(rt, CommitState(CommitHash(r.bytes(32).try_into().unwrap()), p), CommitState)
            }
            "comparison" => roundtrip!(rt, gen_comparison(&mut r), Comparison),
            "vaultmeta" => {
                // the creation date is taken from the clock when the value is made: two different clock
                // readings for the original and for the value the decoder starts from
                #[cfg(sos_verif)]
                sos_core::verif_hooks::set_clock(1_600_000_000_000_000_000 + (r.below(1 << 40) as i64), 1);
                let mut v = sos_vault::VaultMeta::default();
                v.set_description(gen_string(&mut r));
                let bytes = rt.block_on(encode(&v)).expect("encode");
                #[cfg(sos_verif)]
                sos_core::verif_hooks::set_clock(1_700_000_000_000_000_000, 1);
                let back: Result<sos_vault::VaultMeta, _> = rt.block_on(decode::<sos_vault::VaultMeta>(&bytes));
                #[cfg(sos_verif)]
                sos_core::verif_hooks::set_clock(0, 1);
                let same = match back { Ok(b) => b.date_created() == v.date_created() && b.description() == v.description(), Err(_) => false };
                (bytes, same)
            }
            "secretmeta" => {
                let v = gen_secret_meta(&mut r);
                let bytes = rt.block_on(encode(&v)).expect("encode");
                let back: Result<sos_vault::secret::SecretMeta, _> = rt.block_on(decode::<sos_vault::secret::SecretMeta>(&bytes));
                let same = match back { Ok(b) => meta_same(&b, &v), Err(_) => false };
                (bytes, same)
            }
            "secret" => roundtrip!(rt, gen_secret(&mut r), sos_vault::secret::Secret),
            "wscanreq" => wroundtrip!(rt, gen_scan_req(&mut r), sos_protocol::ScanRequest),
            "wscanres" => wroundtrip!(rt, gen_scan_res(&mut r), sos_protocol::ScanResponse),
            "wdiffreq" => wroundtrip!(rt, gen_diff_req(&mut r), sos_protocol::DiffRequest),
            "wdiffres" => wroundtrip!(rt, gen_diff_res(&mut r), sos_protocol::DiffResponse),
            "wpatchreq" => wroundtrip!(rt, gen_patch_req(&mut r), sos_protocol::PatchRequest),
            "wpatchres" => wroundtrip!(rt, gen_patch_res(&mut r), sos_protocol::PatchResponse),
            "wstatus" => wroundtrip!(rt, gen_status(&mut r), sos_sync::SyncStatus),
            "evfile" => {
                let n = 1 + r.below(4) as usize;
                let evs: Vec<WriteEvent> = (0..n).map(|_| gen_write(&mut r)).collect();
                (evfile_bytes(&rt, &evs), true)
            }
            "tagset" => {
                // distinct tags in a generated order; the case is that list, the observation the tag field of the
                // real encoding; rt: the field is the same whichever order the set was filled in
                let n = 1 + r.below(7) as usize;
                let mut tags: Vec<String> = vec![];
                for i in 0..n {
                    let t = format!("{}{}", gen_string(&mut r), ["", "a", "b", "Z", "0", "~", "\u{e9}"][i]);
                    if !tags.contains(&t) {
                        tags.push(t);
                    }
                }
                let mut rev = tags.clone();
                rev.reverse();
                let same = tag_section(&rt, &tags) == tag_section(&rt, &rev);
                (tags_to_bytes(&tags), same)
            }
            _ => unreachable!(),
        };
        writeln!(out, "T={} B={} rt={}", ty, hex::encode(&bytes), same as u8).unwrap();
    }
}

macro_rules! redecode {
    ($rt:expr, $bytes:expr, $t:ty) => {{
        match $rt.block_on(decode::<$t>($bytes)) {
            Ok(v) => match $rt.block_on(encode(&v)) {
                Ok(b) => format!("ok {}", hex::encode(b)),
                Err(_) => "ok !reencode-failed".to_string(),
            },
            Err(_) => "err".to_string(),
        }
    }};
}

pub fn decode_one(rt: &tokio::runtime::Runtime, ty: &str, bytes: &[u8]) -> String {
    match ty {
        "time" => redecode!(rt, bytes, UtcDateTime),
        "aead" => redecode!(rt, bytes, AeadPack),
        "vcommit" => redecode!(rt, bytes, VaultCommit),
        "write" => redecode!(rt, bytes, WriteEvent),
        "account" => redecode!(rt, bytes, AccountEvent),
        "file" => redecode!(rt, bytes, FileEvent),
        "device" => redecode!(rt, bytes, DeviceEvent),
        "record" => redecode!(rt, bytes, EventRecord),
        "cproof" => redecode!(rt, bytes, CommitProof),
        "cstate" => redecode!(rt, bytes, CommitState),
        "comparison" => redecode!(rt, bytes, Comparison),
        "vaultmeta" => redecode!(rt, bytes, sos_vault::VaultMeta),
        "secretmeta" => redecode!(rt, bytes, sos_vault::secret::SecretMeta),
        "secret" => redecode!(rt, bytes, sos_vault::secret::Secret),
        "evfile" => evfile_walk(rt, bytes),
        "wscanreq" => wredecode!(rt, bytes, sos_protocol::ScanRequest),
        "wscanres" => wredecode!(rt, bytes, sos_protocol::ScanResponse),
        "wdiffreq" => wredecode!(rt, bytes, sos_protocol::DiffRequest),
        "wdiffres" => wredecode!(rt, bytes, sos_protocol::DiffResponse),
        "wpatchreq" => wredecode!(rt, bytes, sos_protocol::PatchRequest),
        "wpatchres" => wredecode!(rt, bytes, sos_protocol::PatchResponse),
        "wstatus" => wredecode!(rt, bytes, sos_sync::SyncStatus),
        "tagset" => match tags_from_bytes(bytes) {
            Some(mut tags) => {
                tags.reverse();
                format!("ok {}", hex::encode(tag_section(rt, &tags)))
            }
            None => "err".to_string(),
        },
        _ => "unknown-type".to_string(),
    }
}

pub fn run(text: &str, out: &mut impl Write) {
    quiet_panics();
    let rt = rt();
    for line in text.lines() {
        let toks: Vec<&str> = line.split_whitespace().collect();
        if toks.len() < 4 || toks[0].starts_with('#') {
            continue;
        }
        let id = toks[1];
        let ty = kv(&toks, "T").unwrap();
        let bytes = hex::decode(kv(&toks, "B").unwrap_or("")).unwrap();
        // announce the case before touching it: an abort is attributed to this case
        writeln!(out, "{id} !begin").unwrap();
        out.flush().unwrap();
        let start = crate::alloc::window_start();
        let panics_before = crate::util::PANICS.load(std::sync::atomic::Ordering::SeqCst);
        let res = guarded(|| decode_one(&rt, ty, &bytes));
        let (peak, maxreq) = crate::alloc::window_end(start);
        let caught = crate::util::PANICS.load(std::sync::atomic::Ordering::SeqCst) - panics_before;
        if caught > 0 && res.is_ok() {
            // a panic the runtime caught (a blocking task): the caller saw an error, the decoder still panicked
            let at = crate::util::LAST_PANIC.lock().map(|g| g.clone()).unwrap_or_default();
            writeln!(out, "{id} !caught-panic n={caught} at={at}").unwrap();
        }
        match res {
            Ok(s) => match s.split_once(" !!") {
                // implementation-only details travel on their own line
                Some((a, b)) => {
                    writeln!(out, "{id} {a}").unwrap();
                    writeln!(out, "{id} !detail {b}").unwrap();
                }
                None => writeln!(out, "{id} {s}").unwrap(),
            },
            Err(m) => {
                writeln!(out, "{id} panic").unwrap();
                writeln!(out, "{id} !panic {m}").unwrap();
            }
        }
        writeln!(out, "{id} !alloc peak={peak} maxreq={maxreq} len={}", bytes.len()).unwrap();
    }
}
