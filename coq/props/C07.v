(* C07 — placeholder until proofs/EventLog_Lemmas.v lands *)
From Coq Require Import List.
From SosModel Require Import model.EventLog.
Theorem C07_reopen_idem (hash tm dat : Type) (l : @elog hash tm dat) :
  log_reopen hash tm dat (log_reopen hash tm dat l) = log_reopen hash tm dat l.
Proof. reflexivity. Qed.
Print Assumptions C07_reopen_idem.
