(* Event logs (sos_core::events::EventLog) at the record level, as implemented by
   FileSystemEventLog and DatabaseEventLog after the fix commits recorded in
   known_findings.json (rewind order, scoped delete, verify-before-replace).
   State of one log = what storage holds (records, in append order) + the in-memory commit
   tree (leaves).  The DB backend's shared event table is modelled separately below.
   Definitions only. *)
From Coq Require Import List NArith Bool.
From SosModel Require Import model.Merkle.
Import ListNotations.

Section EventLog.
Variable hash : Type.
Variable hash_eqb : hash -> hash -> bool.
Variable H2 : hash -> hash -> hash.
Variables tm dat : Type.

Record erec := mkErec { er_time : tm; er_commit : hash; er_data : dat }.
Record elog := mkElog { l_recs : list erec; l_tree : list hash }.

Definition empty_log : elog := mkElog [] [].

(* apply_records / patch_unchecked: one append, then the tree; empty input is a no-op *)
Definition log_apply (l : elog) (rs : list erec) : elog :=
  mkElog (l_recs l ++ rs) (l_tree l ++ map er_commit rs).

(* load_tree: a fresh instance rebuilds the tree from storage *)
Definition log_reopen (l : elog) : elog := mkElog (l_recs l) (map er_commit (l_recs l)).

Definition log_clear (l : elog) : elog := empty_log.

(* rewind: iterate backwards until the FIRST record from the end whose commit is c;
   [scan] returns (kept records reversed, removed records newest first) *)
Fixpoint scan (c : hash) (rrev : list erec) (removed : list erec)
  : option (list erec * list erec) :=
  match rrev with
  | [] => None
  | r :: rest =>
      if hash_eqb (er_commit r) c then Some (r :: rest, removed)
      else scan c rest (removed ++ [r])
  end.

Inductive rewind_result :=
| RwOk (l : elog) (removed : list erec)      (* removed: in append order *)
| RwNotFound
| RwLeaves.

Definition log_rewind (l : elog) (c : hash) : rewind_result :=
  match scan c (rev (l_recs l)) [] with
  | None => RwNotFound
  | Some (keptrev, removed) =>
      if Nat.ltb (length removed) (length (l_tree l)) then
        RwOk (mkElog (rev keptrev) (firstn (length (l_tree l) - length removed) (l_tree l)))
             (rev removed)
      else RwLeaves
  end.

(* CommitProof equality (root, hashes, length, indices) *)
Fixpoint list_eqb {A} (eqb : A -> A -> bool) (a b : list A) : bool :=
  match a, b with
  | [], [] => true
  | x :: a', y :: b' => eqb x y && list_eqb eqb a' b'
  | _, _ => false
  end.
Definition proof_eqb (p q : proof hash) : bool :=
  hash_eqb (p_root p) (p_root q) && list_eqb hash_eqb (p_hashes p) (p_hashes q)
  && N.eqb (p_length p) (p_length q) && list_eqb N.eqb (p_indices p) (p_indices q).

Inductive patch_result :=
| PcSuccess (l : elog) | PcConflict (contains : bool) | PcNoRoot.

Definition log_patch_checked (l : elog) (p : proof hash) (rs : list erec) : patch_result :=
  match tree_compare hash hash_eqb H2 (l_tree l) p with
  | None => PcNoRoot
  | Some CmpEqual => PcSuccess (log_apply l rs)
  | Some (CmpContains _) => PcConflict true
  | Some CmpUnknown => PcConflict false
  end.

Inductive replace_result := RaOk (l : elog) | RaNoRoot | RaCheckpoint.

(* replace_all_events: the head of the incoming records is compared with the checkpoint
   BEFORE storage is touched *)
Definition log_replace_all (l : elog) (ckpt : proof hash) (rs : list erec) : replace_result :=
  match head hash H2 (map er_commit rs) with
  | None => RaNoRoot
  | Some computed =>
      if proof_eqb computed ckpt then RaOk (mkElog rs (map er_commit rs)) else RaCheckpoint
  end.

(* ---- server event_patch / client rewind_local: rewind to c, checked merge, and on a
   conflict re-apply the removed records ---- *)
Inductive rp_result := RpDone (l : elog) (ok : bool) | RpRewindFailed | RpNoRoot (l : elog).
Definition rewind_and_patch (l : elog) (c : hash) (p : proof hash) (rs : list erec) : rp_result :=
  match log_rewind l c with
  | RwOk l1 removed =>
      match log_patch_checked l1 p rs with
      | PcSuccess l2 => RpDone l2 true
      | PcConflict _ => RpDone (log_apply l1 removed) false
      | PcNoRoot => RpNoRoot l1
      end
  | _ => RpRewindFailed
  end.

(* ---- the database backend: one table shared by all logs of a kind ---- *)
Variable owner : Type.
Variable owner_eqb : owner -> owner -> bool.
Definition table := list (owner * erec).       (* in event_id order *)

Definition tb_select (t : table) (o : owner) : list erec :=
  map snd (filter (fun row => owner_eqb (fst row) o) t).
Definition tb_insert (t : table) (o : owner) (rs : list erec) : table :=
  t ++ map (fun r => (o, r)) rs.
Definition tb_delete_all (t : table) (o : owner) : table :=
  filter (fun row => negb (owner_eqb (fst row) o)) t.
(* DELETE ... WHERE event_id IN (SELECT event_id ... WHERE owner=? ORDER BY event_id DESC LIMIT n):
   walk the table from the end, dropping the first n rows of this owner *)
Fixpoint drop_last_rev (o : owner) (n : nat) (trev : table) : table :=
  match trev with
  | [] => []
  | row :: rest =>
      match n with
      | O => row :: rest
      | S n' => if owner_eqb (fst row) o then drop_last_rev o n' rest
                else row :: drop_last_rev o n rest
      end
  end.
Definition tb_delete_last (t : table) (o : owner) (n : nat) : table :=
  rev (drop_last_rev o n (rev t)).

End EventLog.

Arguments mkErec {hash tm dat}. Arguments er_time {hash tm dat}.
Arguments er_commit {hash tm dat}. Arguments er_data {hash tm dat}.
Arguments mkElog {hash tm dat}. Arguments l_recs {hash tm dat}. Arguments l_tree {hash tm dat}.
Arguments RwOk {hash tm dat}. Arguments RwNotFound {hash tm dat}. Arguments RwLeaves {hash tm dat}.
Arguments PcSuccess {hash tm dat}. Arguments PcConflict {hash tm dat}. Arguments PcNoRoot {hash tm dat}.
Arguments RaOk {hash tm dat}. Arguments RaNoRoot {hash tm dat}. Arguments RaCheckpoint {hash tm dat}.
Arguments RpDone {hash tm dat}. Arguments RpRewindFailed {hash tm dat}. Arguments RpNoRoot {hash tm dat}.
