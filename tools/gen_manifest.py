#!/usr/bin/env python3
"""Regenerates MANIFEST.json from the property modules under lib/vcheck/props."""
import json, os, sys, importlib
ROOT = os.path.dirname(os.path.dirname(os.path.abspath(__file__)))
sys.path.insert(0, os.path.join(ROOT, "lib"))
ALL = ["C%02d" % i for i in range(1, 21)]
NA_REASONS = json.load(open(os.path.join(ROOT, "tools", "not_claimed.json")))
checks, served = [], []
for pid in ALL:
    path = os.path.join(ROOT, "lib", "vcheck", "props", pid.lower() + ".py")
    if not os.path.exists(path):
        continue
    mod = importlib.import_module("vcheck.props." + pid.lower())
    m = mod.MANIFEST
    served.append(pid)
    checks.append({
        "property_id": pid,
        "quick_cmd": "bin/check %s --tier quick" % pid,
        "thorough_cmd": "bin/check %s --tier thorough" % pid,
        "evidence_file": "/verif/evidence/%s.json" % pid,
        "replay_cmd_template": "bin/check %s --replay {path}" % pid,
        "engine": "coq-model",
        "level_claimed": {"category": m["category"], "text": m["text"], "design_ref": m["design_ref"]},
        "level_note": m["note"],
        "technique": m["technique"],
    })
hooks = json.load(open(os.path.join(ROOT, "tools", "hooks.json")))
man = {
    "version": 1,
    "setup_cmd": "bin/setup",
    "hooks": hooks,
    "engines": [
        {"name": "coq-model", "path": "coq/", "serves_properties": served,
         "kind_free_text": "Coq 8.16 development: executable Gallina model + theorems (props/Cxx.v), extracted to OCaml (driver/) and run against the Rust harness (harness/) built from /repo's working tree"}],
    "checks": checks,
    "notes": "bin/check <ID> --tier quick|thorough [--replay path]; VERIF_SEED honoured; see DESIGN.md",
    "not_applicable": [{"property_id": p, "reason": NA_REASONS.get(p, "no check built yet")} for p in ALL if p not in served],
}
json.dump(man, open(os.path.join(ROOT, "MANIFEST.json"), "w"), indent=1)
print("checks:", served)
