"""C06 — persisted event logs are faithful: storage, tree and order agree.
Op sequences over four co-resident logs (two folder logs in one account, one in another, and the first
account's ACCOUNT log: versioned file header on the file system, another table in the database), on the
file-system and on the SQLite backend, with deliberately byte-identical events within and
across logs.  After every op every log is observed (tree, forward and reverse record stream,
tree of a freshly re-opened instance)."""
import hashlib
from vcheck import core

ID = "C06"
SUB = "c06"
LEVEL = "proof"
IMPL_TIMEOUT = 3000
RULE = ("generated op sequences (apply_records / patch_unchecked / patch_checked with matching, stale and foreign "
        "proofs / rewind to any index, to absent and to duplicated commits / clear / replace_all with good and bad "
        "checkpoints / re-open) over 3 logs sharing an 8-symbol event alphabet; each sequence runs on both backends; "
        "non-trivial = at least 2 logs touched, at least one duplicate commit inside or across logs and at least one "
        "rewind, checked patch or replace-all; distinct by op list")
TRUSTED_BASE = ["model/EventLog.v is a hand transcription of FileSystemEventLog / DatabaseEventLog at the record level "
                "(plus the shared SQL table for the DB backend); tied to the code by comparing, after every operation "
                "and for every log, tree length/root, forward and reverse record streams and the tree of a re-opened "
                "instance with the extracted model on both backends"]
ASSUMPTIONS = ["SQLite executes each statement as written and transactions atomically",
               "the previous-commit field of a record is excluded from the cross-backend observable: the database does "
               "not store it (records come back with a zero previous hash)",
               "RFC 3339 rendering of timestamps round-trips (validated by this run: times carry sub-microsecond digits)"]
ALPHABET = [2, 4, 6, 8, 3, 5, 10, 12]


def corpus():
    return [
        # O5: rewinding log 0 on the DB deleted byte-identical rows of logs 1 and 2
        "c06 k_o5_db be=db ops=ar:0:2@1,4@2,6@3,8@4|ar:1:4@2|ar:2:4@5,6@6|rw:0:i0",
        "c06 k_o5_fs be=fs ops=ar:0:2@1,4@2,6@3,8@4|ar:1:4@2|ar:2:4@5,6@6|rw:0:i0",
        # duplicate inside one log: rewind to the LAST occurrence
        "c06 k_dup_db be=db ops=ar:0:2@1,4@2,2@3,6@4|rw:0:x2|ro",
        "c06 k_dup_fs be=fs ops=ar:0:2@1,4@2,2@3,6@4|rw:0:x2|ro",
        # O6: replace-all with a wrong checkpoint / empty patch
        "c06 k_o6_db be=db ops=ar:0:2@1,4@2|ra:0:cur:6@3|ra:0:cur:|ra:0:ok:6@3,8@4",
        "c06 k_o6_fs be=fs ops=ar:0:2@1,4@2|ra:0:cur:6@3|ra:0:cur:|ra:0:ok:6@3,8@4|ra:1:seq2:4@1",
    ]


def gen_recs(rng, tnext, n=None, alphabet=ALPHABET):
    n = n if n is not None else rng.choice([1, 1, 2, 3, 4])
    out = []
    for _ in range(n):
        k = rng.choice(alphabet)
        tnext[0] += rng.choice([0, 1, 1, 2, 7, 1000, 1001])
        out.append("%d@%d%s" % (k, tnext[0], "!" if rng.random() < 0.03 else ""))
    return ",".join(out)


def gen_ops(rng, nops, refusal_bias=False):
    ops, t = [], [rng.randrange(50)]
    lens = [0, 0, 0, 0]
    for _ in range(nops):
        l = rng.choice([0, 0, 0, 1, 1, 2, 3, 3])      # 3 = the account log (versioned file header / another table)
        kinds = ["ar", "ar", "ar", "pu", "pc", "pc", "rw", "rw", "cl", "ra", "ro"]
        if refusal_bias:
            kinds = ["ar", "ar", "pc", "pc", "pc", "rw", "ra", "ra", "ra", "ro", "pu"]
        kind = rng.choice(kinds)
        if kind in ("ar", "pu"):
            recs = gen_recs(rng, t)
            ops.append("%s:%d:%s" % (kind, l, recs)); lens[l] += recs.count("@")
        elif kind == "pc":
            proof = rng.choice(["head", "head", "prev", "other%d" % rng.choice([x for x in range(4) if x != l]),
                                "seq" + ";".join(str(rng.choice(ALPHABET)) for _ in range(rng.choice([1, 2, 3])))])
            ops.append("pc:%d:%s:%s" % (l, proof, gen_recs(rng, t, rng.choice([0, 1, 2]))))
        elif kind == "rw":
            if rng.random() < 0.6 and lens[l] > 0:
                ops.append("rw:%d:i%d" % (l, rng.randrange(lens[l] + 1)))
            else:
                ops.append("rw:%d:x%d" % (l, rng.choice(ALPHABET + [14])))
        elif kind == "cl":
            ops.append("cl:%d" % l); lens[l] = 0
        elif kind == "ra":
            ck = rng.choice(["ok", "ok", "cur", "seq" + str(rng.choice(ALPHABET)), "other%d" % ((l + 1) % 3)])
            ops.append("ra:%d:%s:%s" % (l, ck, gen_recs(rng, t, rng.choice([0, 1, 2, 3]))))
        else:
            ops.append("ro")
    return ops


def gen_cases(rng, tier, refusal_bias=False, sub="c06"):
    n = 150 if tier == "quick" else 4000
    out = []
    for j in range(n):
        ops = "|".join(gen_ops(rng, rng.randrange(6, 22), refusal_bias))
        for be in ("fs", "db"):
            out.append("%s g%d_%s be=%s ops=%s" % (sub, j, be, be, ops))
    return out


# ---------- direct oracle on the implementation's observations ----------
def parse_obs(obs):
    """-> {step: {'res': str, 'logs': {i: dict}}}"""
    steps = {}
    for o in obs:
        toks = o.split()
        st = int(toks[0]); d = steps.setdefault(st, {"res": None, "logs": {}})
        if toks[1].startswith("res="):
            d["res"] = o.split(" ", 1)[1][4:]
        elif toks[1].startswith("L"):
            kv = dict(t.split("=", 1) for t in toks[2:])
            kv["fwd"] = [x for x in kv.get("fwd", "").split(",") if x]
            kv["rev"] = [x for x in kv.get("rev", "").split(",") if x]
            d["logs"][int(toks[1][1:])] = kv
    return steps


def c8(k, forged=False):
    # commit prefix is not recomputed here; sequences are compared through the observed tokens
    return None


def oracle(case, obs, want_c07=False):
    toks = case.split()
    ops = [o for o in dict(t.split("=", 1) for t in toks[2:] if "=" in t).get("ops", "").split("|") if o]
    be = dict(t.split("=", 1) for t in toks[2:] if "=" in t).get("be")
    steps = parse_obs(obs)
    fails = []

    def fail(oracle_name, step, op, **kw):
        d = {"oracle": oracle_name, "backend": be, "op": op.split(":")[0], "step": step}
        d.update(kw); fails.append(d)

    prevseq = {0: None, 1: None, 2: None, 3: None}      # sequence the 'prev' proof was taken from
    for st in range(0, len(ops) + 1):
        cur = steps.get(st)
        if cur is None or len(cur["logs"]) != 4:
            fail("no_observation", st, ops[st - 1] if st else "init", detail="missing observation at step %d" % st)
            break
        op = ops[st - 1] if st else "init"
        for i, L in cur["logs"].items():
            if L["fwd"] == ["ERR"] or L["rev"] == ["ERR"]:
                fail("stream_readable", st, op, log=i, detail="record stream failed"); continue
            if not want_c07:
                if L["re"] != "%s/%s" % (L["root"], L["len"]):
                    fail("reload_tree", st, op, log=i, detail="memory tree %s/%s but re-opened tree %s" % (L["root"][:8], L["len"], L["re"][:12]))
                if int(L["len"]) != len(L["fwd"]):
                    fail("tree_len_vs_storage", st, op, log=i, detail="tree has %s leaves, storage %d records" % (L["len"], len(L["fwd"])))
                if L["rev"] != list(reversed(L["fwd"])):
                    fail("reverse_mirror", st, op, log=i, detail="reverse stream is not the mirror of forward")
                if L["hashok"] != "1" and "!" not in case:
                    fail("commit_is_hash", st, op, log=i, detail="a stored record's commit is not the SHA-256 of its bytes")
                if L["hashok"] != "1" and "!" in case:
                    fail("commit_is_hash", st, "any", log="any", forged_input=True, detail="a forged record (commit != SHA-256(bytes)) handed to the log was stored as is")
        if st == 0:
            continue
        prv = steps[st - 1]
        parts = op.split(":")
        target = int(parts[1]) if len(parts) > 1 and parts[0] != "ro" else None
        res = cur["res"] or ""
        # isolation: logs not addressed by the op are unchanged
        for i in range(4):
            if i != target and cur["logs"][i]["fwd"] != prv["logs"][i]["fwd"]:
                fail("isolation", st, op, log=i, detail="op on log %s changed log %d: %d -> %d records" % (target, i, len(prv["logs"][i]["fwd"]), len(cur["logs"][i]["fwd"])))
        if target is None:
            continue
        before, after = prv["logs"][target]["fwd"], cur["logs"][target]["fwd"]
        if parts[0] in ("ar", "pu"):
            n = len([x for x in (parts[2] if len(parts) > 2 else "").split(",") if x])
            if res == "ok" and (after[:len(before)] != before or len(after) != len(before) + n):
                fail("append_order", st, op, log=target, detail="append did not extend the log by exactly the given records")
            given = [x.rstrip("!").split("@")[1] for x in (parts[2] if len(parts) > 2 else "").split(",") if x]
            got = [x.split("@")[1] for x in after[len(before):]]
            if res == "ok" and got != given:
                fail("timestamps", st, op, log=target, detail="stored timestamps %s differ from the given %s" % (got, given))
            prevseq[target] = before
        elif parts[0] == "pc":
            src = parts[2]
            if res == "noproof":
                continue
            if src == "head": sender = before
            elif src == "prev": sender = prevseq[target]
            elif src.startswith("other"): sender = prv["logs"][int(src[5:])]["fwd"]
            else: sender = None
            refused = not res.startswith("success")
            if refused and after != before:
                fail("refused_unchanged", st, op, log=target, detail="checked patch refused (%s) but the log changed" % res)
            if sender is not None:
                same = [x.split(":")[0] for x in sender] == [x.split(":")[0] for x in before]
                if same and refused and before:
                    fail("patch_iff_head", st, op, log=target, detail="sender's head equals the log's head but the patch was refused: %s" % res)
                if not same and not refused:
                    fail("patch_iff_head", st, op, log=target, detail="patch applied although the sender's head differs from the log's head")
            if not refused: prevseq[target] = before
        elif parts[0] == "rw":
            if res.startswith("ok"):
                rewound = [x for x in res.partition("rewound=")[2].split(",") if x]
                if after + rewound != before:
                    fail("rewind_suffix", st, op, log=target, detail="kept ++ returned records != log before the rewind (order or content)")
            elif res != "notarget" and after != before:
                fail("refused_unchanged", st, op, log=target, detail="rewind failed (%s) but the log changed" % res)
            if res != "notarget": prevseq[target] = before
        elif parts[0] == "ra":
            if res.startswith("err") and after != before:
                fail("refused_unchanged", st, op, log=target, detail="replace-all refused (%s) but the log changed: %d -> %d records" % (res, len(before), len(after)))
            if res.startswith("err") and cur["logs"][target]["root"] != prv["logs"][target]["root"]:
                fail("refused_unchanged", st, op, log=target, detail="replace-all refused (%s) but the tree changed" % res)
            if res != "noproof": prevseq[target] = before
        elif parts[0] == "cl":
            if res == "ok" and after:
                fail("clear", st, op, log=target, detail="clear left records")
            prevseq[target] = before
    return fails


def nontrivial(case, obs):
    ops = dict(t.split("=", 1) for t in case.split()[2:] if "=" in t).get("ops", "").split("|")
    touched = set(o.split(":")[1] for o in ops if ":" in o)
    syms = [r.split("@")[0] for o in ops if o[:2] in ("ar", "pu", "pc", "ra") for r in o.split(":")[-1].split(",") if "@" in r]
    return len(touched) >= 2 and len(syms) != len(set(syms)) and any(o[:2] in ("rw", "pc", "ra") for o in ops)


def distinct_key(case):
    return case.split(" ", 2)[2]


def shrink(case):
    toks = case.split()
    d = dict(t.split("=", 1) for t in toks[2:] if "=" in t)
    ops = d["ops"].split("|")
    c = []
    for i in range(len(ops)):
        c.append("%s s be=%s ops=%s" % (toks[0], d["be"], "|".join(ops[:i] + ops[i + 1:])))
    return [x for x in c if not x.endswith("ops=")]


def distribution(cases, impl):
    kinds, res = {}, {}
    for c in cases:
        for o in dict(t.split("=", 1) for t in c.split()[2:] if "=" in t).get("ops", "").split("|"):
            kinds[o[:2]] = kinds.get(o[:2], 0) + 1
    for cid, obs in impl.items():
        for o in obs:
            if " res=" in " " + o:
                r = o.split("res=")[1].split()[0]
                res[r] = res.get(r, 0) + 1
    return {"op_kinds": kinds, "results": res}


MANIFEST = {
    "category": "proof",
    "text": ("Coq theorems over the record-level model of both event-log backends: every operation preserves "
             "'in-memory tree = commits of the stored records' (so a re-opened log has the same tree), appends keep "
             "order and timestamps, rewind keeps exactly the prefix up to the last occurrence of the target and returns "
             "the removed suffix in order, the SQL table operations of one log never change another log's rows "
             "(isolation), stored commits are hashes of their bytes when the inputs are; plus a byte-level framing "
             "theorem (reverse parse = mirror of forward parse). The model is tied to FileSystemEventLog and "
             "DatabaseEventLog by running the extracted model against both on generated op sequences"),
    "design_ref": "DESIGN.md §4 C06",
    "note": ("trusts: Coq kernel, extraction, harness; SQLite statement semantics; last_commit excluded from the "
             "cross-backend observable (the DB does not persist it)"),
    "technique": "Coq proof (invariant by induction over operations, refinement of the SQL table to per-log lists) + extracted-model correspondence on both backends",
}
