(* Folder replay model: folds the extracted [vstep] over the decrypted event trace of a
   persisted folder log (as observed on the implementation) and prints the folder it yields,
   in the format of the harness' "served" line.
   input line:  <sub> <case> <step> <who> <folder> <ev,ev,...> *)
open Model
open Glue

let parse_ev (s : string) : (string, string, string, string) wevent option =
  match String.split_on_char ':' s with
  | ["N"; n] -> Some (EvSetName n)
  | ["G"; f] -> Some (EvSetFlags (n_of_int (int_of_string f)))
  | ["M"; d] -> Some (EvSetMeta d)
  | ["C"; i; body] -> Some (EvCreate (i, body))
  | ["U"; i; body] -> Some (EvUpdate (i, body))
  | ["D"; i] -> Some (EvDelete i)
  | _ -> None

let run_line (line : string) : unit =
  match String.split_on_char ' ' line |> List.filter (fun s -> s <> "") with
  | [_; case; step; who; folder; evs] ->
    (match split_on ',' evs with
     | first :: rest ->
       (match String.split_on_char ':' first with
        | ["V"; name; flags; desc; "0"] ->
          let v0 = { v_name = name; v_flags = n_of_int (int_of_string flags);
                     v_meta = (if desc = "-" then None else Some desc); v_secrets = [] } in
          let evs = List.map parse_ev rest in
          if List.exists (fun e -> e = None) evs then Printf.printf "%s unmodelled\n" case
          else begin
            let v = List.fold_left (fun v e -> match e with Some e -> vstep String.equal v e | None -> v) v0 evs in
            let items = List.sort compare (List.map snd v.v_secrets) in
            Printf.printf "%s %s %s folder %s served name=%s flags=%d desc=%s items=%s\n" case step who folder
              v.v_name (int_of_n v.v_flags) (match v.v_meta with Some d -> d | None -> "-")
              (String.concat ";" items)
          end
        | _ -> Printf.printf "%s unmodelled\n" case)
     | [] -> Printf.printf "%s unmodelled\n" case)
  | _ :: case :: _ -> Printf.printf "%s unmodelled\n" case
  | _ -> ()
