(* File blobs: (a) replays the decoded file event log of a device with the extracted [freduce] and
   prints the set in the format of the harness' "reduced" and "blobs" lines;
   (b) runs the extracted upload machine [receive] with the real SHA-256 relation abstracted to
   "body kind = correct".
   input (a):  c17 <case> <step> <ev> <ev> ...     ev = C:f/s/n | D:f/s/n | M:f/s/n>f/s/n
   input (b):  c17 <case> up <k> <body kind>                                              *)
open Model
open Glue

let run_line (line : string) : unit =
  match String.split_on_char ' ' line |> List.filter (fun s -> s <> "") with
  | [_; case; "up"; k; kind] ->
    (* names and bodies abstracted: the blob's name is "n"; H maps the correct body to "n" *)
    let h b = if b = "correct" then "n" else "other:" ^ b in
    let s0 = { store = []; uploads = [] } in
    let s1 = receive String.equal h s0 "n" kind in
    let fin = if List.exists (fun (n, _) -> n = "n") s1.store then "ok" else "absent" in
    let left = String.concat "," (List.map (fun _ -> "upload") s1.uploads) in
    Printf.printf "%s up %s body=%s final=%s leftovers=%s\n" case k kind fin left
  | _ :: case :: "tail" :: step :: evs ->
    (* the replay of every proper tail of the log: events after position k, for every k *)
    let parse e =
      match String.split_on_char ':' e with
      | ["C"; f] -> Some (FCreate f)
      | ["D"; f] -> Some (FDelete f)
      | ["M"; ab] -> (match String.split_on_char '>' ab with [a; b] -> Some (FMove (a, b)) | _ -> None)
      | _ -> None in
    let pe = List.filter_map parse evs in
    let rec drop n l = if n = 0 then l else match l with [] -> [] | _ :: r -> drop (n - 1) r in
    List.iteri (fun k _ ->
      let set = freduce String.equal (drop (k + 1) pe) in
      Printf.printf "%s %s tail %d %s\n" case step k (String.concat " " (List.sort compare set))) pe
  | _ :: case :: step :: evs when step <> "up" ->
    let parse e =
      match String.split_on_char ':' e with
      | ["C"; f] -> Some (FCreate f)
      | ["D"; f] -> Some (FDelete f)
      | ["M"; ab] -> (match String.split_on_char '>' ab with [a; b] -> Some (FMove (a, b)) | _ -> None)
      | _ -> None in
    let pe = List.map parse evs in
    if List.exists (fun x -> x = None) pe then Printf.printf "%s unmodelled\n" case
    else begin
      let set = freduce String.equal (List.filter_map (fun x -> x) pe) in
      Printf.printf "%s %s reduced %s\n" case step (String.concat " " (List.sort compare set))
    end
  | _ :: case :: _ -> ()
  | _ -> ()
