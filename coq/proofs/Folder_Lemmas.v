From Coq Require Import List NArith Bool Lia Permutation.
From SosModel Require Import model.Folder.
Import ListNotations.

Section FolderLemmas.
Variables id val name meta : Type.
Variable id_eqb : id -> id -> bool.
Hypothesis id_eqb_spec : forall a b, id_eqb a b = true <-> a = b.

Notation imap := (imap id val).
Notation im_get := (im_get id val id_eqb).
Notation im_insert := (im_insert id val id_eqb).
Notation im_remove := (im_remove id val id_eqb).
Notation im_or_insert := (im_or_insert id val id_eqb).
Notation vault := (vault id val name meta).
Notation wevent := (wevent id val name meta).
Notation vstep := (vstep id val name meta id_eqb).
Notation reducer := (reducer id val name meta).
Notation rstep := (rstep id val name meta id_eqb).
Notation rfold := (rfold id val name meta id_eqb).
Notation reduce := (reduce id val name meta id_eqb).
Notation build := (build id val name meta id_eqb).
Notation compact := (compact id val name meta).
Notation same_folder := (same_folder id val name meta id_eqb).
Notation touches := (touches id val name meta).

Lemma id_eqb_refl i : id_eqb i i = true.
Proof. apply id_eqb_spec. reflexivity. Qed.
Lemma id_eqb_neq i j : i <> j -> id_eqb i j = false.
Proof. intro H. destruct (id_eqb i j) eqn:E; [|reflexivity]. apply id_eqb_spec in E. congruence. Qed.
Lemma id_dec (i j : id) : {i = j} + {i <> j}.
Proof. destruct (id_eqb i j) eqn:E; [left; apply id_eqb_spec; exact E|right; intro H; apply id_eqb_spec in H; congruence]. Qed.

(* ---- IndexMap laws ---- *)
Lemma get_insert_same i v m : im_get i (im_insert i v m) = Some v.
Proof.
  induction m as [|[j w] r IH]; cbn [Folder.im_insert Folder.im_get].
  - rewrite id_eqb_refl. reflexivity.
  - destruct (id_eqb j i) eqn:E; cbn [Folder.im_get]; rewrite E; [reflexivity|exact IH].
Qed.
Lemma get_insert_other i j v m : i <> j -> im_get j (im_insert i v m) = im_get j m.
Proof.
  intro Hne. induction m as [|[k w] r IH]; cbn [Folder.im_insert Folder.im_get].
  - rewrite (id_eqb_neq i j Hne). reflexivity.
  - destruct (id_eqb k i) eqn:E; cbn [Folder.im_get].
    + apply id_eqb_spec in E. subst k. rewrite (id_eqb_neq i j Hne). reflexivity.
    + rewrite IH. reflexivity.
Qed.
Lemma get_remove_same i m : im_get i (im_remove i m) = None.
Proof.
  unfold Folder.im_remove. induction m as [|[j w] r IH]; [reflexivity|]. cbn [filter fst].
  destruct (id_eqb j i) eqn:E; cbn [negb]; [exact IH|]. cbn [Folder.im_get]. rewrite E. exact IH.
Qed.
Lemma get_remove_other i j m : i <> j -> im_get j (im_remove i m) = im_get j m.
Proof.
  intro Hne. unfold Folder.im_remove. induction m as [|[k w] r IH]; [reflexivity|]. cbn [filter fst Folder.im_get].
  destruct (id_eqb k i) eqn:E; cbn [negb].
  - apply id_eqb_spec in E. subst k. rewrite (id_eqb_neq i j Hne). exact IH.
  - cbn [Folder.im_get]. rewrite IH. reflexivity.
Qed.
Lemma get_app_absent i (m m' : imap) : im_get i m = None -> im_get i (m ++ m') = im_get i m'.
Proof.
  induction m as [|[j w] r IH]; [reflexivity|]. cbn [Folder.im_get app].
  destruct (id_eqb j i); [discriminate|exact IH].
Qed.

Definition keys (m : imap) : list id := map fst m.

Lemma insert_absent_app i v m : im_get i m = None -> im_insert i v m = m ++ [(i, v)].
Proof.
  induction m as [|[j w] r IH]; [reflexivity|]. cbn [Folder.im_get Folder.im_insert app].
  destruct (id_eqb j i); [discriminate|]. intro H. rewrite IH by exact H. reflexivity.
Qed.

Lemma get_none_not_in i m : im_get i m = None <-> ~ In i (keys m).
Proof.
  induction m as [|[j w] r IH]; cbn [Folder.im_get keys map fst In]; [tauto|].
  destruct (id_eqb j i) eqn:E.
  - apply id_eqb_spec in E. subst j. split; [discriminate|]. intro H. exfalso. apply H. left. reflexivity.
  - rewrite IH. split; [|tauto]. intros H [Hj|Hin]; [|tauto]. subst j. rewrite id_eqb_refl in E. discriminate.
Qed.

Lemma keys_insert_present i v m x : im_get i m = Some x -> keys (im_insert i v m) = keys m.
Proof.
  induction m as [|[j w] r IH]; [discriminate|]. cbn [Folder.im_get Folder.im_insert].
  destruct (id_eqb j i) eqn:E; [reflexivity|]. intro H. cbn [keys map fst]. f_equal. apply IH. exact H.
Qed.

Lemma nodup_insert i v m : NoDup (keys m) -> NoDup (keys (im_insert i v m)).
Proof.
  intro Hnd. destruct (im_get i m) as [x|] eqn:E.
  - rewrite (keys_insert_present i v m x E). exact Hnd.
  - rewrite (insert_absent_app i v m E). unfold keys. rewrite map_app. cbn [map fst].
    assert (NoDup (i :: map fst m)) as H by (constructor; [apply get_none_not_in; exact E|exact Hnd]).
    apply (Permutation_NoDup (l := i :: map fst m)); [|exact H].
    apply Permutation_cons_append.
Qed.

Lemma nodup_remove i m : NoDup (keys m) -> NoDup (keys (im_remove i m)).
Proof.
  unfold Folder.im_remove, keys. induction m as [|[j w] r IH]; intro H; [constructor|].
  cbn [filter fst map] in *. inversion H as [|? ? Hn Hr]; subst.
  destruct (negb (id_eqb j i)); [|apply IH; exact Hr].
  cbn [map fst]. constructor; [|apply IH; exact Hr].
  intro Hin. apply Hn. apply in_map_iff in Hin. destruct Hin as ([k x] & Hk & Hf). cbn in Hk. subst k.
  apply filter_In in Hf. apply in_map_iff. exists (j, x). split; [reflexivity|tauto].
Qed.

Definition ins_all (s base : imap) : imap := fold_left (fun m p => im_insert (fst p) (snd p) m) s base.

Lemma ins_all_nodup_nil s : NoDup (keys s) -> forall pre, NoDup (keys (pre ++ s)) -> ins_all s pre = pre ++ s.
Proof.
  induction s as [|[i v] r IH]; intros Hnd pre Hpre; cbn [ins_all fold_left fst snd]; [rewrite app_nil_r; reflexivity|].
  assert (im_get i pre = None) as Hab.
  { apply get_none_not_in. unfold keys in Hpre. rewrite map_app in Hpre. cbn [map fst] in Hpre.
    apply NoDup_remove_2 in Hpre. intro Hin. apply Hpre. apply in_or_app. left. exact Hin. }
  rewrite (insert_absent_app i v pre Hab). fold (ins_all r (pre ++ [(i, v)])).
  inversion Hnd; subst. rewrite IH; [rewrite <- app_assoc; reflexivity|assumption|rewrite <- app_assoc; exact Hpre].
Qed.

Lemma ins_all_nil s : NoDup (keys s) -> ins_all s [] = s.
Proof. intro H. apply (ins_all_nodup_nil s H []). exact H. Qed.

(* ---- the reducer is a fold of vstep ---- *)
Definition no_create_vault (es : list wevent) : Prop :=
  Forall (fun e => touches e <> KNone id) es.

(* view of a reducer as the vault it would build on a header-only snapshot *)
Definition rview (r : reducer) : vault :=
  mkVault id val name meta (opt_or (r_name _ _ _ _ r) (v_name _ _ _ _ (r_vault _ _ _ _ r)))
          (opt_or (r_flags _ _ _ _ r) (v_flags _ _ _ _ (r_vault _ _ _ _ r)))
          (match r_meta _ _ _ _ r with Some m => Some m | None => v_meta _ _ _ _ (r_vault _ _ _ _ r) end)
          (r_secrets _ _ _ _ r).

Lemma rstep_view r e r' : rstep r e = Some r' -> rview r' = vstep (rview r) e /\ r_vault _ _ _ _ r' = r_vault _ _ _ _ r.
Proof.
  destruct e; cbn [Folder.rstep]; intro H; try discriminate; injection H as <-; split; reflexivity.
Qed.

Lemma rfold_view es : forall r r', rfold r es = Some r' ->
  rview r' = fold_left vstep es (rview r) /\ r_vault _ _ _ _ r' = r_vault _ _ _ _ r.
Proof.
  induction es as [|e es IH]; intros r r' H; cbn [Folder.rfold] in H.
  - injection H as <-. split; reflexivity.
  - destruct (rstep r e) as [r1|] eqn:E; [|discriminate].
    destruct (rstep_view r e r1 E) as [Hv Hs]. destruct (IH r1 r' H) as [Hv' Hs'].
    cbn [fold_left]. rewrite <- Hv. split; [exact Hv'|congruence].
Qed.

Lemma rstep_nodup r e r' : rstep r e = Some r' -> NoDup (keys (r_secrets _ _ _ _ r)) -> NoDup (keys (r_secrets _ _ _ _ r')).
Proof.
  destruct e; cbn [Folder.rstep]; intro H; try discriminate; injection H as <-; cbn [r_secrets]; intro Hn;
    try exact Hn; try (apply nodup_insert; exact Hn). apply nodup_remove. exact Hn.
Qed.
Lemma rfold_nodup es : forall r r', rfold r es = Some r' ->
  NoDup (keys (r_secrets _ _ _ _ r)) -> NoDup (keys (r_secrets _ _ _ _ r')).
Proof.
  induction es as [|e es IH]; intros r r' H Hn; cbn [Folder.rfold] in H.
  - injection H as <-. exact Hn.
  - destruct (rstep r e) as [r1|] eqn:E; [|discriminate]. apply (IH r1 r' H). apply (rstep_nodup r e r1 E Hn).
Qed.

(* replaying a log = folding vstep over its tail, starting from the (header-only) snapshot *)
Theorem reduce_is_fold v0 es r : v_secrets _ _ _ _ v0 = [] ->
  reduce (EvCreateVault _ _ _ _ v0 :: es) = Some r -> build r = fold_left vstep es v0.
Proof.
  intros H0 H. cbn [Folder.reduce] in H.
  destruct (rfold_view es _ r H) as [Hv Hs].
  pose proof (rfold_nodup es _ r H) as Hn. cbn [r_secrets keys map] in Hn. specialize (Hn (NoDup_nil _)).
  assert (rview (mkRed id val name meta v0 None None None []) = v0) as Hi.
  { destruct v0 as [n f m s]. cbn [v_secrets] in H0. subst s. reflexivity. }
  rewrite Hi in Hv. rewrite <- Hv.
  unfold Folder.build, rview. rewrite Hs. cbn [r_vault]. rewrite H0.
  fold (ins_all (r_secrets _ _ _ _ r) []). rewrite (ins_all_nil _ Hn). reflexivity.
Qed.

(* ---- local operations coincide with vstep of the event they append ---- *)
Theorem op_create_is_vstep v i x : im_get i (v_secrets _ _ _ _ v) = None ->
  op_create id val name meta id_eqb v i x = (vstep v (EvCreate _ _ _ _ i x), Some (EvCreate _ _ _ _ i x)).
Proof.
  intro Hab. unfold op_create, Folder.im_or_insert. rewrite Hab. cbn [Folder.vstep].
  rewrite (insert_absent_app i x _ Hab). rewrite (get_app_absent i _ _ Hab). cbn [Folder.im_get].
  rewrite id_eqb_refl. reflexivity.
Qed.
Theorem op_update_is_vstep v i x v' e : op_update id val name meta id_eqb v i x = (v', Some e) ->
  e = EvUpdate _ _ _ _ i x /\ v' = vstep v e.
Proof.
  unfold op_update. destruct (im_get i (v_secrets _ _ _ _ v)); intro H; [|discriminate].
  injection H as <- <-. split; reflexivity.
Qed.
Theorem op_update_absent v i x : im_get i (v_secrets _ _ _ _ v) = None ->
  op_update id val name meta id_eqb v i x = (v, None).
Proof. intro H. unfold op_update. rewrite H. reflexivity. Qed.
Theorem op_delete_is_vstep v i v' e : op_delete id val name meta id_eqb v i = (v', Some e) ->
  e = EvDelete _ _ _ _ i /\ v' = vstep v e.
Proof.
  unfold op_delete. destruct (im_get i (v_secrets _ _ _ _ v)); intro H; [|discriminate].
  injection H as <- <-. split; reflexivity.
Qed.

(* ---- last writer per key: what a replay depends on ---- *)
Definition writes_id (i : id) (e : wevent) : bool :=
  match e with EvCreate _ _ _ _ j _ | EvUpdate _ _ _ _ j _ | EvDelete _ _ _ _ j => id_eqb j i | _ => false end.

Lemma vstep_id_other v e i : writes_id i e = false ->
  im_get i (v_secrets _ _ _ _ (vstep v e)) = im_get i (v_secrets _ _ _ _ v).
Proof.
  destruct e as [w|n|f|m|j x|j x|j]; cbn [writes_id Folder.vstep v_secrets]; intro H; try reflexivity.
  - apply get_insert_other. intros ->. rewrite id_eqb_refl in H. discriminate.
  - apply get_insert_other. intros ->. rewrite id_eqb_refl in H. discriminate.
  - apply get_remove_other. intros ->. rewrite id_eqb_refl in H. discriminate.
Qed.
Lemma vstep_id_same v v' e i : writes_id i e = true ->
  im_get i (v_secrets _ _ _ _ (vstep v e)) = im_get i (v_secrets _ _ _ _ (vstep v' e)).
Proof.
  destruct e as [w|n|f|m|j x|j x|j]; cbn [writes_id Folder.vstep v_secrets]; intro H; try discriminate;
    apply id_eqb_spec in H; subst j; rewrite ?get_insert_same, ?get_remove_same; reflexivity.
Qed.

(* generic: a projection of the vault written only by the events selected by [w] *)
Section Projection.
Variable A : Type.
Variable proj : vault -> A.
Variable w : wevent -> bool.
Hypothesis other : forall v e, w e = false -> proj (vstep v e) = proj v.
Hypothesis same : forall v v' e, w e = true -> proj (vstep v e) = proj (vstep v' e).

Lemma proj_untouched es : forall v, existsb w es = false -> proj (fold_left vstep es v) = proj v.
Proof.
  induction es as [|e es IH]; intros v H; [reflexivity|]. cbn [existsb] in H.
  apply orb_false_iff in H. destruct H as [He Hes]. cbn [fold_left]. rewrite IH by exact Hes.
  apply other. exact He.
Qed.
Lemma proj_touched es : forall v v', existsb w es = true ->
  proj (fold_left vstep es v) = proj (fold_left vstep es v').
Proof.
  induction es as [|e es IH]; intros v v' H; [discriminate|]. cbn [existsb fold_left] in *.
  destruct (existsb w es) eqn:Hes.
  - apply IH. reflexivity.
  - rewrite orb_false_r in H. rewrite !proj_untouched by exact Hes. apply same. exact H.
Qed.
End Projection.

Definition writes_name (e : wevent) := match e with EvSetName _ _ _ _ _ => true | _ => false end.
Definition writes_flags (e : wevent) := match e with EvSetFlags _ _ _ _ _ => true | _ => false end.
Definition writes_meta (e : wevent) := match e with EvSetMeta _ _ _ _ _ => true | _ => false end.

Lemma fold_id_untouched es v i : existsb (writes_id i) es = false ->
  im_get i (v_secrets _ _ _ _ (fold_left vstep es v)) = im_get i (v_secrets _ _ _ _ v).
Proof.
  apply (proj_untouched _ (fun v => im_get i (v_secrets _ _ _ _ v)) (writes_id i)).
  intros v0 e He. apply vstep_id_other. exact He.
Qed.
Lemma fold_id_touched es v v' i : existsb (writes_id i) es = true ->
  im_get i (v_secrets _ _ _ _ (fold_left vstep es v)) = im_get i (v_secrets _ _ _ _ (fold_left vstep es v')).
Proof.
  apply (proj_touched _ (fun v => im_get i (v_secrets _ _ _ _ v)) (writes_id i)).
  - intros v0 e He. apply vstep_id_other. exact He.
  - intros v0 v1 e He. apply vstep_id_same. exact He.
Qed.
Lemma fold_name_untouched es v : existsb writes_name es = false ->
  v_name _ _ _ _ (fold_left vstep es v) = v_name _ _ _ _ v.
Proof. apply (proj_untouched _ (v_name _ _ _ _) writes_name). intros v0 e He. destruct e; try reflexivity; discriminate. Qed.
Lemma fold_name_touched es v v' : existsb writes_name es = true ->
  v_name _ _ _ _ (fold_left vstep es v) = v_name _ _ _ _ (fold_left vstep es v').
Proof.
  apply (proj_touched _ (v_name _ _ _ _) writes_name).
  - intros v0 e He. destruct e; try reflexivity; discriminate.
  - intros v0 v1 e He. destruct e; try discriminate; reflexivity.
Qed.
Lemma fold_flags_untouched es v : existsb writes_flags es = false ->
  v_flags _ _ _ _ (fold_left vstep es v) = v_flags _ _ _ _ v.
Proof. apply (proj_untouched _ (v_flags _ _ _ _) writes_flags). intros v0 e He. destruct e; try reflexivity; discriminate. Qed.
Lemma fold_flags_touched es v v' : existsb writes_flags es = true ->
  v_flags _ _ _ _ (fold_left vstep es v) = v_flags _ _ _ _ (fold_left vstep es v').
Proof.
  apply (proj_touched _ (v_flags _ _ _ _) writes_flags).
  - intros v0 e He. destruct e; try reflexivity; discriminate.
  - intros v0 v1 e He. destruct e; try discriminate; reflexivity.
Qed.
Lemma fold_meta_untouched es v : existsb writes_meta es = false ->
  v_meta _ _ _ _ (fold_left vstep es v) = v_meta _ _ _ _ v.
Proof. apply (proj_untouched _ (v_meta _ _ _ _) writes_meta). intros v0 e He. destruct e; try reflexivity; discriminate. Qed.
Lemma fold_meta_touched es v v' : existsb writes_meta es = true ->
  v_meta _ _ _ _ (fold_left vstep es v) = v_meta _ _ _ _ (fold_left vstep es v').
Proof.
  apply (proj_touched _ (v_meta _ _ _ _) writes_meta).
  - intros v0 e He. destruct e; try reflexivity; discriminate.
  - intros v0 v1 e He. destruct e; try discriminate; reflexivity.
Qed.

(* everything the local suffix wrote is written again by the merged events *)
Definition covered (l m : list wevent) : Prop :=
  (forall i, existsb (writes_id i) l = true -> existsb (writes_id i) m = true) /\
  (existsb writes_name l = true -> existsb writes_name m = true) /\
  (existsb writes_flags l = true -> existsb writes_flags m = true) /\
  (existsb writes_meta l = true -> existsb writes_meta m = true).

(* client rewind_local: the log becomes prefix ++ merged while the vault, which already holds
   the local suffix, replays merged on top — the served folder is the same *)
Theorem replay_over_local l m v : covered l m ->
  same_folder (fold_left vstep (l ++ m) v) (fold_left vstep m v).
Proof.
  intros (Hid & Hn & Hf & Hm). rewrite fold_left_app. unfold Folder.same_folder. repeat split.
  - destruct (existsb writes_name m) eqn:E; [apply fold_name_touched; exact E|].
    rewrite (fold_name_untouched m (fold_left vstep l v) E), (fold_name_untouched m v E). apply fold_name_untouched.
    destruct (existsb writes_name l) eqn:El; [discriminate (Hn eq_refl)|reflexivity].
  - destruct (existsb writes_flags m) eqn:E; [apply fold_flags_touched; exact E|].
    rewrite (fold_flags_untouched m (fold_left vstep l v) E), (fold_flags_untouched m v E). apply fold_flags_untouched.
    destruct (existsb writes_flags l) eqn:El; [discriminate (Hf eq_refl)|reflexivity].
  - destruct (existsb writes_meta m) eqn:E; [apply fold_meta_touched; exact E|].
    rewrite (fold_meta_untouched m (fold_left vstep l v) E), (fold_meta_untouched m v E). apply fold_meta_untouched.
    destruct (existsb writes_meta l) eqn:El; [discriminate (Hm eq_refl)|reflexivity].
  - intro i. destruct (existsb (writes_id i) m) eqn:E; [apply fold_id_touched; exact E|].
    rewrite (fold_id_untouched m (fold_left vstep l v) i E), (fold_id_untouched m v i E). apply fold_id_untouched.
    destruct (existsb (writes_id i) l) eqn:El; [rewrite Hid in E by exact El; discriminate|reflexivity].
Qed.

(* ---- compaction ---- *)
Lemma rfold_creates (s : imap) : forall r,
  rfold r (map (fun p => EvCreate _ _ _ _ (fst p) (snd p)) s) =
  Some (mkRed _ _ _ _ (r_vault _ _ _ _ r) (r_name _ _ _ _ r) (r_flags _ _ _ _ r) (r_meta _ _ _ _ r)
              (ins_all s (r_secrets _ _ _ _ r))).
Proof.
  induction s as [|[i x] s IH]; intro r; cbn [map Folder.rfold ins_all fold_left fst snd].
  - destruct r; reflexivity.
  - cbn [Folder.rstep]. rewrite IH. cbn [r_vault r_name r_flags r_meta r_secrets]. reflexivity.
Qed.

Theorem compact_preserves r : NoDup (keys (r_secrets _ _ _ _ r)) ->
  exists r', reduce (compact r) = Some r' /\ build r' = build r /\
             length (compact r) = 1 + length (r_secrets _ _ _ _ r).
Proof.
  intro Hn. unfold Folder.compact. cbn [Folder.reduce]. rewrite rfold_creates. cbn [r_vault r_name r_flags r_meta r_secrets].
  eexists. split; [reflexivity|]. split.
  - unfold Folder.build. cbn [r_vault r_name r_flags r_meta r_secrets v_name v_flags v_meta v_secrets opt_or].
    rewrite (ins_all_nil _ Hn). reflexivity.
  - cbn [length]. rewrite map_length. reflexivity.
Qed.

End FolderLemmas.
