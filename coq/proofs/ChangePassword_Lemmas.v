From Coq Require Import List NArith Bool Lia.
From SosModel Require Import model.ChangePassword.
Import ListNotations.

Section CPLemmas.
Variables key id plain : Type.
Variable key_eqb : key -> key -> bool.
Hypothesis key_eqb_spec : forall a b, key_eqb a b = true <-> a = b.
Notation ct := (ct key plain).
Notation dec := (dec key plain key_eqb).
Notation reenc := (reenc key plain key_eqb).
Notation reenc_entries := (reenc_entries key id plain key_eqb).
Notation change_password := (change_password key id plain key_eqb).
Notation sem := (sem key id plain key_eqb).
Notation sem_entries := (sem_entries key id plain key_eqb).

Lemma key_eqb_refl k : key_eqb k k = true. Proof. apply key_eqb_spec. reflexivity. Qed.

Lemma reenc_spec old new n c c' : reenc old new n c = Some c' ->
  c_key _ _ c' = new /\ dec old c = Some (c_plain _ _ c') /\ c_nonce _ _ c' = n.
Proof.
  unfold ChangePassword.reenc. destruct (dec old c) as [p|] eqn:E; [|discriminate].
  intro H. injection H as <-. cbn. repeat split.
Qed.

Lemma reenc_entries_keys old new : forall es n es', reenc_entries old new n es = Some es' ->
  Forall (fun e => c_key _ _ (fst (snd e)) = new /\ c_key _ _ (snd (snd e)) = new) es'.
Proof.
  induction es as [|[i [m s]] r IH]; intros n es' H; cbn [ChangePassword.reenc_entries] in H.
  - injection H as <-. constructor.
  - destruct (reenc old new n m) as [m'|] eqn:Em; [|discriminate].
    destruct (reenc old new (n + 1) s) as [s'|] eqn:Es; [|discriminate].
    destruct (reenc_entries old new (n + 2) r) as [r'|] eqn:Er; [|discriminate].
    injection H as <-. constructor; [|apply (IH _ _ Er)].
    cbn. split; [apply (reenc_spec _ _ _ _ _ Em)|apply (reenc_spec _ _ _ _ _ Es)].
Qed.

Lemma reenc_entries_sem old new : forall es n es', reenc_entries old new n es = Some es' ->
  sem_entries new es' = sem_entries old es /\ sem_entries old es <> None.
Proof.
  induction es as [|[i [m s]] r IH]; intros n es' H; cbn [ChangePassword.reenc_entries] in H.
  - injection H as <-. split; [reflexivity|discriminate].
  - destruct (reenc old new n m) as [m'|] eqn:Em; [|discriminate].
    destruct (reenc old new (n + 1) s) as [s'|] eqn:Es; [|discriminate].
    destruct (reenc_entries old new (n + 2) r) as [r'|] eqn:Er; [|discriminate].
    injection H as <-. destruct (IH _ _ Er) as [IH1 IH2].
    destruct (reenc_spec _ _ _ _ _ Em) as (Km & Dm & _). destruct (reenc_spec _ _ _ _ _ Es) as (Ks & Ds & _).
    cbn [ChangePassword.sem_entries]. rewrite Dm, Ds, IH1.
    assert (dec new m' = Some (c_plain _ _ m')) as -> by (unfold ChangePassword.dec; rewrite Km, key_eqb_refl; reflexivity).
    assert (dec new s' = Some (c_plain _ _ s')) as -> by (unfold ChangePassword.dec; rewrite Ks, key_eqb_refl; reflexivity).
    split; [reflexivity|]. destruct (sem_entries old r); [discriminate|congruence].
Qed.

(* the decrypted folder is the same under the new key *)
Theorem change_preserves old new n v v' evs : change_password old new n v = Some (v', evs) ->
  sem new v' = sem old v /\ sem old v <> None.
Proof.
  unfold ChangePassword.change_password.
  destruct (reenc old new n (ev_meta _ _ _ v)) as [m'|] eqn:Em; [|discriminate].
  destruct (reenc_entries old new (n + 1) (ev_entries _ _ _ v)) as [es'|] eqn:Ee; [|discriminate].
  intro H. injection H as <- <-. destruct (reenc_spec _ _ _ _ _ Em) as (Km & Dm & _).
  destruct (reenc_entries_sem _ _ _ _ _ Ee) as [S1 S2].
  unfold ChangePassword.sem. cbn [ev_meta ev_entries]. rewrite Dm, S1.
  assert (dec new m' = Some (c_plain _ _ m')) as -> by (unfold ChangePassword.dec; rewrite Km, key_eqb_refl; reflexivity).
  split; [reflexivity|]. destruct (sem_entries old (ev_entries _ _ _ v)); [discriminate|congruence].
Qed.

(* no blob under the old key remains: every ciphertext of the new vault and of the new log is
   under the new key, hence (new <> old) none of them opens with the old key *)
Theorem no_old_ciphertext old new n v v' evs : change_password old new n v = Some (v', evs) ->
  Forall (fun c => c_key _ _ c = new) (vault_cts _ _ _ v') /\
  Forall (fun c => c_key _ _ c = new) (event_cts _ _ _ evs).
Proof.
  unfold ChangePassword.change_password.
  destruct (reenc old new n (ev_meta _ _ _ v)) as [m'|] eqn:Em; [|discriminate].
  destruct (reenc_entries old new (n + 1) (ev_entries _ _ _ v)) as [es'|] eqn:Ee; [|discriminate].
  intro H. injection H as <- <-. destruct (reenc_spec _ _ _ _ _ Em) as (Km & _ & _).
  pose proof (reenc_entries_keys _ _ _ _ _ Ee) as Hk. clear Ee.
  split.
  - unfold ChangePassword.vault_cts. cbn [ev_meta ev_entries]. constructor; [exact Km|].
    induction Hk as [|e l [H1 H2] _ IH]; [constructor|]. cbn [flat_map app]. constructor; [exact H1|constructor; [exact H2|exact IH]].
  - unfold ChangePassword.event_cts. cbn [flat_map app map]. constructor; [exact Km|].
    induction Hk as [|e l [H1 H2] _ IH]; [constructor|]. cbn [map flat_map app]. constructor; [exact H1|constructor; [exact H2|exact IH]].
Qed.

Theorem old_key_rejected old new c : new <> old -> c_key _ _ c = new -> dec old c = None.
Proof.
  intros Hne Hk. unfold ChangePassword.dec. rewrite Hk.
  destruct (key_eqb new old) eqn:E; [apply key_eqb_spec in E; congruence|reflexivity].
Qed.

(* exactly one creation event plus one event per entry *)
Theorem change_log_length old new n v v' evs : change_password old new n v = Some (v', evs) ->
  length evs = 1 + length (ev_entries _ _ _ v) /\ length (ev_entries _ _ _ v') = length (ev_entries _ _ _ v).
Proof.
  unfold ChangePassword.change_password.
  destruct (reenc old new n (ev_meta _ _ _ v)) as [m'|] eqn:Em; [|discriminate].
  destruct (reenc_entries old new (n + 1) (ev_entries _ _ _ v)) as [es'|] eqn:Ee; [|discriminate].
  intro H. injection H as <- <-. cbn [length ev_entries]. rewrite map_length.
  assert (length es' = length (ev_entries _ _ _ v)) as Hl.
  { clear Em. revert Ee. generalize (n + 1)%N. generalize es'. induction (ev_entries _ _ _ v) as [|[i [m s]] r IH]; intros es0 n0 H;
      cbn [ChangePassword.reenc_entries] in H.
    - injection H as <-. reflexivity.
    - destruct (reenc old new n0 m); [|discriminate]. destruct (reenc old new (n0 + 1) s); [|discriminate].
      destruct (reenc_entries old new (n0 + 2) r) as [r'|] eqn:Er; [|discriminate]. injection H as <-.
      cbn [length]. f_equal. apply (IH _ _ Er). }
  lia.
Qed.
End CPLemmas.

Section IdentityKeysLemmas.
Variables urn kval : Type.
Variable urn_eqb : urn -> urn -> bool.
Hypothesis urn_eqb_spec : forall a b, urn_eqb a b = true <-> a = b.
Notation id_lookup := (id_lookup urn kval urn_eqb).
Notation id_save := (id_save urn kval).

Lemma id_lookup_snoc l u k u' :
  id_lookup (l ++ [(u, k)]) u' = if urn_eqb u u' then Some k else id_lookup l u'.
Proof. unfold ChangePassword.id_lookup. rewrite fold_left_app. cbn [fold_left fst snd]. reflexivity. Qed.

(* the key saved last for a folder is the one found; other folders' keys are untouched *)
Theorem id_save_found l u k : id_lookup (id_save l u k) u = Some k.
Proof. unfold ChangePassword.id_save. rewrite id_lookup_snoc. assert (urn_eqb u u = true) as -> by (apply urn_eqb_spec; reflexivity). reflexivity. Qed.
Theorem id_save_other l u k u' : u <> u' -> id_lookup (id_save l u k) u' = id_lookup l u'.
Proof.
  intro H. unfold ChangePassword.id_save. rewrite id_lookup_snoc.
  destruct (urn_eqb u u') eqn:E; [apply urn_eqb_spec in E; contradiction|reflexivity].
Qed.
End IdentityKeysLemmas.

(* keeping the first entry per URN instead of the sequence changes the lookup: the stale key wins *)
Lemma dedupe_first_changes_lookup :
  id_lookup nat nat Nat.eqb (id_save nat nat [(1, 10)] 1 11) 1 = Some 11 /\
  id_lookup nat nat Nat.eqb (dedupe_first nat nat Nat.eqb [] (id_save nat nat [(1, 10)] 1 11)) 1 = Some 10.
Proof. split; reflexivity. Qed.

