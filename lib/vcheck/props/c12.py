"""C12 — compaction and key changes keep the data and really change the key.
Real accounts: histories with flag / rename / description / delete events followed by folder
compaction and folder password changes in any order and repetition, reloads and syncs; after a
key change every AeadPack found in the folder's stored vault and event log is tried with the
old key."""
from vcheck import acct
from vcheck.props import c02

ID = "C12"
SUB = "c12"
LEVEL = "proof"
RESILIENT = True
IMPL_TIMEOUT = 3000
RULE = ("histories: edits incl. flags, rename, description and deletes, then compact (z) / change folder password (w) "
        "in any order, with reloads; non-trivial = a flags or description change and a delete precede the compaction or "
        "key change; distinct by history")
TRUSTED_BASE = c02.TRUSTED_BASE + ["model/ChangePassword.v: symbolic AEAD (decryption succeeds only under the same key)"]
ASSUMPTIONS = ["the strength of AES-GCM / XChaCha20 and of the KDF is not a theorem (idealised law)",
               "account password (W) and account cipher (Z) changes are exercised on the implementation (data preserved, old password refused, "
               "sign-in with the new one unlocks every folder); the Coq model covers the folder-level rewrite"]


def corpus():
    return [
        "c12 k_flags cbe=fs sbe=fs devs=1 hist=c0:a|c0:b|x0:a|g0:0:4|p0:0|z0:0|o0",
        "c12 k_flags_db cbe=db sbe=fs devs=1 hist=c0:a|c0:b|x0:a|g0:0:4|p0:0|z0:0|o0",
        "c12 k_pw cbe=fs sbe=fs devs=1 hist=c0:a|c0:b|u0:a|x0:b|p0:0|w0:0|o0|c0:c|w0:0|z0:0|o0",
        "c12 k_pw_db cbe=db sbe=fs devs=1 hist=c0:a|c0:b|u0:a|x0:b|p0:0|w0:0|o0|c0:c|w0:0|z0:0|o0",
        "c12 k_acctpw cbe=fs sbe=fs devs=1 hist=c0:a|c0:b|w0:0|W0|o0|c0:c|z0:0|W0|o0",
        "c12 k_acctpw_db cbe=db sbe=fs devs=1 hist=c0:a|f0:1|c0:b@1|w0:1|W0|o0|u0:b|o0",
        "c12 k_cipher cbe=fs sbe=fs devs=1 hist=c0:a|c0:b|p0:0|Z0|o0|u0:a|Z0|o0|w0:0|o0",
        # compactions with nothing to prune (twice in a row, right after a key change, on a fresh folder), then a key change:
        # nothing the old key opens may be left anywhere in the folder's storage, sibling files included
        "c12 k_noop_compact cbe=fs sbe=fs devs=1 hist=c0:a|c0:b|z0:0|z0:0|w0:0|o0|z0:0|w0:0",
        "c12 k_noop_compact_new cbe=fs sbe=fs devs=1 hist=f0:1|z0:1|c0:a@1|w0:1|z0:1|z0:1|w0:1|o0",
    ]


def gen_cases(rng, tier):
    n = 30 if tier == "quick" else 1000
    out = []
    for j in range(n):
        ops, slots = [], ["a", "b", "c", "d"]
        for _ in range(rng.randrange(6, 20)):
            r = rng.random()
            if r < 0.25: ops.append("c0:%s" % rng.choice(slots))
            elif r < 0.38: ops.append("u0:%s" % rng.choice(slots))
            elif r < 0.50: ops.append("x0:%s" % rng.choice(slots))
            elif r < 0.58: ops.append("g0:0:%d" % rng.choice([1, 4, 5, 128]))
            elif r < 0.66: ops.append("p0:0")
            elif r < 0.72: ops.append("r0:0:%d" % rng.randrange(3))
            elif r < 0.82: ops.append("z0:0")
            elif r < 0.90: ops.append("w0:0")
            elif r < 0.94: ops.append("W0")
            elif r < 0.96: ops.append("Z0")
            else: ops.append("o0")
        ops += [rng.choice(["z0:0", "w0:0"]), "o0"]
        out.append("c12 g%d cbe=%s sbe=fs devs=1 hist=%s" % (j, "db" if j % 2 else "fs", "|".join(ops)))
    return out


def key_history(obs):
    """per step: (who, folder order, history of saved (folder, fingerprint) pairs as the harness knows them)"""
    lines = {}
    kc = {}
    ops = {}
    for o in obs:
        t = o.split()
        if len(t) >= 4 and t[0].startswith("!") and t[2] == "idkeys":
            lines[(int(t[0][1:]), t[1])] = [x.split("=", 1) for x in t[3].split(";") if "=" in x]
        elif len(t) >= 3 and t[0].startswith("!") and t[1] == "keycheck":
            kc[int(t[0][1:])] = dict(x.split("=", 1) for x in t[2:] if "=" in x)
        elif len(t) >= 2 and t[0].isdigit() and t[1].startswith("op="):
            ops[int(t[0])] = t[1][3:]
    out = {}
    hist = {}
    for (st, who) in sorted(lines):
        h = hist.setdefault(who, [])
        op = ops.get(st, "")
        k = kc.get(st, {})
        if op[:1] == "w" and who == "D" + op[1:2] and k.get("changed") == "1" and k.get("folder"):
            h.append((k["folder"], k["newfp"]))
        known = set(f for f, _ in h)
        for f, fp in lines[(st, who)]:
            if f not in known and fp != "-":
                h.append((f, fp))            # first sight of a folder: the password saved when it was created
        out[(st, who)] = ([f for f, _ in lines[(st, who)]], list(h))
    return out


def model_input(cases, impl):
    out = c02.model_input(cases, impl)
    for c in cases:
        cid = c.split()[1]
        for (st, who), (order, h) in sorted(key_history(impl.get(cid, [])).items()):
            if who != "D0": continue
            out.append("c12 %s idkeys %d %s order=%s hist=%s" % (cid, st, who, ";".join(order), ",".join("%s:%s" % x for x in h)))
    return out


def impl_projection(obs):
    out = c02.impl_projection(obs)
    for o in obs:
        t = o.split()
        if len(t) >= 4 and t[0].startswith("!") and t[2] == "idkeys" and t[1] == "D0":
            out.append("%s %s idkeys %s" % (t[0][1:], t[1], t[3]))
    return out


def canon(lines):
    return sorted(lines)


def oracle(case, obs):
    steps, _ = acct.parse(obs)
    fails = list(c02.oracle(case, obs))
    keychecks = {}
    for o in obs:
        t = o.split()
        if len(t) >= 3 and t[0].startswith("!") and t[1] == "keycheck":
            keychecks[int(t[0][1:])] = dict(x.split("=", 1) for x in t[2:] if "=" in x)
    prev = None
    for st in sorted(steps):
        S = steps[st]
        W = S["who"].get("D0")
        if W is None: continue
        cur = {f: acct.folder_fields(v.get("served", "")) for f, v in W["folders"].items()}
        op, res = S["op"] or "", S["res"] or ""
        if op[:1] in ("z", "w") and res == "ok" and prev is not None:
            f = "f" + op.split(":")[1]
            if cur.get(f) != prev.get(f):
                fails.append({"oracle": "rewrite_preserves", "op": op[:1], "detail": "step %d %s: folder %s before %s after %s" % (st, op, f, prev.get(f), cur.get(f))})
            ln = W["logs"].get("folder:" + f, (0,))[0]
            live = len(cur.get(f, {"items": []})["items"])
            if ln != 1 + live:
                fails.append({"oracle": "rewrite_log_length", "op": op[:1], "detail": "step %d %s: log has %d events, expected 1 + %d live secrets" % (st, op, ln, live)})
        if op[:1] in ("W", "Z") and prev is not None:
            if res != "ok":
                fails.append({"oracle": "account_rekey_failed", "op": op[:1], "detail": "step %d %s: %s" % (st, op, res)})
            elif cur != prev:
                fails.append({"oracle": "rewrite_preserves", "op": op[:1], "detail": "step %d %s: folders before %s after %s" % (st, op, prev, cur)})
        if op[:1] == "W" and res == "ok":
            k = keychecks.get(st) or {}
            if k.get("old_signin") != "err":
                fails.append({"oracle": "old_key_rejected", "op": "W", "detail": "step %d: the old account password still signs in: %s" % (st, k)})
            if k.get("new_signin") != "ok":
                fails.append({"oracle": "new_key_unlocks", "op": "W", "detail": "step %d: sign-in with the new account password fails (every folder must unlock): %s" % (st, k)})
        if op[:1] == "o" and res != "ok":
            fails.append({"oracle": "reload_after_rekey", "detail": "step %d: signing in again failed: %s" % (st, res)})
        if op[:1] == "w" and res == "ok":
            k = keychecks.get(st)
            if k is None:
                fails.append({"oracle": "keycheck_missing", "detail": "step %d: no key check observed" % st})
            else:
                if k.get("old_before") != "ok":
                    fails.append({"oracle": "keycheck_setup", "detail": "step %d: old key did not open the old vault: %s" % (st, k)})
                if k.get("old_unlock") != "err":
                    fails.append({"oracle": "old_key_rejected", "detail": "step %d: the old password still unlocks the folder: %s" % (st, k)})
                if k.get("new_unlock") != "ok":
                    fails.append({"oracle": "new_key_unlocks", "detail": "step %d: the new password does not unlock the folder: %s" % (st, k)})
                if int(k.get("sibling_old_opens", "0")) != 0:
                    fails.append({"oracle": "no_old_ciphertext", "where": "sibling_file",
                                  "detail": "step %d: %s blob(s) in %s other file(s) of the folder's storage still open with the old key" % (st, k.get("sibling_old_opens"), k.get("siblings"))})
                if int(k.get("old_opens", "0")) != 0:
                    fails.append({"oracle": "no_old_ciphertext", "detail": "step %d: %s of %s blobs in the folder's vault/log still open with the old key" % (st, k.get("old_opens"), k.get("blobs"))})
        prev = cur
    return fails


def nontrivial(case, obs):
    hist, _ = acct.hist_of(case)
    seen_meta = seen_del = False
    for h in hist:
        if h[0] in "gp": seen_meta = True
        if h[0] == "x": seen_del = True
        if h[0] in "zw" and seen_meta and seen_del: return True
    return False


distinct_key = c02.distinct_key
distribution = c02.distribution


def shrink(case):
    hist, kv = acct.hist_of(case)
    head = "c12 s cbe=%s sbe=fs devs=1 hist=" % kv.get("cbe", "fs")
    return [head + "|".join(hist[:i] + hist[i + 1:]) for i in range(len(hist)) if len(hist) > 1]


MANIFEST = {
    "category": "proof",
    "text": ("Coq theorems: compaction yields a log of one creation event plus one event per live secret that replays to "
             "the same name, flags, description and secrets; a key change re-encrypts every blob under the new key (no "
             "ciphertext of the new vault or log is under the old key, so the old key opens none of them) and preserves the "
             "decrypted folder — relative to the idealised AEAD law. Tied to the code on real accounts: before/after "
             "snapshots, log length, old password rejected, new accepted, and every AeadPack in the stored vault and event "
             "log tried with the old key"),
    "design_ref": "DESIGN.md §4 C12",
    "note": "symbolic crypto; account password / cipher change not yet exercised (listed in assumptions)",
    "technique": "Coq proof (reducer compaction lemma; symbolic re-encryption) + real-account run with old-key sweep of storage",
}
