open Model
open Glue

let redecode p e (b : n list) : string =
  match decode_top p b with
  | Some v -> "ok " ^ hex_of_string (string_of_bytes (e v))
  | None -> "err"

let run_line (line : string) : unit =
  let toks = String.split_on_char ' ' line |> List.filter (fun s -> s <> "") in
  match toks with
  | _ :: id :: rest ->
    let ty = match kv rest "T" with Some t -> t | None -> "" in
    let b = bytes_of_string (string_of_hex (match kv rest "B" with Some h -> h | None -> "")) in
    let res = match ty with
      | "time" -> Some (redecode p_time e_time b)
      | "aead" -> Some (redecode p_aead e_aead b)
      | "vcommit" -> Some (redecode p_vcommit e_vcommit b)
      | "write" -> Some (redecode p_write_event e_write_event b)
      | "account" -> Some (redecode p_account_event e_account_event b)
      | "file" -> Some (redecode p_file_event e_file_event b)
      | "record" -> Some (redecode p_record e_record b)
      | "cproof" -> Some (redecode p_cproof e_cproof b)
      | "cstate" -> Some (redecode p_cstate e_cstate b)
      | "comparison" -> Some (redecode p_comparison e_comparison b)
      (* B = a counted list of strings in any order; the tag field the model writes for that set *)
      (* B = the bytes of a folder event log file: the row iterator in both directions (Crash.v: open_kind = identity
         check + forward scan; open_kind_rev = the backward scan, run only when the identity check passes) *)
      | "evfile" ->
        let c8 l = String.concat "," (List.map (fun c -> String.sub (hex_of_string (string_of_bytes c)) 0 8) l) in
        let firstn n l = List.filteri (fun i _ -> i < n) l in
        let ident_ok = open_kind KFolder (firstn 4 b) <> None in
        let fwd = if not ident_ok then "err" else match open_kind KFolder b with Some l -> c8 l | None -> "err" in
        let rev = if not ident_ok then "err" else match open_kind_rev KFolder b with Some l -> c8 l | None -> "err" in
        Some (Printf.sprintf "ok fwd=%s rev=%s" fwd rev)
      | "tagset" -> Some (match tagset_reencode b with Some v -> "ok " ^ hex_of_string (string_of_bytes v) | None -> "err")
      | _ -> None (* explored, not modelled *) in
    (match res with Some r -> Printf.printf "%s %s\n" id r | None -> Printf.printf "%s unmodelled\n" id)
  | _ -> ()
