(* C16 — integrity reports flag every corruption and nothing else.
   Model: model/Integrity.v.  Soundness on sealed stores (every checksum is the hash of its
   content — what C06_commit_is_hash and the vault writer establish); completeness per content
   / checksum change, modulo an explicit hash collision; removal reported as Missing. *)
From Coq Require Import List.
From SosModel Require Import model.Integrity proofs.Integrity_Lemmas.
Import ListNotations.
Section C16.
Variables hash content : Type.
Variable hash_eqb : hash -> hash -> bool.
Hypothesis hash_eqb_spec : forall a b, hash_eqb a b = true <-> a = b.
Variable H : content -> hash.
Notation failures := (failures hash content hash_eqb H).
Notation Sealed := (Sealed hash content H).

Theorem C16_sound v l : Sealed v -> Sealed l ->
  check_folder hash content hash_eqb H (Some v) (Some l) = Mismatches _ _ [].
Proof. exact (report_sound hash content hash_eqb hash_eqb_spec H v l). Qed.

Theorem C16_complete_content n r c' rows : n < length rows -> nth_error rows n = Some r ->
  row_sum _ _ r = H (row_content _ _ r) -> c' <> row_content _ _ r ->
  failures (set_nth _ _ n (mkRow _ _ (row_sum _ _ r) c') rows) <> [] \/ ContentCollision hash content H.
Proof. exact (content_change_detected hash content hash_eqb hash_eqb_spec H n r c' rows). Qed.

Theorem C16_complete_checksum n r s' rows : n < length rows -> nth_error rows n = Some r ->
  row_sum _ _ r = H (row_content _ _ r) -> s' <> row_sum _ _ r ->
  failures (set_nth _ _ n (mkRow _ _ s' (row_content _ _ r)) rows) <> [].
Proof. exact (checksum_change_detected hash content hash_eqb hash_eqb_spec H n r s' rows). Qed.

Theorem C16_removal v l :
  check_folder hash content hash_eqb H None l = Missing _ _ /\
  check_folder hash content hash_eqb H v None = Missing _ _.
Proof. exact (removal_detected hash content hash_eqb H v l). Qed.
End C16.

Example C16_nonvacuous :
  failures nat nat Nat.eqb (fun c => c * 2) [mkRow _ _ 4 2; mkRow _ _ 7 3] = [mkRow _ _ 7 3].
Proof. reflexivity. Qed.

Print Assumptions C16_sound.
Print Assumptions C16_complete_content.
Print Assumptions C16_complete_checksum.
Print Assumptions C16_removal.
