(* Search index bookkeeping (search/src/search.rs): the document table and the per-folder /
   per-kind / favourite counters, as driven by secret_storage.rs and folder_sync.rs.  The
   probly-search inverted index itself is not modelled.  Definitions only. *)
From Coq Require Import List NArith Bool.
Import ListNotations.

Section Search.
Variables folder id : Type.
Variable folder_eqb : folder -> folder -> bool.
Variable id_eqb : id -> id -> bool.

Record doc := mkDoc { d_folder : folder; d_id : id; d_label : N; d_kind : N; d_fav : bool; d_tags : list N }.
Definition same_key (f : folder) (i : id) (d : doc) : bool :=
  folder_eqb (d_folder d) f && id_eqb (d_id d) i.

(* counters: association lists keyed by folder / kind; absent = 0 *)
Fixpoint bump {K} (eqb : K -> K -> bool) (k : K) (m : list (K * nat)) : list (K * nat) :=
  match m with
  | [] => [(k, 1)]
  | (j, n) :: r => if eqb j k then (j, S n) :: r else (j, n) :: bump eqb k r
  end.
Fixpoint drop {K} (eqb : K -> K -> bool) (k : K) (m : list (K * nat)) : list (K * nat) :=
  match m with
  | [] => [(k, 0)]
  | (j, n) :: r => if eqb j k then (j, Nat.pred n) :: r else (j, n) :: drop eqb k r
  end.
Fixpoint look {K} (eqb : K -> K -> bool) (k : K) (m : list (K * nat)) : nat :=
  match m with [] => 0 | (j, n) :: r => if eqb j k then n else look eqb k r end.

(* [ix_archive]: the archive folder, whose documents are left out of the per-kind counters
   (DocumentCount::is_archived); fixed for the life of the index *)
Record index := mkIndex {
  docs : list doc; c_vaults : list (folder * nat); c_kinds : list (N * nat); c_favs : nat;
  c_tags : list (N * nat); ix_archive : option folder }.
Definition new_index (a : option folder) : index := mkIndex [] [] [] 0 [] a.
Definition empty_index : index := new_index None.
Definition is_arch (x : index) (f : folder) : bool :=
  match ix_archive x with Some a => folder_eqb f a | None => false end.
Definition bump_all (ts : list N) (m : list (N * nat)) : list (N * nat) := fold_right (bump N.eqb) m ts.
Definition drop_all (ts : list N) (m : list (N * nat)) : list (N * nat) := fold_right (drop N.eqb) m ts.

Definition has_doc (f : folder) (i : id) (x : index) : bool := existsb (same_key f i) (docs x).

(* prepare + commit: no document is created when one exists for (folder, id) *)
Definition ix_add (x : index) (d : doc) : index :=
  if has_doc (d_folder d) (d_id d) x then x
  else mkIndex (docs x ++ [d]) (bump folder_eqb (d_folder d) (c_vaults x))
               (if is_arch x (d_folder d) then c_kinds x else bump N.eqb (d_kind d) (c_kinds x))
               (if d_fav d then S (c_favs x) else c_favs x)
               (bump_all (d_tags d) (c_tags x)) (ix_archive x).

(* remove: counters only change when a document was removed (fix 'search index counters') *)
Definition ix_remove (x : index) (f : folder) (i : id) : index :=
  match find (same_key f i) (docs x) with
  | None => x
  | Some d =>
      mkIndex (filter (fun e => negb (same_key f i e)) (docs x)) (drop folder_eqb f (c_vaults x))
              (if is_arch x f then c_kinds x else drop N.eqb (d_kind d) (c_kinds x))
              (if d_fav d then Nat.pred (c_favs x) else c_favs x)
              (drop_all (d_tags d) (c_tags x)) (ix_archive x)
  end.

Definition ix_update (x : index) (d : doc) : index := ix_add (ix_remove x (d_folder d) (d_id d)) d.

(* SearchIndex::remove_vault: remove every document keyed under the folder, one [remove] each *)
Definition in_folder (f : folder) (d : doc) : bool := folder_eqb (d_folder d) f.
Definition ix_remove_vault (x : index) (f : folder) : index :=
  fold_left (fun y d => ix_remove y f (d_id d)) (filter (in_folder f) (docs x)) x.
(* SearchIndex::add_folder: one [add] per secret the folder holds *)
Definition ix_add_folder (x : index) (ds : list doc) : index := fold_left ix_add ds x.
(* forced overwrite of a folder (storage/client/src/sync.rs force_merge_folder, after the fix
   'a forced overwrite of a folder refreshes its documents'): drop the folder, index its new contents *)
Definition ix_force (x : index) (f : folder) (ds : list doc) : index := ix_add_folder (ix_remove_vault x f) ds.
(* forget_folder / delete_folder: AccountSearch::remove_folder = remove_vault *)
Definition ix_forget (x : index) (f : folder) : index := ix_remove_vault x f.

(* recount from the documents *)
Definition count_folder (f : folder) (x : index) : nat :=
  length (filter (fun d => folder_eqb (d_folder d) f) (docs x)).
Definition count_kind (k : N) (x : index) : nat :=
  length (filter (fun d => N.eqb (d_kind d) k && negb (is_arch x (d_folder d))) (docs x)).
Definition count_tag (t : N) (x : index) : nat :=
  length (filter (fun k => N.eqb k t) (flat_map d_tags (docs x))).
Definition count_favs (x : index) : nat := length (filter d_fav (docs x)).
End Search.
