(* C19 — upgrading file-system accounts to the database loses nothing.
   Model: model/Upgrade.v over the shared events table of model/EventLog.v.  Every log of the
   account is found in the database event for event and in order, whatever other accounts and
   logs share the table; commit roots and lengths are functions of that list (C06/C08), so the
   upgraded device compares Equal with a server holding the pre-upgrade state. *)
From Coq Require Import List.
From SosModel Require Import model.EventLog model.Upgrade proofs.Upgrade_Lemmas.
Import ListNotations.

Section C19.
Variables hash tm dat owner : Type.
Variable owner_eqb : owner -> owner -> bool.
Hypothesis owner_eqb_spec : forall a b, owner_eqb a b = true <-> a = b.

Theorem C19_event_for_event (s : fs_store hash tm dat owner) o : NoDup (map fst s) ->
  db_log hash tm dat owner owner_eqb (import hash tm dat owner s []) o = fs_log hash tm dat owner owner_eqb s o.
Proof. exact (upgrade_event_for_event hash tm dat owner owner_eqb owner_eqb_spec s o). Qed.

(* importing next to what the table already holds (several accounts per data directory) *)
Theorem C19_import_preserves (s : fs_store hash tm dat owner) t o : NoDup (map fst s) ->
  db_log hash tm dat owner owner_eqb (import hash tm dat owner s t) o =
  db_log hash tm dat owner owner_eqb t o ++ fs_log hash tm dat owner owner_eqb s o.
Proof. exact (fun H => import_preserves hash tm dat owner owner_eqb owner_eqb_spec s H t o). Qed.
Theorem C19_other_logs_untouched (s : fs_store hash tm dat owner) t o : ~ In o (map fst s) ->
  db_log hash tm dat owner owner_eqb (import hash tm dat owner s t) o = db_log hash tm dat owner owner_eqb t o.
Proof. exact (import_other hash tm dat owner owner_eqb owner_eqb_spec s t o). Qed.
End C19.

Example C19_nonvacuous :
  db_log nat nat nat nat Nat.eqb
    (import nat nat nat nat [(1, [mkErec 10 11 12; mkErec 13 14 15]); (2, [mkErec 20 21 22])] [(2, mkErec 0 0 0)]) 2
  = [mkErec 0 0 0; mkErec 20 21 22].
Proof. reflexivity. Qed.

Print Assumptions C19_event_for_event.
Print Assumptions C19_import_preserves.
Print Assumptions C19_other_logs_untouched.
