(* Search bookkeeping model: replays the decrypted event traces of ALL folders of one device
   (in the order the harness lists them) into the extracted index model and prints the
   documents per folder and the per-folder counters, in the format of the harness' index line.
   input:  <sub> <case> <step> <who> <folder>=<ev,ev,..> <folder>=<..> ...            *)
open Model
open Glue

let label_of body = match String.index_opt body '=' with Some i -> String.sub body 0 i | None -> body
(* body = label=text[!][#tag]*  : the favourite marker and the tags of the decrypted meta *)
let fav_tags body =
  match String.split_on_char '#' body with
  | [] -> (false, [])
  | b :: tags -> (String.length b > 0 && b.[String.length b - 1] = '!',
                  List.map (fun t -> n_of_int (int_of_string (String.sub t 1 (String.length t - 1)))) tags)
(* the archive folder: the one whose vault header carries VaultFlags::ARCHIVE (bit 2) *)
let archive_of folders =
  List.fold_left (fun acc fe -> match acc, String.index_opt fe '=' with
    | None, Some k ->
      let f = String.sub fe 0 k in
      (match split_on ',' (String.sub fe (k + 1) (String.length fe - k - 1)) with
       | first :: _ -> (match String.split_on_char ':' first with
           | ["V"; _; flags; _; _] when (int_of_string flags) land 4 <> 0 -> Some f
           | _ -> None)
       | [] -> None)
    | _ -> acc) None folders

(* the index of each (case, device) after the previous step: whole-folder operations
   (forced overwrite, forget) are applied to it rather than rebuilt *)
let prev : (string * string, (string, string) index) Hashtbl.t = Hashtbl.create 16

let run_line (line : string) : unit =
  match String.split_on_char ' ' line |> List.filter (fun s -> s <> "") with
  | _ :: case :: step :: who :: toks when toks <> [] ->
    let markers, folders = List.partition (fun t -> String.length t > 0 && t.[0] = '@') toks in
    let x = ref (new_index (archive_of folders)) in
    let labels : (string * string, string) Hashtbl.t = Hashtbl.create 16 in
    let bad = ref false in
    List.iter (fun fe ->
      match String.index_opt fe '=' with
      | None -> ()
      | Some k ->
        let f = String.sub fe 0 k in
        let evs = split_on ',' (String.sub fe (k + 1) (String.length fe - k - 1)) in
        List.iter (fun e ->
          match String.split_on_char ':' e with
          | ["C"; i; body] | ["U"; i; body] ->
            Hashtbl.replace labels (f, i) (label_of body);
            let (fav, tags) = fav_tags body in
            x := ix_update String.equal String.equal !x
                   { d_folder = f; d_id = i; d_label = N0; d_kind = n_of_int 2; d_fav = fav; d_tags = tags }
          | ["D"; i] -> x := ix_remove String.equal String.equal !x f i
          | ["G"; g] -> if (int_of_string g) land 4 <> 0 || archive_of [fe] <> None then bad := true
          | "V" :: _ | ["N"; _] | ["M"; _] -> ()
          | _ -> bad := true) evs) folders;
    if !bad then Printf.printf "%s unmodelled\n" case
    else begin
      (* @force=<folder>: the step overwrote the folder wholesale: model = ix_force (previous index) folder (new contents)
         @forget: the step dropped a folder from memory: model = ix_forget (previous index) (each folder no longer listed) *)
      let names = List.filter_map (fun fe -> match String.index_opt fe '=' with Some k -> Some (String.sub fe 0 k) | None -> None) folders in
      (match markers, Hashtbl.find_opt prev (case, who) with
       | m :: _, Some p when String.length m > 7 && String.sub m 0 7 = "@force=" ->
         let f = String.sub m 7 (String.length m - 7) in
         x := ix_force String.equal String.equal p f (List.filter (fun d -> d.d_folder = f) !x.docs)
       | "@forget" :: _, Some p ->
         let gone = List.sort_uniq compare (List.filter_map (fun d -> if List.mem d.d_folder names then None else Some d.d_folder) p.docs) in
         x := List.fold_left (fun y f -> ix_forget String.equal String.equal y f) p gone
       | _ -> ());
      Hashtbl.replace prev (case, who) !x;
      let fs = List.sort_uniq compare (List.map (fun d -> d.d_folder) !x.docs) in
      let docs = List.map (fun f ->
        let ls = List.sort compare (List.filter_map (fun d ->
          if d.d_folder = f then Some (match Hashtbl.find_opt labels (f, d.d_id) with Some l -> l | None -> "?" ^ d.d_id) else None) !x.docs) in
        f ^ ":" ^ String.concat ";" ls) fs in
      let vc = List.filter_map (fun (f, n) -> let n = int_of_nat n in if n > 0 then Some (Printf.sprintf "%s:%d" f n) else None)
          (List.sort compare !x.c_vaults) in
      let nz l = List.filter_map (fun (k, n) -> let n = int_of_nat n in if n > 0 then Some (k, n) else None) l in
      let kc = List.map (fun (k, n) -> Printf.sprintf "%d:%d" (int_of_n k) n) (List.sort compare (nz !x.c_kinds)) in
      let tc = List.map (fun (k, n) -> Printf.sprintf "t%d:%d" (int_of_n k) n) (List.sort compare (nz !x.c_tags)) in
      Printf.printf "%s %s %s index docs=%s vaults=%s kinds=%s favs=%d tags=%s\n" case step who (String.concat "|" docs) (String.concat ";" vc)
        (String.concat ";" kc) (int_of_nat !x.c_favs) (String.concat ";" tc)
    end
  | _ :: case :: _ -> Printf.printf "%s unmodelled\n" case
  | _ -> ()
