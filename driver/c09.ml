(* Server request model: replays the requests observed on the implementation (in the order
   they reached the server) on the extracted [srv_step], per event log, and prints the
   server's logs after every request.  Roots are computed with the Merkle model over the real
   commit hashes (SHA-256 in Gallina).
   input lines:  <sub> <case> init <log> <hex,hex,..>
                 <sub> <case> req <n> sync <name:diff:root/len:c;c,...>
                 <sub> <case> req <n> patch log=<name> commit=<hex|-> proof=<root>/<len> patch=<c;c> applied=<b> *)
open Model
open Glue

let state : (string, (string * (string, unit, unit) elog) list ref) Hashtbl.t = Hashtbl.create 8
let mk (c : string) : (string, unit, unit) erec = { er_time = (); er_commit = string_of_hex c; er_data = () }
let hexl (l : (string, unit, unit) elog) = String.concat "," (List.map hex_of_string l.l_tree)
let logs case = match Hashtbl.find_opt state case with Some r -> r | None -> let r = ref [] in Hashtbl.add state case r; r
let dump case n = List.iter (fun (name, l) -> Printf.printf "%s req %s SRV %s %s\n" case n name (hexl l)) (List.sort compare !(logs case))
let update case name f =
  let r = logs case in
  r := List.map (fun (k, l) -> if k = name then (k, f l) else (k, l)) !r

let run_line (line : string) : unit =
  match String.split_on_char ' ' line |> List.filter (fun s -> s <> "") with
  | _ :: case :: "init" :: name :: rest ->
    let cs = List.map string_of_hex (split_on ',' (match rest with [x] -> x | _ -> "")) in
    let r = logs case in
    r := (name, { l_recs = List.map (fun c -> { er_time = (); er_commit = c; er_data = () }) cs; l_tree = cs }) :: !r
  | _ :: case :: "req" :: n :: "sync" :: rest ->
    List.iter (fun entry ->
      match String.split_on_char ':' entry with
      | [kind; sub; "diff"; ck; patch] | [kind; sub; _; "diff"; ck; patch] when kind = "folder" || true ->
        let name = if String.length entry > 7 && String.sub entry 0 7 = "folder:" then kind ^ ":" ^ sub else kind in
        ignore name; ignore ck; ignore patch
      | _ -> ()) [];
    (* entries are "name:diff:root/len:c;c" where name may itself contain one ':' (folder:<uuid>) *)
    let entries = split_on ',' (match rest with [x] -> x | _ -> "") in
    List.iter (fun entry ->
      let parts = String.split_on_char ':' entry in
      let (name, tail) = match parts with
        | "folder" :: uuid :: t -> ("folder:" ^ uuid, t)
        | nm :: t -> (nm, t)
        | [] -> ("", []) in
      match tail with
      | ["diff"; ck; patch] ->
        let root = string_of_hex (List.hd (String.split_on_char '/' ck)) in
        let recs = List.map mk (split_on ';' patch) in
        update case name (fun l -> fst (srv_step hash_eqb h2 l (ReqDiff (root, recs))))
      | _ -> ()) entries;
    dump case n
  | _ :: case :: "req" :: n :: "skip" :: _ -> dump case n
  | _ :: case :: "req" :: n :: "patch" :: rest ->
    let get k = match kv rest k with Some v -> v | None -> "" in
    let name = get "log" in
    let root = string_of_hex (List.hd (String.split_on_char '/' (get "proof"))) in
    let recs = List.map mk (split_on ';' (get "patch")) in
    let c = get "commit" in
    let zero = String.make 32 '\000' in
    if c <> "-" then update case name (fun l -> fst (srv_step hash_eqb h2 l (ReqPatch (string_of_hex c, root, recs))))
    else if name = "files" && root = zero then update case name (fun l -> fst (srv_step hash_eqb h2 l (ReqInit (root, recs))))
    else update case name (fun l -> fst (srv_step hash_eqb h2 l (ReqDiff (root, recs))));
    dump case n
  | _ :: case :: _ -> Printf.printf "%s unmodelled\n" case
  | _ -> ()
