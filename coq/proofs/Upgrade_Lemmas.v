From Coq Require Import List.
From SosModel Require Import model.EventLog model.Upgrade proofs.EventLog_Lemmas.
Import ListNotations.

Section UpgradeLemmas.
Variable hash : Type.
Variable hash_eqb : hash -> hash -> bool.
Hypothesis hash_eqb_spec : forall a b, hash_eqb a b = true <-> a = b.
Variable H2 : hash -> hash -> hash.
Variables tm dat owner : Type.
Variable owner_eqb : owner -> owner -> bool.
Hypothesis owner_eqb_spec : forall a b, owner_eqb a b = true <-> a = b.
Notation erec := (@erec hash tm dat).
Notation table := (table hash tm dat owner).
Notation import := (import hash tm dat owner).
Notation fs_log := (fs_log hash tm dat owner owner_eqb).
Notation db_log := (db_log hash tm dat owner owner_eqb).
Notation tb_insert := (tb_insert hash tm dat owner).

Lemma oeq_refl o : owner_eqb o o = true. Proof. apply owner_eqb_spec. reflexivity. Qed.
Lemma oeq_neq a b : a <> b -> owner_eqb a b = false.
Proof. intro H. destruct (owner_eqb a b) eqn:E; [|reflexivity]. apply owner_eqb_spec in E. congruence. Qed.

(* logs that are not in the imported store keep their rows *)
Lemma import_other s : forall (t : table) o, ~ In o (map fst s) -> db_log (import s t) o = db_log t o.
Proof.
  induction s as [|[o1 rs] s IH]; intros t o Hn; [reflexivity|]. cbn [Upgrade.import fold_left fst snd].
  fold (import s (tb_insert t o1 rs)). rewrite IH by (cbn [map fst In] in Hn; tauto).
  unfold Upgrade.db_log. apply (select_insert_other hash tm dat owner owner_eqb owner_eqb_spec).
  cbn [map fst In] in Hn. intro E. apply Hn. left. exact E.
Qed.

(* every log file arrives in the database event for event, in order *)
Theorem import_preserves s : NoDup (map fst s) -> forall (t : table) o,
  db_log (import s t) o = db_log t o ++ fs_log s o.
Proof.
  induction s as [|[o1 rs] s IH]; intros Hnd t o.
  - cbn. rewrite app_nil_r. reflexivity.
  - inversion Hnd as [|? ? Hnotin Hnd']; subst. cbn [Upgrade.import fold_left fst snd].
    fold (import s (tb_insert t o1 rs)). unfold Upgrade.fs_log. cbn [find fst snd].
    destruct (owner_eqb o1 o) eqn:E.
    + apply owner_eqb_spec in E. subst o1.
      rewrite import_other by exact Hnotin. unfold Upgrade.db_log.
      apply (select_insert_same hash tm dat owner owner_eqb owner_eqb_spec).
    + rewrite (IH Hnd'). unfold Upgrade.db_log, Upgrade.fs_log.
      rewrite (select_insert_other hash tm dat owner owner_eqb owner_eqb_spec); [reflexivity|].
      intros ->. rewrite oeq_refl in E. discriminate.
Qed.

Corollary upgrade_event_for_event s o : NoDup (map fst s) -> db_log (import s []) o = fs_log s o.
Proof. intro H. rewrite (import_preserves s H [] o). reflexivity. Qed.
End UpgradeLemmas.
