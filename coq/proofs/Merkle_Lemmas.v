(* Proofs about model/Merkle.v.  Parametric in the hash function; nothing assumes that it is
   injective: conclusions carry an explicit [Collision] disjunct. *)
From Coq Require Import List NArith ZArith Bool Lia Arith ZifyN ZifyNat ZifyBool.
From SosModel Require Import model.Merkle.
Import ListNotations.
Ltac Zify.zify_post_hook ::= Z.div_mod_to_equations.

Section MerkleLemmas.
Variable hash : Type.
Variable hash_eqb : hash -> hash -> bool.
Hypothesis hash_eqb_spec : forall a b, hash_eqb a b = true <-> a = b.
Variable H2 : hash -> hash -> hash.

Notation next_layer := (next_layer hash H2).
Notation iter_layer := (iter_layer hash H2).
Notation root := (root hash H2).
Notation proof_hashes := (proof_hashes hash H2).
Notation path_root := (path_root hash H2).
Notation lenN := (lenN hash).

Definition Collision : Prop :=
  exists a b c d : hash, (a, b) <> (c, d) /\ H2 a b = H2 c d.
(* a leaf value that is also the hash of two nodes: rs_merkle has no domain separation *)
Definition Confusion (l1 l2 : list hash) : Prop :=
  exists h a b, (In h l1 \/ In h l2) /\ h = H2 a b.

Lemma hash_dec (a b : hash) : {a = b} + {a <> b}.
Proof.
  destruct (hash_eqb a b) eqn:E.
  - left. apply hash_eqb_spec. exact E.
  - right. intro Hab. apply hash_eqb_spec in Hab. congruence.
Qed.

Lemma hash_eqb_refl a : hash_eqb a a = true.
Proof. apply hash_eqb_spec. reflexivity. Qed.

Lemma H2_inj_or a b c d : H2 a b = H2 c d -> (a = c /\ b = d) \/ Collision.
Proof.
  intro E. destruct (hash_dec a c) as [->|Hac].
  - destruct (hash_dec b d) as [->|Hbd]; [left; auto|].
    right. exists c, b, c, d. split; [congruence|exact E].
  - right. exists a, b, c, d. split; [congruence|exact E].
Qed.

(* ---------- pairwise induction on lists ---------- *)
Lemma list_ind2 (A : Type) (P : list A -> Prop) :
  P [] -> (forall a, P [a]) -> (forall a b r, P r -> P (a :: b :: r)) -> forall l, P l.
Proof.
  intros H0 H1 H2'. 
  assert (forall n l, length l <= n -> P l) as Hn.
  { induction n as [|n IH]; intros l Hl.
    - destruct l; [exact H0|cbn [length] in Hl; lia].
    - destruct l as [|a [|b r]]; [exact H0|apply H1|].
      apply H2'. apply IH. cbn [length] in Hl. lia. }
  intro l. apply (Hn (length l)). lia.
Qed.

Lemma next_layer_length l : length (next_layer l) = Nat.div2 (S (length l)).
Proof.
  induction l as [| a | a b r IH] using list_ind2; [reflexivity|reflexivity|].
  cbn [Merkle.next_layer length]. rewrite IH. reflexivity.
Qed.

Lemma nth_error_next_layer j : forall l,
  nth_error (next_layer l) j =
  match nth_error l (2 * j) with
  | None => None
  | Some x => match nth_error l (S (2 * j)) with
              | Some y => Some (H2 x y)
              | None => Some x
              end
  end.
Proof.
  induction j as [|j IH]; intros [|a [|b r]]; try reflexivity.
  - cbn [Merkle.next_layer nth_error]. replace (2 * S j) with (S (S (2 * j))) by lia.
    clear IH. destruct j; reflexivity.
  - cbn [Merkle.next_layer]. replace (2 * S j) with (S (S (2 * j))) by lia.
    cbn [nth_error]. apply IH.
Qed.

(* ---------- tree terms ---------- *)
Inductive tree := Leaf (h : hash) | Node (l r : tree).
Fixpoint thash (t : tree) : hash :=
  match t with Leaf h => h | Node l r => H2 (thash l) (thash r) end.
Fixpoint fringe (t : tree) : list hash :=
  match t with Leaf h => [h] | Node l r => fringe l ++ fringe r end.
Fixpoint next_layer_t (l : list tree) : list tree :=
  match l with a :: b :: r => Node a b :: next_layer_t r | [a] => [a] | [] => [] end.
Fixpoint iter_layer_t (d : nat) (l : list tree) : list tree :=
  match d with O => l | S d' => iter_layer_t d' (next_layer_t l) end.

Lemma map_thash_next l : map thash (next_layer_t l) = next_layer (map thash l).
Proof.
  induction l as [| a | a b r IH] using list_ind2; [reflexivity|reflexivity|].
  cbn [next_layer_t map Merkle.next_layer thash]. rewrite IH. reflexivity.
Qed.

Lemma map_thash_iter d : forall l, map thash (iter_layer_t d l) = iter_layer d (map thash l).
Proof.
  induction d as [|d IH]; intro l; [reflexivity|].
  cbn [iter_layer_t Merkle.iter_layer]. rewrite IH, map_thash_next. reflexivity.
Qed.

Lemma fringe_next l : flat_map fringe (next_layer_t l) = flat_map fringe l.
Proof.
  induction l as [| a | a b r IH] using list_ind2; [reflexivity|reflexivity|].
  cbn [next_layer_t flat_map fringe]. rewrite IH, app_assoc. reflexivity.
Qed.

Lemma fringe_iter d : forall l, flat_map fringe (iter_layer_t d l) = flat_map fringe l.
Proof.
  induction d as [|d IH]; intro l; [reflexivity|].
  cbn [iter_layer_t]. rewrite IH. apply fringe_next.
Qed.

Lemma flat_map_fringe_leaves l : flat_map fringe (map Leaf l) = l.
Proof. induction l as [|a l IH]; [reflexivity|]. cbn. rewrite IH. reflexivity. Qed.

Lemma map_thash_leaves l : map thash (map Leaf l) = l.
Proof. induction l as [|a l IH]; [reflexivity|]. cbn. rewrite IH. reflexivity. Qed.

Lemma thash_inj : forall t1 t2, thash t1 = thash t2 ->
  t1 = t2 \/ Collision \/ Confusion (fringe t1) (fringe t2).
Proof.
  induction t1 as [h1|l1 IHl r1 IHr]; intros [h2|l2 r2] E; cbn [thash fringe] in *.
  - left. congruence.
  - right. right. exists h1, (thash l2), (thash r2). split; [left; left; reflexivity|exact E].
  - right. right. exists h2, (thash l1), (thash r1).
    split; [right; left; reflexivity|symmetry; exact E].
  - destruct (H2_inj_or _ _ _ _ E) as [[El Er]|Hc]; [|right; left; exact Hc].
    destruct (IHl _ El) as [->|[Hc|Hf]]; [|right; left; exact Hc|].
    + destruct (IHr _ Er) as [->|[Hc|Hf]]; [left; reflexivity|right; left; exact Hc|].
      right. right. destruct Hf as (h & a & b & Hin & Hh). exists h, a, b. split; [|exact Hh].
      rewrite !in_app_iff. tauto.
    + right. right. destruct Hf as (h & a & b & Hin & Hh). exists h, a, b. split; [|exact Hh].
      rewrite !in_app_iff. tauto.
Qed.

(* ---------- the final layer is a singleton ---------- *)
Lemma div2_succ_le n d : n <= 2 * 2 ^ d -> Nat.div2 (S n) <= 2 ^ d.
Proof. intro Hn. rewrite Nat.div2_div. lia. Qed.

Lemma iter_layer_t_single d : forall l, l <> [] -> length l <= 2 ^ d ->
  exists t, iter_layer_t d l = [t].
Proof.
  induction d as [|d IH]; intros l Hne Hlen.
  - cbn [iter_layer_t]. destruct l as [|t [|u r]]; [congruence|eauto|].
    cbn [length] in Hlen. cbn in Hlen. lia.
  - cbn [iter_layer_t]. apply IH.
    + destruct l as [|a [|b r]]; [congruence|discriminate|discriminate].
    + assert (length (next_layer_t l) = Nat.div2 (S (length l))) as Hl.
      { rewrite <- (map_length thash), map_thash_next, next_layer_length, map_length.
        reflexivity. }
      rewrite Hl.
      apply div2_succ_le. cbn [Nat.pow] in Hlen. lia.
Qed.

Lemma length_lt_pow_depth (A : Type) (l : list A) :
  length l < 2 ^ tree_depth (N.of_nat (length l)).
Proof.
  unfold tree_depth.
  pose proof (N.size_gt (N.of_nat (length l))) as Hs.
  assert (N.of_nat (2 ^ N.to_nat (N.size (N.of_nat (length l)))) =
          (2 ^ N.size (N.of_nat (length l)))%N) as E.
  { rewrite Nat2N.inj_pow, N2Nat.id. reflexivity. }
  lia.
Qed.

(* root l is the hash of a tree whose fringe is l *)
Lemma root_tree l : l <> [] ->
  exists t, root l = Some (thash t) /\ fringe t = l.
Proof.
  intro Hne.
  destruct (iter_layer_t_single (tree_depth (lenN l)) (map Leaf l)) as [t Ht].
  - destruct l; [congruence|discriminate].
  - rewrite map_length. unfold Merkle.lenN. pose proof (length_lt_pow_depth _ l). lia.
  - exists t. split.
    + unfold Merkle.root. destruct l as [|a l]; [congruence|].
      rewrite <- (map_thash_leaves (a :: l)) at 2.
      rewrite <- map_thash_iter, Ht. reflexivity.
    + pose proof (fringe_iter (tree_depth (lenN l)) (map Leaf l)) as Hf.
      rewrite Ht, flat_map_fringe_leaves in Hf. cbn [flat_map] in Hf.
      rewrite app_nil_r in Hf. exact Hf.
Qed.

Theorem root_inj l1 l2 : l1 <> [] -> root l1 = root l2 ->
  l1 = l2 \/ Collision \/ Confusion l1 l2.
Proof.
  intros Hne E.
  assert (l2 <> []) as Hne2.
  { intros ->. destruct (root_tree l1 Hne) as (t & Ht & _). rewrite Ht in E. discriminate. }
  destruct (root_tree l1 Hne) as (t1 & Ht1 & Hf1).
  destruct (root_tree l2 Hne2) as (t2 & Ht2 & Hf2).
  rewrite Ht1, Ht2 in E. injection E as E.
  destruct (thash_inj _ _ E) as [->|[Hc|Hf]].
  - left. congruence.
  - right. left. exact Hc.
  - right. right. rewrite Hf1, Hf2 in Hf. exact Hf.
Qed.

Lemma root_some l : l <> [] -> exists r, root l = Some r.
Proof. intro H. destruct (root_tree l H) as (t & Ht & _). eauto. Qed.


(* ---------- single-index proofs ---------- *)
Lemma N_odd_mod a : N.odd a = (a mod 2 =? 1)%N.
Proof.
  pose proof (N.bit0_mod a) as Hb. rewrite N.bit0_odd in Hb.
  destruct (N.odd a); cbn [N.b2n] in Hb; rewrite <- Hb; reflexivity.
Qed.
Lemma N_even_mod a : N.even a = (a mod 2 =? 0)%N.
Proof.
  rewrite <- N.negb_odd, N_odd_mod.
  pose proof (N.mod_upper_bound a 2). 
  destruct (a mod 2 =? 1)%N eqn:E1; destruct (a mod 2 =? 0)%N eqn:E0; cbn; lia.
Qed.

Lemma lenN_next_layer l : lenN (next_layer l) = div_ceil2 (lenN l).
Proof.
  unfold Merkle.lenN, div_ceil2. rewrite next_layer_length, Nat.div2_div.
  destruct (N.of_nat (length l) mod 2 =? 0)%N eqn:E; lia.
Qed.

Lemma next_layer_len_le d l : length l <= 2 ^ S d -> length (next_layer l) <= 2 ^ d.
Proof. intro H. rewrite next_layer_length. apply div2_succ_le. cbn [Nat.pow] in H. lia. Qed.

Lemma nth_error_None_iff (A : Type) (l : list A) k : nth_error l k = None <-> length l <= k.
Proof. apply nth_error_None. Qed.

(* the node above position i *)
Lemma parent_promoted l i x :
  nth_error l (N.to_nat i) = Some x -> (N.odd (lenN l) && (i =? lenN l - 1))%N = true ->
  nth_error (next_layer l) (N.to_nat (i / 2)) = Some x /\
  nth_error l (N.to_nat (sibling i)) = None.
Proof.
  intros Hx Hc. rewrite N_odd_mod in Hc. unfold sibling. rewrite N_even_mod.
  unfold Merkle.lenN in *.
  assert (N.to_nat i < length l) as Hi by (apply nth_error_Some; congruence).
  assert (i mod 2 =? 0 = true)%N as Hev by lia. rewrite Hev.
  assert (2 * N.to_nat (i / 2) = N.to_nat i) as E2 by lia.
  split.
  - rewrite nth_error_next_layer, E2, Hx.
    assert (nth_error l (S (N.to_nat i)) = None) as -> by (apply nth_error_None; lia).
    reflexivity.
  - apply nth_error_None. lia.
Qed.

Lemma parent_paired l i x :
  nth_error l (N.to_nat i) = Some x -> (N.odd (lenN l) && (i =? lenN l - 1))%N = false ->
  exists s, nth_error l (N.to_nat (sibling i)) = Some s /\
    nth_error (next_layer l) (N.to_nat (i / 2)) =
      Some (if N.even i then H2 x s else H2 s x).
Proof.
  intros Hx Hc. rewrite N_odd_mod in Hc. unfold sibling. rewrite N_even_mod.
  unfold Merkle.lenN in *.
  assert (N.to_nat i < length l) as Hi by (apply nth_error_Some; congruence).
  destruct (i mod 2 =? 0)%N eqn:Hev.
  - assert (2 * N.to_nat (i / 2) = N.to_nat i) as E2 by lia.
    assert (N.to_nat (i + 1) = S (N.to_nat i)) as E3 by lia.
    destruct (nth_error l (S (N.to_nat i))) as [s|] eqn:Hs.
    + exists s. rewrite E3. split; [exact Hs|].
      rewrite nth_error_next_layer, E2, Hx, Hs. reflexivity.
    + apply nth_error_None in Hs. lia.
  - assert (S (2 * N.to_nat (i / 2)) = N.to_nat i) as E2 by lia.
    assert (N.to_nat (i - 1) = 2 * N.to_nat (i / 2)) as E3 by lia.
    destruct (nth_error l (2 * N.to_nat (i / 2))) as [s|] eqn:Hs.
    + exists s. rewrite E3. split; [exact Hs|].
      rewrite nth_error_next_layer, Hs, E2, Hx. reflexivity.
    + apply nth_error_None in Hs. lia.
Qed.

(* an honest proof verifies: the path recomputes the root (surplus hashes are ignored) *)
Lemma path_complete d : forall l i x extra,
  nth_error l (N.to_nat i) = Some x -> length l <= 2 ^ d ->
  path_root d (lenN l) i x (proof_hashes d l i ++ extra) = hd_error (iter_layer d l).
Proof.
  induction d as [|d IH]; intros l i x extra Hx Hlen.
  - cbn [Merkle.path_root Merkle.iter_layer].
    assert (N.to_nat i < length l) as Hi by (apply nth_error_Some; congruence).
    cbn [Nat.pow] in Hlen. assert (N.to_nat i = 0) as E0 by lia. rewrite E0 in Hx.
    destruct l; [discriminate|]. cbn in Hx |- *. congruence.
  - cbn [Merkle.path_root Merkle.iter_layer Merkle.proof_hashes].
    destruct (N.odd (lenN l) && (i =? lenN l - 1))%N eqn:Hc.
    + destruct (parent_promoted l i x Hx Hc) as [Hp Hs]. rewrite Hs. cbn [app].
      rewrite <- lenN_next_layer. apply IH; [exact Hp|apply next_layer_len_le; exact Hlen].
    + destruct (parent_paired l i x Hx Hc) as (s & Hs & Hp). rewrite Hs. cbn [app].
      rewrite <- lenN_next_layer. apply IH; [exact Hp|apply next_layer_len_le; exact Hlen].
Qed.

(* soundness of a path for the prover's own length: the verifier's leaf is the prover's *)
Lemma path_sound d : forall l i h extra,
  (i < lenN l)%N -> length l <= 2 ^ d ->
  path_root d (lenN l) i h (proof_hashes d l i ++ extra) = hd_error (iter_layer d l) ->
  nth_error l (N.to_nat i) = Some h \/ Collision.
Proof.
  induction d as [|d IH]; intros l i h extra Hi Hlen E.
  - cbn [Merkle.path_root Merkle.iter_layer] in E. unfold Merkle.lenN in Hi.
    cbn [Nat.pow] in Hlen. assert (N.to_nat i = 0) as E0 by lia. rewrite E0.
    destruct l; [cbn in Hi; lia|]. cbn in E |- *. left. congruence.
  - cbn [Merkle.path_root Merkle.iter_layer Merkle.proof_hashes] in E.
    destruct (nth_error l (N.to_nat i)) as [x|] eqn:Hx;
      [|apply nth_error_None in Hx; unfold Merkle.lenN in Hi; lia].
    assert (i / 2 < lenN (next_layer l))%N as Hi2.
    { rewrite lenN_next_layer. unfold div_ceil2.
      destruct (lenN l mod 2 =? 0)%N eqn:Em; lia. }
    destruct (N.odd (lenN l) && (i =? lenN l - 1))%N eqn:Hc.
    + destruct (parent_promoted l i x Hx Hc) as [Hp Hs]. rewrite Hs in E. cbn [app] in E.
      rewrite <- lenN_next_layer in E.
      destruct (IH _ _ _ _ Hi2 (next_layer_len_le _ _ Hlen) E) as [Hn|Hcol];
        [|right; exact Hcol].
      left. congruence.
    + destruct (parent_paired l i x Hx Hc) as (s & Hs & Hp). rewrite Hs in E. cbn [app] in E.
      rewrite <- lenN_next_layer in E.
      destruct (IH _ _ _ _ Hi2 (next_layer_len_le _ _ Hlen) E) as [Hn|Hcol];
        [|right; exact Hcol].
      rewrite Hp in Hn. injection Hn as Hn.
      destruct (N.even i).
      * destruct (H2_inj_or _ _ _ _ Hn) as [[-> _]|Hcol]; [left; reflexivity|right; exact Hcol].
      * destruct (H2_inj_or _ _ _ _ Hn) as [[_ ->]|Hcol]; [left; reflexivity|right; exact Hcol].
Qed.


(* ---------- CommitTree::compare / CommitProof::verify_leaves ---------- *)
Notation tree_compare := (tree_compare hash hash_eqb H2).
Notation head := (head hash H2).
Notation proof_at := (proof_at hash H2).
Notation verify1 := (verify1 hash hash_eqb H2).
Notation verify_leaves := (verify_leaves hash hash_eqb H2).

Definition prefix (l2 l1 : list hash) : Prop := firstn (length l2) l1 = l2.

Lemma prefix_dec l2 l1 : {prefix l2 l1} + {~ prefix l2 l1}.
Proof. unfold prefix. apply (list_eq_dec hash_dec). Qed.

Lemma prefix_app l2 s : prefix l2 (l2 ++ s).
Proof. unfold prefix. rewrite firstn_app, Nat.sub_diag, firstn_all. cbn. apply app_nil_r. Qed.

Lemma prefix_split l2 l1 : prefix l2 l1 -> l1 = l2 ++ skipn (length l2) l1.
Proof. unfold prefix. intro H. rewrite <- H at 1. symmetry. apply firstn_skipn. Qed.

Lemma depth_len_le l : length l <= 2 ^ tree_depth (lenN l).
Proof. unfold Merkle.lenN. pose proof (length_lt_pow_depth _ l). lia. Qed.

Lemma root_hd l : l <> [] -> root l = hd_error (iter_layer (tree_depth (lenN l)) l).
Proof. destruct l; [congruence|reflexivity]. Qed.

Lemma proof_at_some l i : l <> [] -> exists r,
  root l = Some r /\
  proof_at l i = Some (mkProof r (proof_hashes (tree_depth (lenN l)) l i) (lenN l) [i]).
Proof.
  intro Hne. destruct (root_some l Hne) as [r Hr]. exists r. split; [exact Hr|].
  unfold Merkle.proof_at. rewrite Hr. reflexivity.
Qed.

(* verifying an honest single-index proof of [l2] at its own length against leaves [L] *)
Lemma verify1_sound l2 i p L : l2 <> [] -> (i < lenN l2)%N -> proof_at l2 i = Some p ->
  verify1 p (p_length p) L = true ->
  nth_error L (N.to_nat i) = nth_error l2 (N.to_nat i) \/ Collision.
Proof.
  intros Hne Hi Hp Hv. destruct (proof_at_some l2 i Hne) as (r & Hr & Hp').
  rewrite Hp' in Hp. injection Hp as <-. unfold Merkle.verify1 in Hv. cbn in Hv.
  destruct (nth_error L (N.to_nat i)) as [h|] eqn:Hh; [|discriminate].
  unfold verify_root in Hv.
  destruct (path_root (tree_depth (lenN l2)) (lenN l2) i h
              (proof_hashes (tree_depth (lenN l2)) l2 i)) as [r'|] eqn:Hpr; [|discriminate].
  apply hash_eqb_spec in Hv. subst r'.
  rewrite <- (app_nil_r (proof_hashes _ _ _)), <- Hr, (root_hd l2 Hne) in Hpr.
  destruct (path_sound _ _ _ _ _ Hi (depth_len_le l2) Hpr) as [Hn|Hc]; [left|right; exact Hc].
  congruence.
Qed.

Lemma verify1_complete l2 i p L : l2 <> [] -> (i < lenN l2)%N -> proof_at l2 i = Some p ->
  nth_error L (N.to_nat i) = nth_error l2 (N.to_nat i) ->
  verify1 p (p_length p) L = true.
Proof.
  intros Hne Hi Hp Hn. destruct (proof_at_some l2 i Hne) as (r & Hr & Hp').
  rewrite Hp' in Hp. injection Hp as <-. unfold Merkle.verify1. cbn.
  destruct (nth_error l2 (N.to_nat i)) as [x|] eqn:Hx;
    [|apply nth_error_None in Hx; unfold Merkle.lenN in Hi; lia].
  rewrite Hn. unfold verify_root.
  pose proof (path_complete _ l2 i x [] Hx (depth_len_le l2)) as Hpc.
  rewrite app_nil_r, <- (root_hd l2 Hne), Hr in Hpc. rewrite Hpc. apply hash_eqb_refl.
Qed.

Lemma head_proof_at l : l <> [] -> head l = proof_at l (lenN l - 1).
Proof. destruct l; [congruence|reflexivity]. Qed.

Lemma lenN_pos l : l <> [] -> (0 < lenN l)%N.
Proof. destruct l; [congruence|]. unfold Merkle.lenN. cbn [length]. lia. Qed.

(* unfolding of compare against an honest head proof *)
Lemma compare_head_cases l1 l2 p : l1 <> [] -> l2 <> [] -> head l2 = Some p ->
  exists r1 r2, root l1 = Some r1 /\ root l2 = Some r2 /\
    p_indices p = [(lenN l2 - 1)%N] /\ p_length p = lenN l2 /\
    tree_compare l1 p =
      Some (if hash_eqb r1 r2 then CmpEqual
            else if verify1 p (p_length p) l1 then CmpContains [(lenN l2 - 1)%N]
            else CmpUnknown).
Proof.
  intros H1 H2' Hp. rewrite (head_proof_at l2 H2') in Hp.
  destruct (proof_at_some l2 (lenN l2 - 1) H2') as (r2 & Hr2 & Hp').
  rewrite Hp' in Hp. injection Hp as <-.
  destruct (root_some l1 H1) as [r1 Hr1]. exists r1, r2.
  repeat split; try assumption; try reflexivity.
  unfold Merkle.tree_compare. rewrite Hr1. cbn [p_root p_indices p_length].
  destruct (hash_eqb r1 r2); [reflexivity|].
  match goal with |- context [if ?b then _ else _] => destruct b end; reflexivity.
Qed.

Theorem equal_complete l p : l <> [] -> head l = Some p -> tree_compare l p = Some CmpEqual.
Proof.
  intros Hne Hp. destruct (compare_head_cases l l p Hne Hne Hp) as (r1 & r2 & Hr1 & Hr2 & _ & _ & Hc).
  rewrite Hc. assert (r1 = r2) as -> by congruence. rewrite hash_eqb_refl. reflexivity.
Qed.

Theorem equal_sound l1 l2 p : l1 <> [] -> l2 <> [] -> head l2 = Some p ->
  tree_compare l1 p = Some CmpEqual -> l1 = l2 \/ Collision \/ Confusion l1 l2.
Proof.
  intros H1 H2' Hp Hc.
  destruct (compare_head_cases l1 l2 p H1 H2' Hp) as (r1 & r2 & Hr1 & Hr2 & _ & _ & Hc').
  rewrite Hc' in Hc. destruct (hash_eqb r1 r2) eqn:E.
  - apply hash_eqb_spec in E. apply root_inj; [exact H1|congruence].
  - destruct (verify1 p (p_length p) l1); discriminate.
Qed.

(* what 'contains' really establishes: the last leaf of the other log sits at the same
   position here *)
Theorem contains_char l1 l2 p ix : l1 <> [] -> l2 <> [] -> head l2 = Some p ->
  tree_compare l1 p = Some (CmpContains ix) ->
  ix = [(lenN l2 - 1)%N] /\ l1 <> l2 /\
  (nth_error l1 (N.to_nat (lenN l2 - 1)) = nth_error l2 (N.to_nat (lenN l2 - 1)) \/ Collision).
Proof.
  intros H1 H2' Hp Hc.
  destruct (compare_head_cases l1 l2 p H1 H2' Hp) as (r1 & r2 & Hr1 & Hr2 & _ & _ & Hc').
  rewrite Hc' in Hc. destruct (hash_eqb r1 r2) eqn:E; [discriminate|].
  destruct (verify1 p (p_length p) l1) eqn:Hv; [|discriminate].
  injection Hc as <-. split; [reflexivity|]. split.
  - intros ->. rewrite Hr1 in Hr2. injection Hr2 as ->. rewrite hash_eqb_refl in E. discriminate.
  - rewrite (head_proof_at l2 H2') in Hp.
    apply (verify1_sound l2 (lenN l2 - 1)%N p l1 H2'); [pose proof (lenN_pos l2 H2'); lia|exact Hp|exact Hv].
Qed.

Theorem contains_complete l2 s p : l2 <> [] -> s <> [] -> head l2 = Some p ->
  tree_compare (l2 ++ s) p = Some (CmpContains [(lenN l2 - 1)%N])
  \/ Collision \/ Confusion (l2 ++ s) l2.
Proof.
  intros H2' Hs Hp.
  assert (l2 ++ s <> []) as H1 by (destruct l2; [congruence|discriminate]).
  destruct (compare_head_cases (l2 ++ s) l2 p H1 H2' Hp) as (r1 & r2 & Hr1 & Hr2 & _ & _ & Hc').
  rewrite Hc'. destruct (hash_eqb r1 r2) eqn:E.
  - apply hash_eqb_spec in E. right.
    destruct (root_inj (l2 ++ s) l2 H1) as [Heq|Hx]; [congruence| |exact Hx].
    exfalso. apply (f_equal (@length hash)) in Heq. rewrite app_length in Heq.
    destruct s; [congruence|cbn [length] in Heq; lia].
  - left. rewrite (head_proof_at l2 H2') in Hp.
    rewrite (verify1_complete l2 (lenN l2 - 1)%N p (l2 ++ s) H2'); [reflexivity| |exact Hp|].
    + pose proof (lenN_pos l2 H2'). lia.
    + apply nth_error_app1. pose proof (lenN_pos l2 H2'). unfold Merkle.lenN in *. lia.
Qed.

(* the known class: same leaf at the other log's last position although it is not a prefix *)
Definition SameLeafNotPrefix (l1 l2 : list hash) : Prop :=
  nth_error l1 (N.to_nat (lenN l2 - 1)) = nth_error l2 (N.to_nat (lenN l2 - 1)) /\
  ~ prefix l2 l1.

Theorem contains_sound_outside_known_class l1 l2 p ix :
  l1 <> [] -> l2 <> [] -> head l2 = Some p ->
  tree_compare l1 p = Some (CmpContains ix) -> ~ SameLeafNotPrefix l1 l2 ->
  (prefix l2 l1 /\ l1 <> l2 /\ ix = [(lenN l2 - 1)%N] /\ l1 = l2 ++ skipn (length l2) l1)
  \/ Collision.
Proof.
  intros H1 H2' Hp Hc Hk.
  destruct (contains_char l1 l2 p ix H1 H2' Hp Hc) as (Hix & Hne & [Hn|Hcol]);
    [|right; exact Hcol].
  left. destruct (prefix_dec l2 l1) as [Hpre|Hnp].
  - repeat split; try assumption. apply prefix_split. exact Hpre.
  - exfalso. apply Hk. split; assumption.
Qed.

Theorem unknown_not_prefix l1 l2 p : l1 <> [] -> l2 <> [] -> head l2 = Some p ->
  tree_compare l1 p = Some CmpUnknown -> prefix l2 l1 -> Collision \/ Confusion l1 l2.
Proof.
  intros H1 H2' Hp Hc Hpre. rewrite (prefix_split _ _ Hpre) in Hc, H1 |- *.
  destruct (skipn (length l2) l1) as [|x s] eqn:Hs.
  - rewrite app_nil_r in Hc. rewrite (equal_complete l2 p H2' Hp) in Hc. discriminate.
  - destruct (contains_complete l2 (x :: s) p H2' ltac:(discriminate) Hp) as [Hcc|Hx];
      [rewrite Hcc in Hc; discriminate|exact Hx].
Qed.

(* verify_leaves: an honest proof of position i verifies against ANY replica, of any length,
   exactly when the replica holds the same leaf at i *)
Theorem verify_leaves_sound l2 i p L : l2 <> [] -> (i < lenN l2)%N -> proof_at l2 i = Some p ->
  verify_leaves p L = true ->
  nth_error L (N.to_nat i) = nth_error l2 (N.to_nat i) \/ Collision.
Proof. intros. eapply verify1_sound; eauto. Qed.

Theorem verify_leaves_complete l2 i p L : l2 <> [] -> (i < lenN l2)%N ->
  proof_at l2 i = Some p ->
  nth_error L (N.to_nat i) = nth_error l2 (N.to_nat i) -> verify_leaves p L = true.
Proof. intros. eapply verify1_complete; eauto. Qed.

End MerkleLemmas.
