"""C19 — upgrading file-system accounts to the database loses nothing.
Real accounts: a generated history runs on two file-system devices and a file-system server; then the
client's (or the server's) data directory is upgraded for real (after a dry run, which must leave it
byte-identical), re-opened on the database backend and observed like before; the replica then keeps
syncing with its un-upgraded peers.  Twin cases run one history on an all-fs world and an all-db world.
Correspondence: the extracted [import]/[db_log] (model/Upgrade.v) is fed the replica's logs as observed
before the upgrade and must reproduce the logs observed after it."""
import re
from vcheck import acct

ID = "C19"
SUB = "c19"
LEVEL = "proof"
RESILIENT = True
IMPL_TIMEOUT = 3000
RULE = ("a case = a generated history (folders, flags, renames, deleted folders and secrets, synced and unsynced edits on two "
        "devices) followed by a real upgrade of the client or the server directory, or a twin run on both backends; non-trivial = "
        "the upgraded replica holds at least two folder logs and at least one log differing from its peers at upgrade time; "
        "distinct by (side, history)")
TRUSTED_BASE = [
    "model/Upgrade.v: import = per log, in file order, one batch of row inserts into the shared events table (db_import.rs); "
    "the table model and its selection are those of model/EventLog.v (C06)",
    "the model consumes the replica's logs as observed before the upgrade",
]
ASSUMPTIONS = ["one file secret with two further attachments (three blobs under one secret id) per upgraded client account and one extra attachment-less account per data directory; richer blob histories are C17's",
               "preferences and the server list are not populated by the histories; trusted devices are compared through the device log"]


def corpus():
    return [
        "c19 k_client side=client hist=s0|c0:a|c0:b|f0:1|c0:c@1|s0|s1|u1:a|s1",
        "c19 k_server side=server hist=s0|c0:a|c0:b|f0:1|c0:c@1|s0|s1|u1:a|s1",
        "c19 k_unsynced side=client hist=s0|s1|c0:a|c1:b|f0:1|g0:1:16|k0:1|x0:a|p0:0",
        # folders carrying the flags an application may give them: NO_SYNC, LOCAL, SYSTEM (a SYSTEM user folder is the
        # known finding C19-system-flagged-folder-aborts-upgrade)
        "c19 k_flag_nosync side=client hist=c0:a|f0:1|c0:b@1|g0:1:128|s0",
        "c19 k_flag_local side=client hist=c0:a|f0:1|c0:b@1|g0:1:256|s0",
        "c19 k_flag_system side=client hist=c0:a|f0:1|c0:b@1|g0:1:32|s0",
        "c19 k_twin mode=twin hist=s0|c0:a|c0:b|f0:1|c0:c@1|r0:1:2|s0|s1|u1:a|x1:b|s1|s0",
    ]


def gen_cases(rng, tier):
    n = 14 if tier == "quick" else 300
    out = []
    for j in range(n):
        h = acct.gen_history(rng, 2, rng.randrange(5, 14), with_folders=(j % 3 != 2), with_clock=True,
                             extra_ops=("g%(d)d:%(f)s:16", "k%(d)d:%(f)s", "z%(d)d:%(f)s"))
        cut = rng.randrange(0, 2 * acct.ROUNDS + 1)
        h = h[:len(h) - cut]                      # some histories end unsynced
        h = [x for x in h if not x.startswith("t:")] if j % 4 == 0 else h
        if j % 5 == 4:
            out.append("c19 w%d mode=twin hist=%s" % (j, "|".join(h)))
        else:
            out.append("c19 g%d side=%s hist=%s" % (j, "server" if j % 2 else "client", "|".join(h)))
    return out


def fields(case):
    t = case.split()
    return t[1], dict(x.split("=", 1) for x in t[2:] if "=" in x)


def split_obs(obs):
    up = next((o for o in obs if o.startswith("upgrade ")), None)
    ukv = dict(x.split("=", 1) for x in up.split()[1:] if "=" in x) if up else {}
    return ukv


ID_RE = re.compile(r"[0-9a-f]{8}")


def oracle(case, obs):
    cid, kv = fields(case)
    fails = []
    if kv.get("mode") == "twin":
        F, B = {}, {}
        for o in obs:
            t = o.split()
            if len(t) >= 4 and t[0] in ("F", "B") and t[2] in ("folder", "log"):
                d = F if t[0] == "F" else B
                if t[2] == "folder" and t[4] == "served":
                    d[(t[1], "folder", t[3])] = " ".join(t[5:])
                elif t[2] == "log":
                    lk = dict(x.split("=", 1) for x in t[4:] if "=" in x)
                    d[(t[1], "log", t[3])] = lk.get("len")
        if not F or not B:
            return [{"oracle": "twin_incomplete", "detail": "one of the twin runs produced no observation"}]
        for k in sorted(set(F) | set(B)):
            if F.get(k) != B.get(k):
                fails.append({"oracle": "backends_differ", "what": k[1],
                              "detail": "%s %s %s: file system %s, database %s" % (k[0], k[1], k[2], F.get(k), B.get(k))})
        resF = [o.split(" res=")[1] for o in obs if o.startswith("F") and " res=" in o]
        resB = [o.split(" res=")[1] for o in obs if o.startswith("B") and " res=" in o]
        if [r.split(":")[0] for r in resF] != [r.split(":")[0] for r in resB]:
            fails.append({"oracle": "backends_differ", "what": "results", "detail": "operation results differ: fs %s db %s" % (resF, resB)})
        return fails
    ukv = split_obs(obs)
    if not ukv:
        return [{"oracle": "no_result", "detail": "no upgrade observation"}]
    side = ukv.get("side", "client")
    if ukv.get("dry_unchanged") != "1":
        fails.append({"oracle": "dry_run_touched_source", "detail": "the dry run changed the source directory"})
    if ukv.get("dry") != "ok" or ukv.get("real") != "ok":
        sysflag = any(h[:1] == "g" and len(h.split(":")) > 2 and h.split(":")[2].isdigit() and int(h.split(":")[2]) & 32
                      for h in kv.get("hist", "").split("|"))
        fails.append({"oracle": "upgrade_failed", "system_flagged_folder": bool(sysflag and "FolderNotFound" in (ukv.get("dry") or "")),
                      "detail": "dry=%s real=%s" % (ukv.get("dry"), ukv.get("real"))})
        return fails
    if ukv.get("reopen") != "ok":
        fails.append({"oracle": "reopen_failed", "detail": "the upgraded directory does not open on the database backend: %s" % ukv.get("reopen")})
        return fails
    ex = next((o for o in obs if o.startswith("extras ")), None)
    if ex:
        ekv = dict(x.split("=", 1) for x in ex.split()[1:] if "=" in x)
        if ekv.get("attachment") not in ("ok", "n/a"):
            fails.append({"oracle": "attachment_lost", "detail": "the attachment readable before the upgrade is %s after it" % ekv.get("attachment")})
        if ekv.get("second_account") not in ("ok", "n/a"):
            fails.append({"oracle": "second_account_lost", "detail": "the second account of the data directory: %s" % ekv.get("second_account")})
    steps, _ = acct.parse(obs)
    hist = [x for x in kv.get("hist", "").split("|") if x]
    n = len(hist)
    if n not in steps or n + 1 not in steps:
        return fails + [{"oracle": "no_result", "detail": "missing before/after observation"}]
    who = "D0" if side == "client" else "SRV"
    b, a = steps[n]["who"].get(who), steps[n + 1]["who"].get(who)
    if not b or not a:
        return fails + [{"oracle": "no_result", "detail": "replica %s not observed" % who}]
    for name in sorted(set(b["logs"]) | set(a["logs"])):
        if b["logs"].get(name) != a["logs"].get(name):
            fails.append({"oracle": "log_not_preserved", "log": name.split(":")[0],
                          "detail": "%s log %s before %s after %s" % (who, name, b["logs"].get(name), a["logs"].get(name))})
    if side == "client":
        for f in sorted(set(b["folders"]) | set(a["folders"])):
            for view in ("served", "reduced", "mirror"):
                x, y = b["folders"].get(f, {}).get(view), a["folders"].get(f, {}).get(view)
                if x != y:
                    fails.append({"oracle": "folder_not_preserved", "view": view,
                                  "detail": "D0 folder %s (%s) before [%s] after [%s]" % (f, view, x, y)})
        def canon_ix(ix):
            # zero counters are kept by a live index and absent from a rebuilt one: same meaning
            return {k: ";".join(sorted(x for x in (v or "").split(";") if x and not x.endswith(":0"))) if k in ("vaults", "kinds", "tags") else v
                    for k, v in (ix or {}).items()}
        if canon_ix(b.get("index")) != canon_ix(a.get("index")):
            fails.append({"oracle": "index_not_preserved", "detail": "search index before %s after %s" % (b.get("index"), a.get("index"))})
    # peers untouched by the upgrade
    for other in steps[n]["who"]:
        if other == who: continue
        ob, oa = steps[n]["who"][other], steps[n + 1]["who"].get(other)
        if oa and ob["logs"] != oa["logs"]:
            fails.append({"oracle": "peer_changed", "detail": "%s changed during the upgrade of %s" % (other, who)})
    # keeps syncing: every later sync succeeds, the server's logs only grow, everything converges at the end
    last = max(steps)
    ctl = {}
    for o in obs:
        t = o.split()
        if len(t) >= 4 and t[0] == "ctl":
            ctl[int(t[1])] = o.split(" res=", 1)[1] if " res=" in o else None
    for st in range(n + 2, last + 1):
        S = steps[st]
        # a sync that also fails in the control run (same history, no upgrade) is the history's doing
        if S["op"] and S["op"].startswith("s") and S["res"] != "ok" and ctl.get(st) == "ok":
            fails.append({"oracle": "sync_after_upgrade", "detail": "step %d %s after the upgrade: %s" % (st, S["op"], S["res"])})
    # the upgraded replica syncs like the un-upgraded one: after every later step every log of every replica has
    # the length it has in the control run (same history and tail, no upgrade); tokens differ between runs (random ids)
    ctl_len = {}
    for o in obs:
        t = o.split()
        if len(t) >= 6 and t[0] == "ctl" and t[3] == "log" and t[5].startswith("len="):
            ctl_len[(int(t[1]), t[2], t[4])] = int(t[5][4:])
    for st in range(n + 2, last + 1):
        for k, W in steps[st]["who"].items():
            for name, (ln, root, toks) in W["logs"].items():
                want = ctl_len.get((st, k, name))
                if want is not None and want != ln:
                    fails.append({"oracle": "differs_from_unupgraded_run", "log": name.split(":")[0],
                                  "detail": "step %d (%s): %s log %s has %d events, %d in the run without upgrade" % (st, steps[st]["op"], k, name, ln, want)})
    # an edit made on the upgraded world reaches the other device (convergence in general is C04's subject)
    E = steps[last]["who"]
    syncs_ok = all(steps[st]["res"] == "ok" for st in range(n + 2, last + 1) if (steps[st]["op"] or "").startswith("s")) and all(v == "ok" for v in ctl.values())
    if syncs_ok and "D0" in E and "D1" in E:
        for f, views in E["D0"]["folders"].items():
            if "Ld=" in views.get("served", "") and f in E["D1"]["folders"]:
                if "Ld=" not in E["D1"]["folders"][f].get("served", ""):
                    fails.append({"oracle": "edit_after_upgrade_not_propagated",
                                  "detail": "secret Ld created after the upgrade is in D0's folder %s but not in D1's after both synced" % f})
    return fails


def model_input(cases, impl):
    out = []
    for c in cases:
        cid, kv = fields(c)
        if kv.get("mode") == "twin":
            out.append("c19 %s" % cid); continue
        obs = impl.get(cid, [])
        ukv = split_obs(obs)
        if ukv.get("reopen") != "ok":
            out.append("c19 %s" % cid); continue
        steps, _ = acct.parse(obs)
        n = len([x for x in kv.get("hist", "").split("|") if x])
        who = "D0" if ukv.get("side", "client") == "client" else "SRV"
        W = steps.get(n, {"who": {}})["who"].get(who)
        if not W:
            out.append("c19 %s" % cid); continue
        out.append("c19 %s %d %s %s" % (cid, n + 1, who, " ".join("%s=%s" % (name, ",".join(v[2])) for name, v in sorted(W["logs"].items()))))
    return out


def impl_projection(obs):
    ukv = split_obs(obs)
    if ukv.get("reopen") != "ok":
        return []
    who = "D0" if ukv.get("side", "client") == "client" else "SRV"
    steps, _ = acct.parse(obs)
    ups = [i for i, o in enumerate(obs) if o.startswith("upgrade ")]
    # the observation right after the upgrade line
    n1 = None
    for o in obs[ups[0] + 1:]:
        t = o.split()
        if t and t[0].isdigit():
            n1 = int(t[0]); break
    if n1 is None: return []
    W = steps[n1]["who"].get(who)
    if not W: return []
    return ["%d %s log %s toks=%s" % (n1, who, name, ",".join(v[2])) for name, v in sorted(W["logs"].items())]


def nontrivial(case, obs):
    cid, kv = fields(case)
    if kv.get("mode") == "twin": return True
    h = kv.get("hist", "")
    return "f" in [x[:1] for x in h.split("|")]


def distinct_key(case):
    return case.split(" ", 2)[2]


def distribution(cases, impl):
    sides, results = {}, {}
    for c in cases:
        cid, kv = fields(c)
        k = kv.get("mode", kv.get("side", "?"))
        sides[k] = sides.get(k, 0) + 1
        ukv = split_obs(impl.get(cid, []))
        if ukv:
            r = "%s/%s/%s" % (ukv.get("dry"), ukv.get("real"), ukv.get("reopen"))
            results[r] = results.get(r, 0) + 1
    return {"kinds": sides, "dry/real/reopen": results}


def shrink(case):
    cid, kv = fields(case)
    h = [x for x in kv.get("hist", "").split("|") if x]
    out = []
    for i in range(len(h)):
        hh = h[:i] + h[i + 1:]
        if kv.get("mode") == "twin":
            out.append("c19 s mode=twin hist=%s" % "|".join(hh))
        else:
            out.append("c19 s side=%s hist=%s" % (kv.get("side", "client"), "|".join(hh)))
    return out


MANIFEST = {
    "category": "proof",
    "text": ("Coq theorem over the import model (every log of the account is found in the shared events table event for event "
             "and in order, next to whatever the table already holds; other logs are untouched), tied to the code by upgrading the "
             "client and server directories of generated real accounts (dry run first: source byte-identical), re-opening them on "
             "the database backend and comparing every log, root, folder view and the search index before/after, then syncing with "
             "un-upgraded peers (no conflict, server logs only grow, convergence); plus twin runs of one history on both backends"),
    "design_ref": "DESIGN.md §4 C19",
    "note": "partial: attachments, preferences and the server list are not populated by the generated histories",
    "technique": "Coq proof (import preserves every log, by induction over the store) + extracted-model correspondence on real upgrades",
}
