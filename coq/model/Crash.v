(* Crash model, byte level: what the open path makes of an event-log file whose tail was cut.
   Transcribes the forward iteration of filesystem/src/formats/stream.rs as load_tree uses it
   (FormatStream::next_forward / read_row_next with data_length_prefix = true, EventLogRecord's
   Decodable) and the identity check + initialisation of FileSystemEventLog::new_*.
   Definitions only. *)
From Coq Require Import List NArith ZArith Bool.
From SosModel Require Import base.Bytes gen.Generated model.Formats.
Import ListNotations.
Local Open Scope N_scope.

(* the fixed 84-byte head of a row, as the iterator reads it: u32 row length, then
   EventLogRecord::decode (time, previous commit, commit), then the u32 data length; the data
   and the trailing length are skipped by seeking to row_pos + row_len + 8 *)
(* seek + read: a position past the end of the file reads nothing (the comparison keeps the extracted
   code from counting up to a position of 2^32 in unary) *)
Definition seek (pos : N) (file : bytes) : bytes := if lenb file <? pos then [] else skipn (N.to_nat pos) file.
Definition p_row : parser (N * bytes) :=
  n <- p_u32 ;; _ <- p_time ;; _ <- p_fixed 32 ;; c <- p_fixed 32 ;; _ <- p_u32 ;; ret (n, c).

(* next_forward: stop only when the position equals the file length exactly; a position past
   the end reads nothing and fails.  Fuel: every row advances the position by at least 8. *)
Fixpoint scan (fuel : nat) (file : bytes) (pos : N) (acc : list bytes) : option (list bytes) :=
  match fuel with
  | O => None
  | S k =>
    if pos =? lenb file then Some (rev acc)
    else match p_row (seek pos file) with
         | None => None
         | Some ((n, c), _) => scan k file (pos + n + 8) (c :: acc)
         end
  end.

Fixpoint beq (a b : bytes) : bool :=
  match a, b with
  | [], [] => true
  | x :: a', y :: b' => (x =? y) && beq a' b'
  | _, _ => false
  end.

(* new_folder / new_account / new_device / new_file followed by load_tree:
   an empty file is initialised (identity written); otherwise the 4 identity bytes are checked;
   [hdr] is 4 for folder logs and 6 (identity + u16 version) for the others; a file no longer
   than the header has no rows.  Result: the commits of the rows, in order, or None (error). *)
Definition open_log (ident : bytes) (hdr : N) (file : bytes) : option (list bytes) :=
  if lenb file =? 0 then Some []
  else if lenb file <? 4 then None
  else if negb (beq (firstn 4 file) ident) then None
  else if lenb file <=? hdr then Some []
  else scan (S (length file)) file hdr [].

(* the four kinds of log file: identity bytes from core/src/constants.rs (gen/Generated.v);
   account, device and file logs carry a u16 encoding version after the identity *)
Inductive log_kind := KFolder | KAccount | KDevice | KFile.
Definition open_kind (k : log_kind) (file : bytes) : option (list bytes) :=
  match k with
  | KFolder => open_log FOLDER_EVENT_LOG_IDENTITY 4 file
  | KAccount => open_log ACCOUNT_EVENT_LOG_IDENTITY 6 file
  | KDevice => open_log DEVICE_EVENT_LOG_IDENTITY 6 file
  | KFile => open_log FILE_EVENT_LOG_IDENTITY 6 file
  end.

(* the reverse iteration (stream.rs next_back / read_row_next_back): the u32 before the position is
   the row length; the row starts row_len + 8 bytes earlier; its time / previous commit / commit /
   data length are read from row_start + 4.  The iteration ends when the position reaches the
   header.  (The implementation subtracts without a check: a file too short for the length it
   claims is an error here.) *)
Definition p_row_tail : parser bytes :=
  _ <- p_time ;; _ <- p_fixed 32 ;; c <- p_fixed 32 ;; _ <- p_u32 ;; ret c.
Fixpoint scan_back (fuel : nat) (file : bytes) (hdr pos : N) (acc : list bytes) : option (list bytes) :=
  match fuel with
  | O => None
  | S k =>
    if pos =? hdr then Some (rev acc)
    else if pos <? hdr + 4 then None
    else match p_u32 (seek (pos - 4) file) with
         | None => None
         | Some (n, _) =>
           if pos <? hdr + n + 8 then None
           else match p_row_tail (seek (pos - (n + 8) + 4) file) with
                | None => None
                | Some (c, _) => scan_back k file hdr (pos - (n + 8)) (c :: acc)
                end
         end
  end.
(* iter(true): nothing to iterate when the file is no longer than the header *)
Definition open_log_rev (hdr : N) (file : bytes) : option (list bytes) :=
  if lenb file <=? hdr then Some [] else scan_back (S (length file)) file hdr (lenb file) [].

Definition open_kind_rev (k : log_kind) (file : bytes) : option (list bytes) :=
  match k with KFolder => open_log_rev 4 file | _ => open_log_rev 6 file end.

Definition flat (rs : list record) : bytes := flat_map e_record rs.

(* the records wholly contained in the first c bytes of flat ns; None when c falls inside one *)
Fixpoint cut_records (ns : list record) (c : nat) : option (list record) :=
  match ns with
  | [] => Some []
  | n :: ns' =>
    if Nat.eqb c 0 then Some []
    else if Nat.ltb c (length (e_record n)) then None
    else match cut_records ns' (c - length (e_record n)) with
         | Some l => Some (n :: l)
         | None => None
         end
  end.

(* ---------------------------------------------------------------------------------------
   Crash model, step level: one folder as the file-system backend stores it — the rows of the
   vault file, in file order, and the folder's event log — and the primitive steps of the vault
   writer (filesystem/src/vault_writer.rs) and of Folder::{create,update,delete}_secret
   (backend/src/folder.rs: vault first, then the event). *)
Section Steps.
Variables id body : Type.
Variable id_eqb : id -> id -> bool.

Inductive ev := EvC (i : id) (b : body) | EvU (i : id) (b : body) | EvD (i : id).
Record fstate := mkF { rows : list (id * body); flog : list ev }.

Inductive pstep :=
| VTruncate (n : nat)              (* set_len(head.end): keep the first n rows *)
| VAppend (l : list (id * body))   (* write_all at the end of the file *)
| LAppend (e : ev).                (* events.apply(&[event]) *)

Definition do_step (s : fstate) (p : pstep) : fstate :=
  match p with
  | VTruncate n => mkF (firstn n (rows s)) (flog s)
  | VAppend l => mkF (rows s ++ l) (flog s)
  | LAppend e => mkF (rows s) (flog s ++ [e])
  end.

(* position of a row *)
Fixpoint find_row (i : id) (l : list (id * body)) : option nat :=
  match l with
  | [] => None
  | (j, _) :: r => if id_eqb j i then Some 0%nat else option_map S (find_row i r)
  end.

(* the step lists *)
Definition steps_create (i : id) (b : body) : list pstep := [VAppend [(i, b)]; LAppend (EvC i b)].
Definition steps_update (s : fstate) (i : id) (b : body) : list pstep :=
  match find_row i (rows s) with
  | None => []
  | Some n => [VTruncate n; VAppend [(i, b)]; VAppend (skipn (S n) (rows s)); LAppend (EvU i b)]
  end.
Definition steps_delete (s : fstate) (i : id) : list pstep :=
  match find_row i (rows s) with
  | None => []
  | Some n => [VTruncate n; VAppend (skipn (S n) (rows s)); LAppend (EvD i)]
  end.

(* replay of the log (the reducer, secrets only): the map it yields *)
Fixpoint lookup (i : id) (l : list (id * body)) : option body :=
  match l with [] => None | (j, b) :: r => if id_eqb j i then Some b else lookup i r end.
Definition apply_ev (m : list (id * body)) (e : ev) : list (id * body) :=
  match e with
  | EvC i b => m ++ [(i, b)]
  | EvU i b => map (fun p => if id_eqb (fst p) i then (i, b) else p) m
  | EvD i => filter (fun p => negb (id_eqb (fst p) i)) m
  end.
Definition replay (l : list ev) : list (id * body) := fold_left apply_ev l [].

(* the crash states of an operation: the state after every prefix of its step list *)
Definition run (s : fstate) (ps : list pstep) : fstate := fold_left do_step ps s.
Definition crash_states (s : fstate) (ps : list pstep) : list fstate :=
  map (fun k => run s (firstn k ps)) (seq 0 (S (length ps))).
End Steps.
