//! C17: external file blobs are content-addressed and follow their secret.
//! (a) "c17 <id> mode=hist cbe=fs|db ops=<op>|<op>|..."   one device, file-secret operations:
//!       fc:<slot>:<cid>[@<folder>]  create a file secret from a file with content <cid>
//!       fu:<slot>:<cid>            replace the content        fm:<slot>:<folder>  move to folder
//!       fx:<slot>                  delete the secret          ff:<n>  create folder n   fk:<n>  delete folder n
//!     after every op:
//!       <id> <n> op=<op> res=<..>
//!       <id> <n> blobs <folder>/<slot|?>/<name8>:<hash ok 0|1>:<decrypts to cid|ERR> ...      (what is on disk)
//!       <id> <n> reduced <folder>/<slot|?>/<name8> ...                                       (FileReducer over the file log)
//!      !<id> <n> events <C|M|D>:<folder>/<slot>/<name8>[>folder/slot] ...                       (the file log, decoded)
//! (c) "c17 <id> mode=net ops=<op>|..."   two real network accounts (devices of one account) and the real server on
//!     loopback, file transfers running: the ops of (a) on device 0, plus s1 = device 1 syncs; after every op, once
//!     the transfers have settled:   <id> <n> net <D0|SRV|D1> disk=<blobs on disk> canon=<replay of that replica's file log>
//! (b) "c17 <id> mode=upload sbe=fs|db bodies=<kind,kind,..>"   the real HTTP server: PUT of a blob
//!     under the name sha256(correct) with body kind in correct|altered|truncated|empty|extended|other:
//!       <id> up <k> body=<kind> status=<code> final=<absent|ok|BADHASH> leftovers=<names of *.upload files>
use crate::acct::World;
use crate::sync::Gate;
use crate::util::{kv, rt};
use futures::{pin_mut, StreamExt};
use sha2::{Digest, Sha256};
use sos_account::Account;
use sos_client_storage::{AccessOptions, NewFolderOptions};
use sos_core::events::{EventLog, FileEvent};
use sos_core::{ExternalFile, SecretId, VaultId};
use sos_external_files::list_external_files;
use sos_reducers::FileReducer;
use sos_sync::StorageEventLogs;
use sos_vault::secret::{Secret, SecretMeta};
use std::collections::HashMap;
use std::io::Write;
use std::path::PathBuf;

fn content(cid: &str) -> Vec<u8> {
    // distinct contents of different sizes
    let n: usize = 50 + cid.bytes().map(|b| b as usize).sum::<usize>() % 3000;
    let mut v = format!("file-content-{cid}-").into_bytes();
    while v.len() < n {
        v.extend_from_slice(cid.as_bytes());
    }
    v
}

pub fn run(text: &str, cases_path: &str, out: &mut impl Write) {
    let rt = rt();
    let base = std::path::Path::new(cases_path).parent().unwrap().join("data-c17");
    for line in text.lines() {
        let toks: Vec<&str> = line.split_whitespace().collect();
        if toks.len() < 2 || toks[0].starts_with('#') {
            continue;
        }
        let id = toks[1].to_string();
        writeln!(out, "{id} !begin").unwrap();
        out.flush().unwrap();
        if kv(&toks, "mode") == Some("upload") {
            crate::c11::upload_case(&id, &toks, &base, out);
            continue;
        }
        if kv(&toks, "mode") == Some("net") {
            net_case(&rt, &id, &toks, &base, out);
            continue;
        }
        let cdb = kv(&toks, "cbe") == Some("db");
        let ops: Vec<String> = kv(&toks, "ops").unwrap_or("").split('|').filter(|s| !s.is_empty()).map(|s| s.to_string()).collect();
        rt.block_on(async {
            let mut w = World::new(base.join(&id), cdb, false, 1, Gate::default()).await;
            let acct = w.devs[0].bridge.account.clone();
            let default = { *acct.lock().await.default_folder().await.unwrap().id() };
            let mut folders: HashMap<String, VaultId> = HashMap::new();
            folders.insert("0".into(), default);
            // slot -> (secret id, folder, current content id)
            let mut slots: HashMap<String, (SecretId, VaultId, String)> = HashMap::new();
            let tmp = w.base.join("inputs");
            std::fs::create_dir_all(&tmp).unwrap();
            for (n, op) in ops.iter().enumerate() {
                let n = n + 1;
                let parts: Vec<&str> = op.split(':').collect();
                let mut a = acct.lock().await;
                let res: String = match parts[0] {
                    "fc" => {
                        let (cid, folder) = match parts.get(2).unwrap_or(&"x").split_once('@') {
                            Some((c, f)) => (c.to_string(), f.to_string()),
                            None => (parts.get(2).unwrap_or(&"x").to_string(), "0".to_string()),
                        };
                        match folders.get(&folder).copied() {
                            _ if slots.contains_key(parts[1]) => "slotbusy".into(),
                            None => "nofolder".into(),
                            Some(fid) => {
                                let p: PathBuf = tmp.join(format!("in-{n}.txt"));
                                std::fs::write(&p, content(&cid)).unwrap();
                                match Secret::try_from(p.clone()) {
                                    Ok(secret) => {
                                        let meta = SecretMeta::new(format!("F{}", parts[1]), secret.kind());
                                        match a.create_secret(meta, secret, AccessOptions { folder: Some(fid), ..Default::default() }).await {
                                            Ok(r) => {
                                                slots.insert(parts[1].to_string(), (r.id, fid, cid));
                                                "ok".into()
                                            }
                                            Err(e) => format!("err:{}", format!("{e:?}").chars().filter(|c| c.is_ascii_alphanumeric()).take(40).collect::<String>()),
                                        }
                                    }
                                    Err(e) => format!("err:{e:?}").replace(' ', "_"),
                                }
                            }
                        }
                    }
                    "fu" => match slots.get(parts[1]).cloned() {
                        None => "noslot".into(),
                        Some((sid, fid, _)) => {
                            let cid = parts.get(2).unwrap_or(&"y").to_string();
                            let p: PathBuf = tmp.join(format!("in-{n}.txt"));
                            std::fs::write(&p, content(&cid)).unwrap();
                            let meta = SecretMeta::new(format!("F{}", parts[1]), sos_vault::secret::SecretType::File);
                            match a.update_file(&sid, meta, &p, AccessOptions { folder: Some(fid), ..Default::default() }).await {
                                Ok(_) => {
                                    slots.insert(parts[1].to_string(), (sid, fid, cid));
                                    "ok".into()
                                }
                                Err(e) => format!("err:{}", format!("{e:?}").chars().filter(|c| c.is_ascii_alphanumeric()).take(40).collect::<String>()),
                            }
                        }
                    },
                    "fm" => match (slots.get(parts[1]).cloned(), folders.get(*parts.get(2).unwrap_or(&"0")).copied()) {
                        (Some((sid, from, cid)), Some(to)) if from != to => match a.move_secret(&sid, &from, &to, Default::default()).await {
                            Ok(mv) => {
                                slots.insert(parts[1].to_string(), (mv.id, to, cid));
                                "ok".into()
                            }
                            Err(e) => format!("err:{}", format!("{e:?}").chars().filter(|c| c.is_ascii_alphanumeric()).take(40).collect::<String>()),
                        },
                        _ => "skip".into(),
                    },
                    "fx" => match slots.remove(parts[1]) {
                        None => "noslot".into(),
                        Some((sid, fid, _)) => match a.delete_secret(&sid, AccessOptions { folder: Some(fid), ..Default::default() }).await {
                            Ok(_) => "ok".into(),
                            Err(e) => format!("err:{}", format!("{e:?}").chars().filter(|c| c.is_ascii_alphanumeric()).take(40).collect::<String>()),
                        },
                    },
                    "ff" => match a.create_folder(NewFolderOptions::new(format!("folder{}", parts[1]))).await {
                        Ok(f) => {
                            folders.insert(parts[1].to_string(), *f.folder.id());
                            "ok".into()
                        }
                        Err(e) => format!("err:{e:?}").replace(' ', "_"),
                    },
                    "fk" => match folders.remove(parts[1]) {
                        None => "nofolder".into(),
                        Some(fid) => {
                            slots.retain(|_, v| v.1 != fid);
                            match a.delete_folder(&fid).await {
                                Ok(_) => "ok".into(),
                                Err(e) => format!("err:{}", format!("{e:?}").chars().filter(|c| c.is_ascii_alphanumeric()).take(40).collect::<String>()),
                            }
                        }
                    },
                    _ => "badop".into(),
                };
                writeln!(out, "{id} {n} op={op} res={res}").unwrap();
                // names for printing
                let fname = |f: &VaultId| folders.iter().find(|(_, v)| *v == f).map(|(k, _)| format!("f{k}")).unwrap_or_else(|| format!("f?{}", &f.to_string()[..4]));
                let sname = |s: &SecretId| slots.iter().find(|(_, v)| &v.0 == s).map(|(k, _)| k.clone()).unwrap_or_else(|| format!("?{}", &s.to_string()[..4]));
                let show = |e: &ExternalFile| {
                    format!("{}/{}/{}", fname(e.vault_id()), sname(e.secret_id()), &e.file_name().to_string()[..8])
                };
                // what is on disk
                let paths = a.paths();
                let on_disk = list_external_files(&paths).await.unwrap_or_default();
                let mut blobs: Vec<String> = vec![];
                for e in on_disk.iter() {
                    let p = paths.into_file_path(e);
                    let bytes = std::fs::read(&p).unwrap_or_default();
                    let hash_ok = Sha256::digest(&bytes).as_slice() == e.file_name().as_ref();
                    let dec = match a.download_file(e.vault_id(), e.secret_id(), e.file_name()).await {
                        Ok(buf) => {
                            // which content is it?
                            let known: Vec<String> = slots.values().map(|v| v.2.clone()).collect();
                            known.iter().find(|c| content(c) == buf).cloned().unwrap_or_else(|| format!("other{}", buf.len()))
                        }
                        Err(_) => "ERR".to_string(),
                    };
                    blobs.push(format!("{}:{}:{}", show(e), hash_ok as u8, dec));
                }
                blobs.sort();
                writeln!(out, "{id} {n} blobs {}", blobs.join(" ")).unwrap();
                // replay of the file log
                if let Ok(log) = a.file_log().await {
                    let log = log.read().await;
                    let mut reduced: Vec<String> = FileReducer::new(&*log).reduce(None).await.map(|s| s.iter().map(|e| show(e)).collect()).unwrap_or_else(|_| vec!["ERR".into()]);
                    reduced.sort();
                    writeln!(out, "{id} {n} reduced {}", reduced.join(" ")).unwrap();
                    let mut evs: Vec<String> = vec![];
                    let stream = log.event_stream(false).await;
                    pin_mut!(stream);
                    while let Some(Ok((_, ev))) = stream.next().await {
                        let sp = |p: &sos_core::SecretPath, nm: &sos_core::ExternalFileName| format!("{}/{}/{}", fname(&p.0), sname(&p.1), &nm.to_string()[..8]);
                        match &ev {
                            FileEvent::CreateFile(o, nm) => evs.push(format!("C:{}", sp(o, nm))),
                            FileEvent::DeleteFile(o, nm) => evs.push(format!("D:{}", sp(o, nm))),
                            FileEvent::MoveFile { name, from, dest } => evs.push(format!("M:{}>{}", sp(from, name), sp(dest, name))),
                            _ => evs.push("?".into()),
                        }
                    }
                    writeln!(out, "{id} !{n} events {}", evs.join(" ")).unwrap();
                    // partial replays (what a device merging an incoming tail of the file log computes):
                    // from every commit of the log, after every operation
                    {
                        let commits: Vec<[u8; 32]> = log.tree().leaves().unwrap_or_default();
                        for (k, c) in commits.iter().enumerate() {
                            let from = sos_core::commit::CommitHash(*c);
                            let mut part: Vec<String> = FileReducer::new(&*log).reduce(Some(&from)).await.map(|s| s.iter().map(|e| show(e)).collect()).unwrap_or_else(|_| vec!["ERR".into()]);
                            part.sort();
                            writeln!(out, "{id} {n} tail {k} {}", part.join(" ")).unwrap();
                        }
                    }
                }
                // expectation from the harness' own bookkeeping: one blob per live file secret, decrypting to its content
                let mut want: Vec<String> = slots.iter().map(|(k, v)| format!("{}/{}:{}", fname(&v.1), k, v.2)).collect();
                want.sort();
                writeln!(out, "{id} {n} expected {}", want.join(" ")).unwrap();
            }
            crate::acct::set_clock(0);
        });
        let _ = std::fs::remove_dir_all(base.join(&id));
    }
}

/// (c) two devices + server with the file transfer queues running
fn net_case(rt: &tokio::runtime::Runtime, id: &str, toks: &[&str], base: &std::path::Path, out: &mut impl Write) {
    use sos_protocol::AccountSync;
    let ops: Vec<String> = kv(toks, "ops").unwrap_or("").split('|').filter(|s| !s.is_empty()).map(|s| s.to_string()).collect();
    let home = std::env::current_dir().ok();
    // sos_test_utils::setup puts its directories under <cwd>/../../target
    let base: PathBuf = if base.is_absolute() { base.to_path_buf() } else { std::env::current_dir().unwrap().join(base) };
    let base = base.as_path();
    let cwd = base.join(id).join("x").join("y");
    std::fs::create_dir_all(&cwd).unwrap();
    let _ = std::env::set_current_dir(&cwd);
    let mut lines: Vec<String> = vec![];
    rt.block_on(async {
        // a configuration loaded from a file, like the server binary does
        let cfg_file = cwd.join("config.toml");
        std::fs::write(&cfg_file, "[storage]\npath = \".\"\n").unwrap();
        let Ok(config) = sos_server::ServerConfig::load(&cfg_file).await else {
            lines.push(format!("{id} setup-failed config"));
            return;
        };
        std::env::remove_var("SOS_TEST_SERVER_DB");
        let server = match tokio::time::timeout(std::time::Duration::from_secs(30), sos_test_utils::spawn_with_config(id, None, None, Some(config))).await {
            Ok(Ok(s)) => s,
            other => {
                lines.push(format!("{id} setup-failed spawn {:?}", other.map(|r| r.map(|_| ()).map_err(|e| format!("{e:?}")))));
                return;
            }
        };
        let Ok(mut up) = sos_test_utils::simulate_device(id, 2, Some(&server)).await else {
            lines.push(format!("{id} setup-failed device0"));
            return;
        };
        let Ok(mut down) = up.connect(1, None).await else {
            lines.push(format!("{id} setup-failed device1"));
            return;
        };
        let account_id = *up.owner.account_id();
        let server_paths = server.paths(&account_id);
        let default = up.default_folder_id;
        let mut folders: HashMap<String, VaultId> = HashMap::new();
        folders.insert("0".into(), default);
        let mut slots: HashMap<String, (SecretId, VaultId, String)> = HashMap::new();
        let tmp = cwd.join("inputs");
        std::fs::create_dir_all(&tmp).unwrap();
        let short = |e: &dyn std::fmt::Debug| format!("err:{}", format!("{e:?}").chars().filter(|c| c.is_ascii_alphanumeric()).take(40).collect::<String>());
        for (n, op) in ops.iter().enumerate() {
            let n = n + 1;
            let parts: Vec<&str> = op.split(':').collect();
            let a = &mut up.owner;
            let res: String = match parts[0] {
                "fc" => {
                    let (cid, folder) = match parts.get(2).unwrap_or(&"x").split_once('@') {
                        Some((c, f)) => (c.to_string(), f.to_string()),
                        None => (parts.get(2).unwrap_or(&"x").to_string(), "0".to_string()),
                    };
                    match folders.get(&folder).copied() {
                        _ if slots.contains_key(parts[1]) => "slotbusy".into(),
                        None => "nofolder".into(),
                        Some(fid) => {
                            let p: PathBuf = tmp.join(format!("in-{n}.txt"));
                            std::fs::write(&p, content(&cid)).unwrap();
                            match Secret::try_from(p.clone()) {
                                Ok(secret) => {
                                    let meta = SecretMeta::new(format!("F{}", parts[1]), secret.kind());
                                    match a.create_secret(meta, secret, AccessOptions { folder: Some(fid), ..Default::default() }).await {
                                        Ok(r) => {
                                            slots.insert(parts[1].to_string(), (r.id, fid, cid));
                                            "ok".into()
                                        }
                                        Err(e) => short(&e),
                                    }
                                }
                                Err(e) => short(&e),
                            }
                        }
                    }
                }
                "fu" => match slots.get(parts[1]).cloned() {
                    None => "noslot".into(),
                    Some((sid, fid, _)) => {
                        let cid = parts.get(2).unwrap_or(&"y").to_string();
                        let p: PathBuf = tmp.join(format!("in-{n}.txt"));
                        std::fs::write(&p, content(&cid)).unwrap();
                        let meta = SecretMeta::new(format!("F{}", parts[1]), sos_vault::secret::SecretType::File);
                        match a.update_file(&sid, meta, &p, AccessOptions { folder: Some(fid), ..Default::default() }).await {
                            Ok(_) => {
                                slots.insert(parts[1].to_string(), (sid, fid, cid));
                                "ok".into()
                            }
                            Err(e) => short(&e),
                        }
                    }
                },
                "fm" => match (slots.get(parts[1]).cloned(), folders.get(*parts.get(2).unwrap_or(&"0")).copied()) {
                    (Some((sid, from, cid)), Some(to)) if from != to => match a.move_secret(&sid, &from, &to, Default::default()).await {
                        Ok(mv) => {
                            slots.insert(parts[1].to_string(), (mv.id, to, cid));
                            "ok".into()
                        }
                        Err(e) => short(&e),
                    },
                    _ => "skip".into(),
                },
                "fx" => match slots.remove(parts[1]) {
                    None => "noslot".into(),
                    Some((sid, fid, _)) => match a.delete_secret(&sid, AccessOptions { folder: Some(fid), ..Default::default() }).await {
                        Ok(_) => "ok".into(),
                        Err(e) => short(&e),
                    },
                },
                "ff" => match a.create_folder(NewFolderOptions::new(format!("folder{}", parts[1]))).await {
                    Ok(f) => {
                        folders.insert(parts[1].to_string(), *f.folder.id());
                        "ok".into()
                    }
                    Err(e) => short(&e),
                },
                "fk" => match folders.remove(parts[1]) {
                    None => "nofolder".into(),
                    Some(fid) => {
                        slots.retain(|_, v| v.1 != fid);
                        match a.delete_folder(&fid).await {
                            Ok(_) => "ok".into(),
                            Err(e) => short(&e),
                        }
                    }
                },
                "s0" => if up.owner.sync().await.first_error().is_none() { "ok".into() } else { "err:sync".into() },
                "s1" => if down.owner.sync().await.first_error().is_none() { "ok".into() } else { "err:sync".into() },
                _ => "badop".into(),
            };
            lines.push(format!("{id} {n} op={op} res={res}"));
            let fname = |f: &VaultId| folders.iter().find(|(_, v)| *v == f).map(|(k, _)| format!("f{k}")).unwrap_or_else(|| format!("f?{}", &f.to_string()[..4]));
            let sname = |s: &SecretId| slots.iter().find(|(_, v)| &v.0 == s).map(|(k, _)| k.clone()).unwrap_or_else(|| format!("?{}", &s.to_string()[..4]));
            let show = |e: &ExternalFile| format!("{}/{}/{}", fname(e.vault_id()), sname(e.secret_id()), &e.file_name().to_string()[..8]);
            let listing = |set: Vec<String>| { let mut v = set; v.sort(); v.join(",") };
            // let the transfer queues settle: the three listings unchanged for 1.2 s (at most 12 s)
            let start = std::time::Instant::now();
            let mut last: Option<(String, String, String)> = None;
            let mut stable_since = std::time::Instant::now();
            loop {
                let d0 = listing(list_external_files(&up.owner.paths()).await.unwrap_or_default().iter().map(|e| show(e)).collect());
                let sv = listing(list_external_files(&server_paths).await.unwrap_or_default().iter().map(|e| show(e)).collect());
                let d1 = listing(list_external_files(&down.owner.paths()).await.unwrap_or_default().iter().map(|e| show(e)).collect());
                let cur = (d0, sv, d1);
                if last.as_ref() != Some(&cur) {
                    last = Some(cur);
                    stable_since = std::time::Instant::now();
                }
                if (stable_since.elapsed().as_millis() > 1200 && start.elapsed().as_millis() > 1500) || start.elapsed().as_secs() > 12 {
                    break;
                }
                tokio::time::sleep(std::time::Duration::from_millis(150)).await;
            }
            let (d0, sv, d1) = last.unwrap();
            let c0 = listing(up.owner.canonical_files().await.map(|s| s.iter().map(|e| show(e)).collect()).unwrap_or_else(|_| vec!["ERR".into()]));
            let c1 = listing(down.owner.canonical_files().await.map(|s| s.iter().map(|e| show(e)).collect()).unwrap_or_else(|_| vec!["ERR".into()]));
            lines.push(format!("{id} {n} net D0 disk={d0} canon={c0}"));
            lines.push(format!("{id} {n} net SRV disk={sv} canon={c0}"));
            lines.push(format!("{id} {n} net D1 disk={d1} canon={c1}"));
        }
        let _ = down.owner.sign_out().await;
        let _ = up.owner.sign_out().await;
        drop(server);
    });
    for l in lines {
        writeln!(out, "{l}").unwrap();
    }
    if let Some(h) = home {
        let _ = std::env::set_current_dir(h);
    }
    let _ = std::fs::remove_dir_all(base.join(id));
}
