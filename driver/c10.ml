(* C10: the idealised crypto model has no executable primitives; the sweeps are decided on the implementation *)
let run_line (line : string) : unit =
  match String.split_on_char ' ' line |> List.filter (fun s -> s <> "") with
  | _ :: id :: _ -> Printf.printf "%s unmodelled\n" id
  | _ -> ()
