(* Proofs about model/EventLog.v *)
From Coq Require Import List NArith Bool Lia Arith.
From SosModel Require Import model.Merkle model.EventLog proofs.Merkle_Lemmas.
Import ListNotations.

Section EventLogLemmas.
Variable hash : Type.
Variable hash_eqb : hash -> hash -> bool.
Hypothesis hash_eqb_spec : forall a b, hash_eqb a b = true <-> a = b.
Variable H2 : hash -> hash -> hash.
Variables tm dat : Type.

Notation erec := (@erec hash tm dat).
Notation elog := (@elog hash tm dat).
Notation log_apply := (log_apply hash tm dat).
Notation log_reopen := (log_reopen hash tm dat).
Notation log_rewind := (log_rewind hash hash_eqb tm dat).
Notation scan := (scan hash hash_eqb tm dat).
Notation log_patch_checked := (log_patch_checked hash hash_eqb H2 tm dat).
Notation log_replace_all := (log_replace_all hash hash_eqb H2 tm dat).
Notation rewind_and_patch := (rewind_and_patch hash hash_eqb H2 tm dat).

(* the invariant every property of C06 rests on: memory tree = commits of stored records *)
Definition Inv (l : elog) : Prop := l_tree l = map er_commit (l_recs l).

Lemma inv_empty : Inv (empty_log hash tm dat).
Proof. reflexivity. Qed.

Lemma apply_inv l rs : Inv l -> Inv (log_apply l rs).
Proof. unfold Inv, EventLog.log_apply. cbn [l_tree l_recs]. intros ->. rewrite map_app. reflexivity. Qed.

Lemma apply_recs l rs : l_recs (log_apply l rs) = l_recs l ++ rs.
Proof. reflexivity. Qed.

Lemma apply_nil l : Inv l -> log_apply l [] = l.
Proof.
  destruct l as [r t]. unfold EventLog.log_apply. cbn [l_recs l_tree map]. rewrite !app_nil_r. reflexivity.
Qed.

Lemma reopen_inv l : Inv (log_reopen l).
Proof. reflexivity. Qed.

(* re-opening from storage yields exactly the in-memory state *)
Lemma reopen_same l : Inv l -> log_reopen l = l.
Proof. destruct l as [r t]. unfold Inv, EventLog.log_reopen. cbn [l_tree l_recs]. intros ->. reflexivity. Qed.

Lemma firstn_app_exact (A : Type) (a b : list A) n : n = length a -> firstn n (a ++ b) = a.
Proof. intros ->. rewrite firstn_app, Nat.sub_diag, firstn_all. cbn [firstn]. apply app_nil_r. Qed.

(* ---- rewind ---- *)
Lemma scan_spec c : forall rrev acc keptrev removed,
  scan c rrev acc = Some (keptrev, removed) ->
  exists popped r rest,
    removed = acc ++ popped /\ rrev = popped ++ keptrev /\ keptrev = r :: rest /\
    er_commit r = c /\ Forall (fun x => er_commit x <> c) popped.
Proof.
  induction rrev as [|x rrev IH]; intros acc keptrev removed H; cbn [EventLog.scan] in H; [discriminate|].
  destruct (hash_eqb (er_commit x) c) eqn:E.
  - injection H as <- <-. exists [], x, rrev. rewrite app_nil_r. cbn [app].
    repeat split; try reflexivity. + apply hash_eqb_spec. exact E. + constructor.
  - apply IH in H. destruct H as (popped & r & rest & Hrem & Hrr & Hk & Hc & Hall).
    exists (x :: popped), r, rest. repeat split; try assumption.
    + rewrite Hrem, <- app_assoc. reflexivity.
    + rewrite Hrr. reflexivity.
    + constructor; [|exact Hall]. intro Hx. apply hash_eqb_spec in Hx. congruence.
Qed.

Theorem rewind_ok l c l' removed : Inv l -> log_rewind l c = RwOk l' removed ->
  l_recs l = l_recs l' ++ removed /\ Inv l' /\
  (exists r, last (l_recs l') r = r /\ In r (l_recs l') /\ er_commit r = c) /\
  Forall (fun x => er_commit x <> c) removed.
Proof.
  intros Hinv H. unfold EventLog.log_rewind in H.
  destruct (scan c (rev (l_recs l)) []) as [[keptrev rem]|] eqn:Es; [|discriminate].
  destruct (Nat.ltb (length rem) (length (l_tree l))) eqn:El; [|discriminate].
  injection H as <- <-. cbn [l_recs l_tree].
  apply scan_spec in Es. destruct Es as (popped & r & rest & Hrem & Hrr & Hk & Hc & Hall).
  cbn [app] in Hrem. subst rem.
  assert (l_recs l = rev keptrev ++ rev popped) as Hrecs.
  { rewrite <- (rev_involutive (l_recs l)), Hrr, rev_app_distr. reflexivity. }
  split; [exact Hrecs|]. split; [|split].
  - unfold Inv in *. cbn [l_tree l_recs]. rewrite Hinv, Hrecs, map_app.
    apply firstn_app_exact. rewrite app_length, !map_length, !rev_length. lia.
  - exists r. subst keptrev. cbn [rev]. rewrite last_last. repeat split; [|exact Hc].
    apply in_or_app. right. left. reflexivity.
  - apply Forall_rev. exact Hall.
Qed.

(* re-applying the returned records undoes the rewind exactly: rollback of a refused merge *)
Theorem rewind_rollback l c l' removed : Inv l -> log_rewind l c = RwOk l' removed ->
  log_apply l' removed = l.
Proof.
  intros Hinv H. destruct (rewind_ok l c l' removed Hinv H) as (Hrecs & Hinv' & _ & _).
  destruct l as [r t]. destruct l' as [r' t']. unfold Inv, EventLog.log_apply in *.
  cbn [l_recs l_tree] in *. subst t t'. rewrite <- map_app, <- Hrecs. reflexivity.
Qed.

(* ---- checked patches ---- *)
Theorem patch_checked_success_iff l p rs l' :
  log_patch_checked l p rs = PcSuccess l' <->
  (tree_compare hash hash_eqb H2 (l_tree l) p = Some CmpEqual /\ l' = log_apply l rs).
Proof.
  unfold EventLog.log_patch_checked.
  destruct (tree_compare hash hash_eqb H2 (l_tree l) p) as [[|ix|]|]; split; intro H;
    try discriminate; try (destruct H as [H _]; discriminate).
  - injection H as <-. split; reflexivity.
  - destruct H as [_ ->]. reflexivity.
Qed.

(* with C08: a patch is applied only if the sender's leaves are the log's leaves *)
Theorem patch_checked_only_on_same_head l other p rs l' :
  l_tree l <> [] -> other <> [] -> head hash H2 other = Some p ->
  log_patch_checked l p rs = PcSuccess l' ->
  l_tree l = other \/ Collision hash H2 \/ Confusion hash H2 (l_tree l) other.
Proof.
  intros H1 H2' Hp H. apply patch_checked_success_iff in H. destruct H as [Hc _].
  apply (equal_sound hash hash_eqb hash_eqb_spec H2 (l_tree l) other p H1 H2' Hp Hc).
Qed.

Theorem patch_checked_same_head_applies l p rs :
  l_tree l <> [] -> head hash H2 (l_tree l) = Some p ->
  log_patch_checked l p rs = PcSuccess (log_apply l rs).
Proof.
  intros H1 Hp. apply patch_checked_success_iff. split; [|reflexivity].
  apply (equal_complete hash hash_eqb hash_eqb_spec H2 (l_tree l) p H1 Hp).
Qed.

Theorem patch_checked_inv l p rs l' : Inv l -> log_patch_checked l p rs = PcSuccess l' -> Inv l'.
Proof. intros Hi H. apply patch_checked_success_iff in H. destruct H as [_ ->]. apply apply_inv. exact Hi. Qed.

(* ---- replace all ---- *)
Theorem replace_all_ok l ckpt rs l' : log_replace_all l ckpt rs = RaOk l' ->
  l_recs l' = rs /\ Inv l' /\ rs <> [].
Proof.
  unfold EventLog.log_replace_all.
  destruct (head hash H2 (map er_commit rs)) as [computed|] eqn:Eh; [|discriminate].
  destruct (proof_eqb hash hash_eqb computed ckpt); [|discriminate].
  intro H. injection H as <-. repeat split. intros ->. discriminate.
Qed.

(* ---- rewind + checked patch with rollback (server event_patch, client rewind_local) ---- *)
Theorem rewind_and_patch_refused_unchanged l c p rs l' :
  Inv l -> rewind_and_patch l c p rs = RpDone l' false -> l' = l.
Proof.
  intros Hinv H. unfold EventLog.rewind_and_patch in H.
  destruct (log_rewind l c) as [l1 removed| |] eqn:Er; try discriminate.
  destruct (log_patch_checked l1 p rs) as [l2|cf|] eqn:Ep; try discriminate.
  injection H as <-. apply (rewind_rollback l c l1 removed Hinv Er).
Qed.

Theorem rewind_and_patch_accepted l c p rs l' :
  Inv l -> rewind_and_patch l c p rs = RpDone l' true ->
  exists kept removed, l_recs l = kept ++ removed /\ l_recs l' = kept ++ rs /\ Inv l'.
Proof.
  intros Hinv H. unfold EventLog.rewind_and_patch in H.
  destruct (log_rewind l c) as [l1 removed| |] eqn:Er; try discriminate.
  destruct (log_patch_checked l1 p rs) as [l2|cf|] eqn:Ep; try discriminate.
  injection H as <-. destruct (rewind_ok l c l1 removed Hinv Er) as (Hrecs & Hinv1 & _ & _).
  exists (l_recs l1), removed. apply patch_checked_success_iff in Ep. destruct Ep as [_ ->].
  repeat split; [exact Hrecs|apply apply_inv; exact Hinv1].
Qed.

(* ---- commit = hash of the bytes, preserved when the inputs satisfy it ---- *)
Variable Hd : dat -> hash.
Definition HashOk (l : elog) : Prop := Forall (fun r => er_commit r = Hd (er_data r)) (l_recs l).

Lemma apply_hashok l rs : HashOk l -> Forall (fun r => er_commit r = Hd (er_data r)) rs ->
  HashOk (log_apply l rs).
Proof. unfold HashOk. cbn [EventLog.log_apply l_recs]. intros. apply Forall_app. split; assumption. Qed.

Lemma rewind_hashok l c l' removed : Inv l -> HashOk l -> log_rewind l c = RwOk l' removed -> HashOk l'.
Proof.
  intros Hinv Hh H. destruct (rewind_ok l c l' removed Hinv H) as (Hrecs & _).
  unfold HashOk in *. rewrite Hrecs in Hh. apply Forall_app in Hh. tauto.
Qed.

(* ---- the shared SQL table ---- *)
Variable owner : Type.
Variable owner_eqb : owner -> owner -> bool.
Hypothesis owner_eqb_spec : forall a b, owner_eqb a b = true <-> a = b.
Notation table := (table hash tm dat owner).
Notation tb_select := (tb_select hash tm dat owner owner_eqb).
Notation tb_insert := (tb_insert hash tm dat owner).
Notation tb_delete_all := (tb_delete_all hash tm dat owner owner_eqb).
Notation tb_delete_last := (tb_delete_last hash tm dat owner owner_eqb).
Notation drop_last_rev := (drop_last_rev hash tm dat owner owner_eqb).

Lemma owner_eqb_refl o : owner_eqb o o = true.
Proof. apply owner_eqb_spec. reflexivity. Qed.
Lemma owner_eqb_neq a b : a <> b -> owner_eqb a b = false.
Proof. intro H. destruct (owner_eqb a b) eqn:E; [|reflexivity]. apply owner_eqb_spec in E. congruence. Qed.

Lemma select_insert_same (t : table) o rs : tb_select (tb_insert t o rs) o = tb_select t o ++ rs.
Proof.
  unfold EventLog.tb_select, EventLog.tb_insert. rewrite filter_app, map_app. f_equal.
  induction rs as [|r rs IH]; [reflexivity|]. cbn [map filter fst]. rewrite owner_eqb_refl.
  cbn [map snd]. rewrite IH. reflexivity.
Qed.

Lemma select_insert_other (t : table) o o' rs : o <> o' ->
  tb_select (tb_insert t o rs) o' = tb_select t o'.
Proof.
  intro Hne. unfold EventLog.tb_select, EventLog.tb_insert. rewrite filter_app, map_app.
  rewrite <- app_nil_r. f_equal.
  induction rs as [|r rs IH]; [reflexivity|]. cbn [map filter fst]. rewrite (owner_eqb_neq o o' Hne). exact IH.
Qed.

Lemma select_delete_all_same (t : table) o : tb_select (tb_delete_all t o) o = [].
Proof.
  unfold EventLog.tb_select, EventLog.tb_delete_all.
  induction t as [|[o1 r] t IH]; [reflexivity|]. cbn [filter fst].
  destruct (owner_eqb o1 o) eqn:E; cbn [negb]; [exact IH|]. cbn [filter fst]. rewrite E. exact IH.
Qed.

Lemma select_delete_all_other (t : table) o o' : o <> o' ->
  tb_select (tb_delete_all t o) o' = tb_select t o'.
Proof.
  intro Hne. unfold EventLog.tb_select, EventLog.tb_delete_all.
  induction t as [|[o1 r] t IH]; [reflexivity|]. cbn [filter fst].
  destruct (owner_eqb o1 o) eqn:E; cbn [negb].
  - apply owner_eqb_spec in E. subst o1. rewrite (owner_eqb_neq o o' Hne). exact IH.
  - cbn [filter fst]. destruct (owner_eqb o1 o'); cbn [map]; rewrite IH; reflexivity.
Qed.

Lemma drop_last_rev_same o : forall n (trev : table),
  filter (fun row => owner_eqb (fst row) o) (drop_last_rev o n trev) =
  skipn n (filter (fun row => owner_eqb (fst row) o) trev).
Proof.
  intros n trev. revert n. induction trev as [|[o1 r] trev IH]; intro n.
  - destruct n; reflexivity.
  - destruct n as [|n]; [reflexivity|]. cbn [EventLog.drop_last_rev fst filter].
    destruct (owner_eqb o1 o) eqn:E.
    + cbn [skipn]. apply IH.
    + cbn [filter fst]. rewrite E. apply IH.
Qed.

Lemma drop_last_rev_other o o' : o <> o' -> forall n (trev : table),
  filter (fun row => owner_eqb (fst row) o') (drop_last_rev o n trev) =
  filter (fun row => owner_eqb (fst row) o') trev.
Proof.
  intros Hne n trev. revert n. induction trev as [|[o1 r] trev IH]; intro n.
  - destruct n; reflexivity.
  - destruct n as [|n]; [reflexivity|]. cbn [EventLog.drop_last_rev fst].
    destruct (owner_eqb o1 o) eqn:E.
    + apply owner_eqb_spec in E. subst o1. cbn [filter fst]. rewrite (owner_eqb_neq o o' Hne). apply IH.
    + cbn [filter fst]. destruct (owner_eqb o1 o'); rewrite IH; reflexivity.
Qed.

Lemma filter_rev (A : Type) (f : A -> bool) (l : list A) : filter f (rev l) = rev (filter f l).
Proof.
  induction l as [|a l IH]; [reflexivity|]. cbn [rev filter]. rewrite filter_app, IH. cbn [filter].
  destruct (f a); [reflexivity|]. rewrite app_nil_r. reflexivity.
Qed.

(* rewinding one log removes exactly its own trailing rows ... *)
Theorem select_delete_last_same (t : table) o n :
  tb_select (tb_delete_last t o n) o =
  firstn (length (tb_select t o) - n) (tb_select t o).
Proof.
  unfold EventLog.tb_select, EventLog.tb_delete_last.
  rewrite filter_rev, drop_last_rev_same, filter_rev, skipn_rev, rev_involutive, firstn_map, map_length.
  reflexivity.
Qed.

(* ... and never another log's rows (isolation) *)
Theorem select_delete_last_other (t : table) o o' n : o <> o' ->
  tb_select (tb_delete_last t o n) o' = tb_select t o'.
Proof.
  intro Hne. unfold EventLog.tb_select, EventLog.tb_delete_last.
  rewrite filter_rev, (drop_last_rev_other o o' Hne), filter_rev, rev_involutive. reflexivity.
Qed.

End EventLogLemmas.
