From Coq Require Import List NArith ZArith Bool Lia Arith ZifyN ZifyNat ZifyBool.
From SosModel Require Import base.Bytes gen.Generated model.Formats model.Crash
  proofs.Bytes_Lemmas proofs.Formats_Lemmas.
Import ListNotations.
Local Open Scope N_scope.
Arguments N.mul : simpl never. Arguments N.add : simpl never.
Arguments N.div : simpl never. Arguments N.modulo : simpl never.

(* ---- what the row head parser consumes ---- *)
Lemma p_fixed_some n s b r : p_fixed n s = Some (b, r) -> s = b ++ r /\ lenb b = n.
Proof.
  unfold p_fixed, p_bytes_n. destruct (MAXB <? n); [discriminate|]. apply take_consumes.
Qed.
Lemma p_time_some s t r : p_time s = Some (t, r) -> exists b, s = b ++ r /\ lenb b = 12.
Proof.
  unfold p_time, p_i64, bind.
  destruct (p_u64 s) as [[x s1]|] eqn:E1; [|discriminate]. cbn [ret].
  destruct (p_u32 s1) as [[n s2]|] eqn:E2; [|discriminate].
  destruct (_ || _)%bool; [discriminate|]. destruct (_ <? _)%Z; [discriminate|].
  unfold ret. intro H. injection H as _ <-.
  apply p_uint_some in E1. apply p_uint_some in E2.
  destruct E1 as (b1 & -> & L1). destruct E2 as (b2 & -> & L2).
  exists (b1 ++ b2). rewrite <- app_assoc. split; [reflexivity|]. unfold lenb in *. rewrite app_length. lia.
Qed.
Lemma lenb_app a b : lenb (a ++ b) = lenb a + lenb b.
Proof. unfold lenb. rewrite app_length. lia. Qed.

Lemma p_row_consumes s x r : p_row s = Some (x, r) -> 84 <= lenb s.
Proof.
  unfold p_row, bind.
  destruct (p_u32 s) as [[n s1]|] eqn:E1; [|discriminate].
  destruct (p_time s1) as [[t s2]|] eqn:E2; [|discriminate].
  destruct (p_fixed 32 s2) as [[pv s3]|] eqn:E3; [|discriminate].
  destruct (p_fixed 32 s3) as [[c s4]|] eqn:E4; [|discriminate].
  destruct (p_u32 s4) as [[d s5]|] eqn:E5; [|discriminate].
  intros _. apply p_uint_some in E1, E5. apply p_time_some in E2. apply p_fixed_some in E3, E4.
  destruct E1 as (b1 & -> & L1). destruct E2 as (b2 & -> & L2). destruct E3 as (-> & L3).
  destruct E4 as (-> & L4). destruct E5 as (b5 & -> & L5).
  rewrite !lenb_app. lia.
Qed.

(* ---- the row head of an encoded record ---- *)
Definition head (r : record) : bytes :=
  e_u32 (lenb (record_body r)) ++ e_time (r_time r) ++ r_prev r ++ r_commit r ++ e_u32 (lenb (r_data r)).
Lemma e_record_split r : e_record r = head r ++ r_data r ++ e_u32 (lenb (record_body r)).
Proof. unfold e_record, head, record_body, e_bytes32. rewrite <- !app_assoc. reflexivity. Qed.
Lemma head_len r : wf_record r -> length (head r) = 84%nat.
Proof.
  destruct r as [t pv c d]. unfold wf_record, head, e_time, e_i64, e_u64, e_u32, lenb.
  cbn [r_time r_prev r_commit r_data]. intros (_ & Hp & Hc & _).
  rewrite !app_length, !le_bytes_length. lia.
Qed.
Lemma e_record_len r : wf_record r -> lenb (e_record r) = lenb (record_body r) + 8.
Proof.
  intro H. unfold e_record. rewrite !lenb_app.
  assert (forall x, lenb (e_u32 x) = 4) as L4 by (intro x; unfold lenb, e_u32; rewrite le_bytes_length; reflexivity).
  rewrite !L4. lia.
Qed.
Lemma e_record_length r : wf_record r -> (length (e_record r) = 88 + length (r_data r))%nat.
Proof.
  intro H. pose proof (e_record_len r H) as E. rewrite (record_body_len r H) in E. unfold lenb in E. lia.
Qed.
Lemma p_row_head r rest : wf_record r ->
  p_row (head r ++ rest) = Some ((lenb (record_body r), r_commit r), rest).
Proof.
  intro H. pose proof (record_body_len r H) as Hlen.
  destruct r as [t pv c d]. destruct H as (Ht & Hp & Hc & Hd). cbn [r_time r_prev r_commit r_data] in *.
  unfold p_row, head, bind. rewrite Hlen. cbn [r_time r_prev r_commit r_data].
  rewrite <- !app_assoc. rewrite MAXB_val in *.
  rewrite p_u32_rt by lia. rewrite time_rt by exact Ht.
  rewrite !p_fixed_rt by (rewrite ?MAXB_val; lia).
  rewrite p_u32_rt by lia. reflexivity.
Qed.

(* ---- positions ---- *)
Lemma skipn_lenb_app (pre x : bytes) : skipn (N.to_nat (lenb pre)) (pre ++ x) = x.
Proof.
  unfold lenb. rewrite Nat2N.id, skipn_app, skipn_all, Nat.sub_diag. reflexivity.
Qed.
Lemma skipn_past (l : bytes) p : lenb l <= p -> skipn (N.to_nat p) l = [].
Proof. unfold lenb. intro H. apply skipn_all2. lia. Qed.
Lemma seek_skipn pos (file : bytes) : seek pos file = skipn (N.to_nat pos) file.
Proof.
  unfold seek. destruct (N.ltb_spec (lenb file) pos) as [H|H]; [|reflexivity].
  symmetry. apply skipn_past. lia.
Qed.
Lemma p_row_nil : p_row [] = None.
Proof. reflexivity. Qed.

(* ---- the scan of a file that ends in the first c bytes of further records ---- *)
Lemma scan_cut : forall ns, Forall wf_record ns -> forall pre acc c fuel,
  (Nat.min (length ns) c + 1 < fuel)%nat ->
  scan fuel (pre ++ firstn c (flat ns)) (lenb pre) acc =
  match cut_records ns c with Some l => Some (rev acc ++ map r_commit l) | None => None end.
Proof.
  induction ns as [|n ns IH]; intros Hwf pre acc c fuel Hf.
  - cbn [flat flat_map cut_records map]. rewrite firstn_nil, !app_nil_r.
    destruct fuel as [|k]; [lia|]. cbn [scan]; rewrite ?seek_skipn. rewrite N.eqb_refl. reflexivity.
  - inversion Hwf as [|? ? Hn Hns]; subst. cbn [cut_records].
    destruct fuel as [|k]; [lia|]. cbn [length] in Hf.
    pose proof (e_record_length n Hn) as Hlen.
    unfold flat. cbn [flat_map]. fold (flat ns).
    destruct (Nat.eqb c 0) eqn:Ec0.
    + apply Nat.eqb_eq in Ec0. subst c. cbn [firstn]. rewrite app_nil_r. cbn [scan map]; rewrite ?seek_skipn.
      rewrite N.eqb_refl, app_nil_r. reflexivity.
    + apply Nat.eqb_neq in Ec0. destruct (Nat.ltb c (length (e_record n))) eqn:Ec.
      * (* the cut falls inside the first record *)
        apply Nat.ltb_lt in Ec.
        rewrite firstn_app. replace (c - length (e_record n))%nat with 0%nat by lia.
        cbn [firstn]. rewrite app_nil_r. cbn [scan]; rewrite ?seek_skipn.
        assert (length (firstn c (e_record n)) = c) as Hpl by (rewrite firstn_length; lia).
        assert ((lenb pre =? lenb (pre ++ firstn c (e_record n))) = false) as ->
          by (rewrite lenb_app; unfold lenb; rewrite Hpl; lia).
        rewrite ?seek_skipn, skipn_lenb_app.
        destruct (p_row (firstn c (e_record n))) as [[[m cm] rest]|] eqn:Ep; [|reflexivity].
        (* the head was complete: the next position lies past the end of the file *)
        pose proof (p_row_consumes _ _ _ Ep) as H84. unfold lenb in H84. rewrite Hpl in H84.
        rewrite e_record_split in Ep. rewrite firstn_app in Ep. rewrite (head_len n Hn) in Ep.
        rewrite firstn_all2 in Ep by (rewrite (head_len n Hn); lia).
        rewrite (p_row_head n _ Hn) in Ep. injection Ep as <- <- _.
        destruct k as [|k']; [lia|]. cbn [scan]; rewrite ?seek_skipn.
        pose proof (e_record_len n Hn) as HL.
        assert ((lenb pre + lenb (record_body n) + 8 =? lenb (pre ++ firstn c (e_record n))) = false) as ->
          by (rewrite lenb_app; unfold lenb in *; rewrite Hpl; lia).
        rewrite ?seek_skipn, skipn_past; [reflexivity|]. rewrite lenb_app. unfold lenb in *. rewrite Hpl. lia.
      * (* the first record is whole *)
        apply Nat.ltb_ge in Ec.
        rewrite firstn_app. rewrite firstn_all2 by lia.
        cbn [scan]; rewrite ?seek_skipn.
        assert ((lenb pre =? lenb (pre ++ e_record n ++ firstn (c - length (e_record n)) (flat ns))) = false) as ->
          by (rewrite !lenb_app; unfold lenb; lia).
        rewrite ?seek_skipn, skipn_lenb_app. rewrite e_record_split at 1. rewrite <- !app_assoc.
        rewrite (p_row_head n _ Hn).
        pose proof (e_record_len n Hn) as HL.
        replace (lenb pre + lenb (record_body n) + 8) with (lenb (pre ++ e_record n))
          by (rewrite lenb_app; lia).
        replace (pre ++ e_record n ++ firstn (c - length (e_record n)) (flat ns))
          with ((pre ++ e_record n) ++ firstn (c - length (e_record n)) (flat ns))
          by (rewrite <- app_assoc; reflexivity).
        rewrite (IH Hns (pre ++ e_record n) (r_commit n :: acc) (c - length (e_record n))%nat k) by lia.
        destruct (cut_records ns (c - length (e_record n))) as [l|]; [|reflexivity].
        cbn [rev map]. rewrite <- app_assoc. reflexivity.
Qed.

(* whole files *)
Lemma cut_records_all ns : cut_records ns (length (flat ns)) = Some ns.
Proof.
  induction ns as [|n ns IH]; [reflexivity|]. cbn [cut_records]. unfold flat. cbn [flat_map]. fold (flat ns).
  rewrite app_length.
  destruct (Nat.eqb (length (e_record n) + length (flat ns)) 0) eqn:E0.
  - apply Nat.eqb_eq in E0. unfold e_record, e_u32 in E0. rewrite !app_length, !le_bytes_length in E0. lia.
  - assert (Nat.ltb (length (e_record n) + length (flat ns)) (length (e_record n)) = false) as ->
      by (apply Nat.ltb_ge; lia).
    replace (length (e_record n) + length (flat ns) - length (e_record n))%nat with (length (flat ns)) by lia.
    rewrite IH. reflexivity.
Qed.
Lemma cut_records_app rs ns c : cut_records (rs ++ ns) (length (flat rs) + c) =
  match cut_records ns c with Some l => Some (rs ++ l) | None => None end.
Proof.
  induction rs as [|r rs IH].
  - cbn [app flat flat_map length]. rewrite Nat.add_0_l. destruct (cut_records ns c); reflexivity.
  - cbn [app cut_records]. unfold flat. cbn [flat_map]. fold (flat rs). rewrite app_length.
    destruct (Nat.eqb (length (e_record r) + length (flat rs) + c) 0) eqn:E0.
    + apply Nat.eqb_eq in E0. unfold e_record, e_u32 in E0. rewrite !app_length, !le_bytes_length in E0. lia.
    + assert (Nat.ltb (length (e_record r) + length (flat rs) + c) (length (e_record r)) = false) as ->
        by (apply Nat.ltb_ge; lia).
      replace (length (e_record r) + length (flat rs) + c - length (e_record r))%nat
        with (length (flat rs) + c)%nat by lia.
      rewrite IH. destruct (cut_records ns c); reflexivity.
Qed.

(* a log file = header ++ whole records rs ++ the first c bytes of the records ns being appended *)
Theorem scan_torn rs ns pre c : Forall wf_record rs -> Forall wf_record ns -> (0 < length pre)%nat ->
  let file := pre ++ flat rs ++ firstn c (flat ns) in
  scan (S (length file)) file (lenb pre) [] =
  match cut_records ns c with Some l => Some (map r_commit rs ++ map r_commit l) | None => None end.
Proof.
  intros Hrs Hns Hpre file.
  assert (flat (rs ++ ns) = flat rs ++ flat ns) as Hfl by (unfold flat; apply flat_map_app).
  assert (firstn (length (flat rs) + c) (flat (rs ++ ns)) = flat rs ++ firstn c (flat ns)) as Hfn.
  { rewrite Hfl, firstn_app. rewrite firstn_all2 by lia.
    replace (length (flat rs) + c - length (flat rs))%nat with c by lia. reflexivity. }
  pose proof (scan_cut (rs ++ ns) (proj2 (Forall_app _ _ _) (conj Hrs Hns)) pre []
                (length (flat rs) + c)%nat (S (length file))) as E.
  rewrite Hfn in E. fold file in E. rewrite E; clear E.
  - rewrite cut_records_app. destruct (cut_records ns c) as [l|]; [|reflexivity].
    cbn [rev app]. rewrite map_app. reflexivity.
  - (* fuel *)
    unfold file. rewrite !app_length, firstn_length.
    destruct (Nat.le_ge_cases c (length (flat ns))) as [Hle|Hge].
    + rewrite (Nat.min_l c) by lia. lia.
    + rewrite (Nat.min_r c) by lia.
      (* more bytes asked than there are: the record count bounds the fuel needed *)
      pose proof (proj2 (Forall_app _ _ _) (conj Hrs Hns)) as Hall.
      assert (length (rs ++ ns) <= length (flat (rs ++ ns)))%nat as Hge2.
      { clear -Hall. induction Hall as [|r l Hr Hl IH]; [cbn; lia|]. unfold flat. cbn [flat_map length].
        fold (flat l). rewrite app_length. pose proof (e_record_length r Hr). lia. }
      rewrite Hfl, !app_length in Hge2. rewrite ?app_length. lia.
Qed.

Theorem scan_whole rs pre : Forall wf_record rs -> (0 < length pre)%nat ->
  scan (S (length (pre ++ flat rs))) (pre ++ flat rs) (lenb pre) [] = Some (map r_commit rs).
Proof.
  intros H Hpre. pose proof (scan_torn rs [] pre 0 H (Forall_nil _) Hpre) as E.
  cbn [flat flat_map firstn cut_records map] in E. rewrite !app_nil_r in E. exact E.
Qed.

(* ---- the property-facing statements ---- *)
(* appending ONE record: whatever byte the write is cut at, the file either does not load or
   loads as exactly the log before or the log after *)
Theorem append_one_cut rs n pre c : Forall wf_record rs -> wf_record n -> (0 < length pre)%nat ->
  let file := pre ++ flat rs ++ firstn c (e_record n) in
  scan (S (length file)) file (lenb pre) [] =
    if Nat.eqb c 0 then Some (map r_commit rs)
    else if Nat.ltb c (length (e_record n)) then None
    else Some (map r_commit rs ++ [r_commit n]).
Proof.
  intros Hrs Hn Hpre file.
  pose proof (scan_torn rs [n] pre c Hrs (Forall_cons _ Hn (Forall_nil _)) Hpre) as E.
  cbn [flat flat_map] in E. rewrite app_nil_r in E. fold file in E. rewrite E. cbn [cut_records].
  destruct (Nat.eqb c 0); [cbn [map]; rewrite app_nil_r; reflexivity|].
  destruct (Nat.ltb c (length (e_record n))); reflexivity.
Qed.

(* a cut strictly inside the record being appended: the log no longer loads *)
Theorem torn_append_unreadable rs n pre c : Forall wf_record rs -> wf_record n -> (0 < length pre)%nat ->
  (0 < c < length (e_record n))%nat ->
  let file := pre ++ flat rs ++ firstn c (e_record n) in
  scan (S (length file)) file (lenb pre) [] = None.
Proof.
  intros Hrs Hn Hpre Hc file. unfold file. rewrite (append_one_cut rs n pre c Hrs Hn Hpre).
  assert (Nat.eqb c 0 = false) as -> by (apply Nat.eqb_neq; lia).
  assert (Nat.ltb c (length (e_record n)) = true) as -> by (apply Nat.ltb_lt; lia). reflexivity.
Qed.

(* appending TWO records in one write, cut at the boundary between them: the file loads, as a
   log that is neither the one before nor the one after *)
Theorem torn_patch_partial rs n1 n2 pre : Forall wf_record rs -> wf_record n1 -> wf_record n2 ->
  (0 < length pre)%nat ->
  let file := pre ++ flat rs ++ firstn (length (e_record n1)) (flat [n1; n2]) in
  scan (S (length file)) file (lenb pre) [] = Some (map r_commit rs ++ [r_commit n1]).
Proof.
  intros Hrs H1 H2 Hpre file.
  pose proof (scan_torn rs [n1; n2] pre (length (e_record n1)) Hrs
                (Forall_cons _ H1 (Forall_cons _ H2 (Forall_nil _))) Hpre) as E.
  fold file in E. rewrite E. cbn [cut_records].
  pose proof (e_record_length n1 H1). pose proof (e_record_length n2 H2).
  assert (Nat.eqb (length (e_record n1)) 0 = false) as -> by (apply Nat.eqb_neq; lia).
  rewrite Nat.ltb_irrefl, Nat.sub_diag. cbn [Nat.eqb map]. reflexivity.
Qed.

(* ---- the open path: identity check, then the scan ---- *)
Lemma beq_refl a : beq a a = true.
Proof. induction a as [|x a IH]; [reflexivity|]. cbn [beq]. rewrite N.eqb_refl. exact IH. Qed.
Lemma flat_nil_inv rs : Forall wf_record rs -> flat rs = [] -> rs = [].
Proof.
  intros H E. destruct H as [|r rs Hr _]; [reflexivity|]. unfold flat in E. cbn [flat_map] in E.
  pose proof (e_record_length r Hr). apply (f_equal (@length _)) in E. rewrite app_length in E. cbn [length] in E. lia.
Qed.

Lemma flat_length_ge rs : Forall wf_record rs -> (length rs <= length (flat rs))%nat.
Proof.
  intro H. induction H as [|r rs Hr Hrs IH]; [cbn; lia|]. unfold flat. cbn [flat_map length]. fold (flat rs).
  rewrite app_length. pose proof (e_record_length r Hr). lia.
Qed.

(* ---- reverse iteration of a whole file = the mirror of the forward one ---- *)
Lemma p_row_tail_rt r rest : wf_record r ->
  p_row_tail (e_time (r_time r) ++ r_prev r ++ r_commit r ++ e_u32 (lenb (r_data r)) ++ rest) = Some (r_commit r, rest).
Proof.
  destruct r as [t pv c d]. intros (Ht & Hp & Hc & Hd). cbn [r_time r_prev r_commit r_data] in *.
  unfold p_row_tail, bind. rewrite MAXB_val in *.
  rewrite time_rt by exact Ht. rewrite !p_fixed_rt by (rewrite ?MAXB_val; lia).
  rewrite p_u32_rt by lia. reflexivity.
Qed.
Lemma e_u32_len x : lenb (e_u32 x) = 4.
Proof. unfold lenb, e_u32. rewrite le_bytes_length. reflexivity. Qed.

Lemma scan_back_records : forall rs, Forall wf_record rs -> forall pre suffix acc fuel,
  (length rs < fuel)%nat ->
  scan_back fuel (pre ++ flat rs ++ suffix) (lenb pre) (lenb (pre ++ flat rs)) acc =
  Some (rev acc ++ rev (map r_commit rs)).
Proof.
  intros rs. induction rs as [|r rs IH] using rev_ind; intros Hwf pre suffix acc fuel Hf.
  - cbn [flat flat_map map rev]. rewrite !app_nil_r. destruct fuel as [|k]; [lia|]. cbn [scan_back]; rewrite ?seek_skipn.
    rewrite N.eqb_refl. reflexivity.
  - apply Forall_app in Hwf. destruct Hwf as [Hrs Hr]. inversion Hr as [|? ? Hwr _]; subst.
    assert (flat (rs ++ [r]) = flat rs ++ e_record r) as Hfl
      by (unfold flat; rewrite flat_map_app; cbn [flat_map]; rewrite app_nil_r; reflexivity).
    rewrite Hfl. rewrite app_length in Hf. cbn [length] in Hf.
    destruct fuel as [|k]; [lia|]. cbn [scan_back]; rewrite ?seek_skipn.
    pose proof (e_record_len r Hwr) as HL. pose proof (record_body_len r Hwr) as HB.
    set (L := lenb (record_body r)) in *.
    assert (lenb (pre ++ flat rs ++ e_record r) = lenb (pre ++ flat rs) + (L + 8)) as Hpos
      by (rewrite !lenb_app in *; lia).
    rewrite Hpos.
    assert ((lenb (pre ++ flat rs) + (L + 8) =? lenb pre) = false) as -> by (rewrite lenb_app; lia).
    assert ((lenb (pre ++ flat rs) + (L + 8) <? lenb pre + 4) = false) as -> by (rewrite lenb_app; lia).
    (* the trailing length field *)
    assert (pre ++ (flat rs ++ e_record r) ++ suffix =
            (pre ++ flat rs ++ head r ++ r_data r) ++ e_u32 L ++ suffix) as Hsplit1.
    { rewrite e_record_split. fold L. rewrite <- !app_assoc. reflexivity. }
    rewrite Hsplit1.
    assert (lenb (pre ++ flat rs) + (L + 8) - 4 = lenb (pre ++ flat rs ++ head r ++ r_data r)) as ->.
    { assert (lenb (head r) = 84) as Hh84 by (unfold lenb; rewrite (head_len r Hwr); reflexivity).
      rewrite !lenb_app, Hh84. lia. }
    rewrite ?seek_skipn, skipn_lenb_app.
    assert (L < 4294967296) as HL32 by (destruct Hwr as (_ & _ & _ & Hd); rewrite MAXB_val in Hd; lia).
    rewrite p_u32_rt by exact HL32.
    assert ((lenb (pre ++ flat rs) + (L + 8) <? lenb pre + L + 8) = false) as -> by (rewrite lenb_app; lia).
    replace (lenb (pre ++ flat rs) + (L + 8) - (L + 8)) with (lenb (pre ++ flat rs)) by lia.
    (* the row read from row_start + 4 *)
    assert ((pre ++ flat rs ++ head r ++ r_data r) ++ e_u32 L ++ suffix =
            ((pre ++ flat rs) ++ e_u32 L) ++
            (e_time (r_time r) ++ r_prev r ++ r_commit r ++ e_u32 (lenb (r_data r)) ++ (r_data r ++ e_u32 L ++ suffix))) as Hsplit2.
    { unfold head. fold L. rewrite <- !app_assoc. reflexivity. }
    rewrite Hsplit2.
    assert (lenb (pre ++ flat rs) + 4 = lenb ((pre ++ flat rs) ++ e_u32 L)) as -> by (rewrite (lenb_app (pre ++ flat rs)), e_u32_len; lia).
    rewrite ?seek_skipn, skipn_lenb_app. rewrite (p_row_tail_rt r _ Hwr).
    (* back to the shape of the induction hypothesis *)
    rewrite <- Hsplit2, <- Hsplit1.
    replace (pre ++ (flat rs ++ e_record r) ++ suffix) with (pre ++ flat rs ++ (e_record r ++ suffix))
      by (rewrite <- !app_assoc; reflexivity).
    rewrite (IH Hrs pre (e_record r ++ suffix) (r_commit r :: acc) k) by lia.
    rewrite map_app, rev_app_distr. cbn [map rev app]. rewrite <- app_assoc. reflexivity.
Qed.

Theorem open_log_rev_whole rs pre : Forall wf_record rs -> (0 < length pre)%nat ->
  open_log_rev (lenb pre) (pre ++ flat rs) = Some (rev (map r_commit rs)).
Proof.
  intros Hrs Hpre. unfold open_log_rev. destruct (lenb (pre ++ flat rs) <=? lenb pre) eqn:E.
  - assert (flat rs = []) as Hnil.
    { rewrite lenb_app in E. unfold lenb in E. destruct (flat rs); [reflexivity|]. cbn [length] in E. lia. }
    apply (flat_nil_inv rs Hrs) in Hnil. subst rs. reflexivity.
  - pose proof (scan_back_records rs Hrs pre [] [] (S (length (pre ++ flat rs)))) as G.
    rewrite !app_nil_r in G. rewrite G; [reflexivity|].
    rewrite app_length. pose proof (flat_length_ge rs Hrs). lia.
Qed.

Theorem open_log_cut ident ver rs ns c : length ident = 4%nat ->
  Forall wf_record rs -> Forall wf_record ns ->
  let pre := ident ++ ver in
  let file := pre ++ flat rs ++ firstn c (flat ns) in
  open_log ident (lenb pre) file =
  match cut_records ns c with Some l => Some (map r_commit rs ++ map r_commit l) | None => None end.
Proof.
  intros Hid Hrs Hns pre file. unfold open_log.
  assert (4 <= lenb file) as H4 by (unfold file, pre; rewrite !lenb_app; unfold lenb; lia).
  assert ((lenb file =? 0) = false) as -> by lia.
  assert ((lenb file <? 4) = false) as -> by lia.
  assert (firstn 4 file = ident) as ->.
  { unfold file, pre. rewrite <- !app_assoc. rewrite firstn_app. rewrite Hid, Nat.sub_diag, firstn_O, app_nil_r.
    rewrite <- Hid. apply firstn_all. }
  rewrite beq_refl. cbn [negb].
  destruct (lenb file <=? lenb pre) eqn:El.
  - (* nothing after the header *)
    assert (flat rs ++ firstn c (flat ns) = []) as Hnil.
    { unfold file in El. rewrite lenb_app in El. unfold lenb in El.
      destruct (flat rs ++ firstn c (flat ns)); [reflexivity|]. cbn [length] in El. lia. }
    apply app_eq_nil in Hnil. destruct Hnil as [Hr Hn].
    apply (flat_nil_inv rs Hrs) in Hr. subst rs. cbn [map app].
    destruct ns as [|n ns]; [reflexivity|]. cbn [cut_records].
    destruct (Nat.eqb c 0) eqn:Ec; [reflexivity|]. apply Nat.eqb_neq in Ec. exfalso.
    inversion Hns as [|? ? Hn1 _]; subst. unfold flat in Hn. cbn [flat_map] in Hn.
    pose proof (e_record_length n Hn1). apply (f_equal (@length _)) in Hn.
    rewrite firstn_length, app_length in Hn. cbn [length] in Hn. lia.
  - apply scan_torn; [exact Hrs|exact Hns|]. unfold pre. rewrite app_length. lia.
Qed.

Theorem file_reverse_mirrors_forward ident ver rs : length ident = 4%nat -> Forall wf_record rs ->
  let pre := ident ++ ver in
  open_log ident (lenb pre) (pre ++ flat rs) = Some (map r_commit rs) /\
  open_log_rev (lenb pre) (pre ++ flat rs) = Some (rev (map r_commit rs)).
Proof.
  intros Hid Hrs pre. split.
  - pose proof (open_log_cut ident ver rs [] 0 Hid Hrs (Forall_nil _)) as E.
    cbn [flat flat_map firstn cut_records map] in E. rewrite !app_nil_r in E. exact E.
  - apply open_log_rev_whole; [exact Hrs|]. unfold pre. rewrite app_length. lia.
Qed.

(* =======================================================================================
   step level *)
Section StepLemmas.
Variables id body : Type.
Variable id_eqb : id -> id -> bool.
Hypothesis id_eqb_spec : forall a b, id_eqb a b = true <-> a = b.
Notation fstate := (fstate id body).
Notation pstep := (pstep id body).
Notation ev := (ev id body).
Notation run := (run id body).
Notation do_step := (do_step id body).
Notation lookup := (lookup id body id_eqb).
Notation find_row := (find_row id body id_eqb).
Notation replay := (replay id body id_eqb).
Notation apply_ev := (apply_ev id body id_eqb).
Notation steps_create := (steps_create id body).
Notation steps_update := (steps_update id body id_eqb).
Notation steps_delete := (steps_delete id body id_eqb).

Lemma ideq_refl a : id_eqb a a = true. Proof. apply id_eqb_spec. reflexivity. Qed.
Lemma ideq_neq a b : a <> b -> id_eqb a b = false.
Proof. intro H. destruct (id_eqb a b) eqn:E; [|reflexivity]. apply id_eqb_spec in E. congruence. Qed.

(* vault steps never touch the log; the single log step appends one event *)
Definition vault_only (p : pstep) : bool := match p with LAppend _ _ _ => false | _ => true end.
Lemma run_vault_only s vs : forallb vault_only vs = true -> flog _ _ (run s vs) = flog _ _ s.
Proof.
  revert s. induction vs as [|p vs IH]; intros s H; [reflexivity|]. cbn [forallb] in H.
  apply andb_true_iff in H. destruct H as [Hp Hvs]. unfold Crash.run. cbn [fold_left].
  fold (run (do_step s p) vs). rewrite (IH _ Hvs). destruct p; [reflexivity|reflexivity|discriminate].
Qed.
Theorem log_atomic s vs e k : forallb vault_only vs = true ->
  let st := run s (firstn k (vs ++ [LAppend _ _ e])) in
  flog _ _ st = flog _ _ s \/ flog _ _ st = flog _ _ s ++ [e].
Proof.
  intros Hv st. unfold st. destruct (Nat.le_gt_cases k (length vs)) as [Hk|Hk].
  - left. rewrite firstn_app. replace (k - length vs)%nat with 0%nat by lia. cbn [firstn]. rewrite app_nil_r.
    apply run_vault_only. rewrite <- (firstn_skipn k vs) in Hv. rewrite forallb_app in Hv.
    apply andb_true_iff in Hv. tauto.
  - right. rewrite firstn_all2 by (rewrite app_length; cbn [length]; lia).
    unfold Crash.run. rewrite fold_left_app. cbn [fold_left Crash.do_step flog].
    fold (run s vs). rewrite (run_vault_only s vs Hv). reflexivity.
Qed.

Lemma steps_create_shape i b : steps_create i b = [VAppend _ _ [(i, b)]] ++ [LAppend _ _ (EvC _ _ i b)].
Proof. reflexivity. Qed.

(* lookups *)
Lemma lookup_app j a b : lookup j (a ++ b) = match lookup j a with Some x => Some x | None => lookup j b end.
Proof.
  induction a as [|[k v] a IH]; [reflexivity|]. cbn [app Crash.lookup]. destruct (id_eqb k j); [reflexivity|exact IH].
Qed.
Lemma find_row_split i l n : find_row i l = Some n ->
  exists old, l = firstn n l ++ (i, old) :: skipn (S n) l /\ lookup i (firstn n l) = None.
Proof.
  revert n. induction l as [|[k v] l IH]; intros n H; [discriminate|]. cbn [Crash.find_row] in H.
  destruct (id_eqb k i) eqn:E.
  - injection H as <-. apply id_eqb_spec in E. subst k. exists v. cbn [firstn skipn app Crash.lookup]. tauto.
  - destruct (find_row i l) as [m|] eqn:Em; [|discriminate]. cbn [option_map] in H. injection H as <-.
    destruct (IH m eq_refl) as (old & Hl & Hh). exists old. cbn [firstn skipn app Crash.lookup].
    rewrite E. split; [f_equal; exact Hl|exact Hh].
Qed.
Lemma replay_snoc l e : replay (l ++ [e]) = apply_ev (replay l) e.
Proof. unfold Crash.replay. rewrite fold_left_app. reflexivity. Qed.
Lemma lookup_upd i b j m :
  lookup j (map (fun p : id * body => if id_eqb (fst p) i then (i, b) else p) m) =
  if id_eqb i j then match lookup i m with Some _ => Some b | None => None end else lookup j m.
Proof.
  induction m as [|[k v] m IH]; cbn [map Crash.lookup fst].
  - destruct (id_eqb i j); reflexivity.
  - destruct (id_eqb k i) eqn:Eki.
    + apply id_eqb_spec in Eki. subst k. cbn [Crash.lookup].
      destruct (id_eqb i j) eqn:Eij; [reflexivity|]. exact IH.
    + cbn [Crash.lookup]. destruct (id_eqb k j) eqn:Ekj.
      * apply id_eqb_spec in Ekj. subst k. rewrite (ideq_neq i j); [reflexivity|].
        intros ->. rewrite ideq_refl in Eki. discriminate.
      * exact IH.
Qed.
Lemma lookup_del i j m :
  lookup j (filter (fun p : id * body => negb (id_eqb (fst p) i)) m) = if id_eqb i j then None else lookup j m.
Proof.
  induction m as [|[k v] m IH]; cbn [filter Crash.lookup fst].
  - destruct (id_eqb i j); reflexivity.
  - destruct (id_eqb k i) eqn:Eki; cbn [negb].
    + apply id_eqb_spec in Eki. subst k. rewrite IH. destruct (id_eqb i j); reflexivity.
    + cbn [Crash.lookup]. destruct (id_eqb k j) eqn:Ekj; [|exact IH].
      apply id_eqb_spec in Ekj. subst k. rewrite (ideq_neq i j); [reflexivity|].
      intros ->. rewrite ideq_refl in Eki. discriminate.
Qed.

(* the vault file and the replay of the log hold the same secrets *)
Definition consistent (s : fstate) : Prop := forall j, lookup j (rows _ _ s) = lookup j (replay (flog _ _ s)).

Theorem create_complete s i b : consistent s -> consistent (run s (steps_create i b)).
Proof.
  intros H j. unfold Crash.steps_create, Crash.run. cbn [fold_left Crash.do_step rows flog].
  rewrite replay_snoc. cbn [Crash.apply_ev]. rewrite !lookup_app, (H j). reflexivity.
Qed.
Theorem update_complete s i b : consistent s -> consistent (run s (steps_update s i b)).
Proof.
  intros H j. unfold Crash.steps_update. destruct (find_row i (rows _ _ s)) as [n|] eqn:E; [|exact (H j)].
  destruct (find_row_split _ _ _ E) as (old & Hl & Hh).
  unfold Crash.run. cbn [fold_left Crash.do_step rows flog].
  rewrite replay_snoc. cbn [Crash.apply_ev]. rewrite lookup_upd.
  rewrite <- (H i), <- (H j).
  assert (lookup i (rows _ _ s) = Some old) as Hi
    by (rewrite Hl, lookup_app, Hh; cbn [Crash.lookup]; rewrite ideq_refl; reflexivity).
  assert (id_eqb i j = false -> lookup j (rows _ _ s) =
          match lookup j (firstn n (rows _ _ s)) with Some x => Some x | None => lookup j (skipn (S n) (rows _ _ s)) end) as Hj
    by (intro Hne; rewrite Hl at 1; rewrite lookup_app; cbn [Crash.lookup]; rewrite Hne; reflexivity).
  rewrite Hi. rewrite <- app_assoc, !lookup_app. cbn [app Crash.lookup].
  destruct (id_eqb i j) eqn:Eij.
  - apply id_eqb_spec in Eij. subst j. rewrite Hh. reflexivity.
  - rewrite (Hj eq_refl). reflexivity.
Qed.
Theorem delete_complete s i : consistent s ->
  (forall n, find_row i (rows _ _ s) = Some n -> lookup i (skipn (S n) (rows _ _ s)) = None) ->
  consistent (run s (steps_delete s i)).
Proof.
  intros H Hu j. unfold Crash.steps_delete. destruct (find_row i (rows _ _ s)) as [n|] eqn:E; [|exact (H j)].
  destruct (find_row_split _ _ _ E) as (old & Hl & Hh). specialize (Hu n eq_refl).
  unfold Crash.run. cbn [fold_left Crash.do_step rows flog].
  rewrite replay_snoc. cbn [Crash.apply_ev]. rewrite lookup_del.
  rewrite <- (H j).
  assert (id_eqb i j = false -> lookup j (rows _ _ s) =
          match lookup j (firstn n (rows _ _ s)) with Some x => Some x | None => lookup j (skipn (S n) (rows _ _ s)) end) as Hj
    by (intro Hne; rewrite Hl at 1; rewrite lookup_app; cbn [Crash.lookup]; rewrite Hne; reflexivity).
  rewrite !lookup_app.
  destruct (id_eqb i j) eqn:Eij.
  - apply id_eqb_spec in Eij. subst j. rewrite Hh. exact Hu.
  - rewrite (Hj eq_refl). reflexivity.
Qed.
End StepLemmas.

(* witnesses: a crash between the steps leaves a vault that is not the replay of its log *)
Local Close Scope N_scope.
Local Open Scope nat_scope.
Definition w_state : fstate nat nat := mkF nat nat [(1, 10); (2, 20); (3, 30)]%nat
  [EvC nat nat 1 10; EvC nat nat 2 20; EvC nat nat 3 30]%nat.
Lemma w_state_consistent : consistent nat nat Nat.eqb w_state.
Proof.
  intro j. cbn. destruct j as [|[|[|[|j]]]]; reflexivity.
Qed.
(* update of the first row, stopped after the truncation: rows 2 and 3 are gone from the vault *)
Lemma update_crash_after_truncate :
  let st := run nat nat w_state (firstn 1 (steps_update nat nat Nat.eqb w_state 1 11)) in
  lookup nat nat Nat.eqb 2 (rows _ _ st) = None /\
  lookup nat nat Nat.eqb 2 (replay nat nat Nat.eqb (flog _ _ st)) = Some 20%nat.
Proof. split; reflexivity. Qed.
(* update completed on the vault, event not yet appended: the vault is ahead of the log *)
Lemma update_crash_before_event :
  let st := run nat nat w_state (firstn 3 (steps_update nat nat Nat.eqb w_state 1 11)) in
  lookup nat nat Nat.eqb 1 (rows _ _ st) = Some 11%nat /\
  lookup nat nat Nat.eqb 1 (replay nat nat Nat.eqb (flog _ _ st)) = Some 10%nat.
Proof. split; reflexivity. Qed.
