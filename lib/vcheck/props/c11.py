"""C11 — the server acts only for requests signed by a trusted device.
A real sos_server on loopback (started like the repository's own test server), accounts created
through the SDK's HTTP client; then every route is requested with every credential form, before and
after a device revocation, under each access configuration.  For every request the harness records
the HTTP status and whether the server's storage directory changed.
Oracle (the property, directly): a request without a valid credential is answered 400/401/403 and
changes nothing.  Correspondence: the extracted [authorize] (model/Auth.v) predicts, request by
request, refused-400 / refused-403 / passed."""

ID = "C11"
SUB = "c11"
LEVEL = "proof"
RESILIENT = True
IMPL_TIMEOUT = 3000
RULE = ("a case = one access configuration x server backend; explored = route x credential form x phase (before/after "
        "revoking device d1); non-trivial = a request whose credential is invalid in exactly one respect (key, bytes, "
        "account, header, token format, revocation, access list) on a route that would change state if accepted; "
        "distinct by (access, backend)")
TRUSTED_BASE = [
    "model/Auth.v transcribes authenticate_endpoint, BearerToken::new (all bearer errors mapped to BadRequest by the "
    "caller), AccessControlConfig::is_allowed_access and Backend::verify_device; signature verification is abstract "
    "(the theorems hold for every scheme; unforgeability of ed25519 is not modelled)",
    "the model's [serve] assumes handlers run only after authorisation; the implementation run checks it per route "
    "(storage digest unchanged for every refused request)",
]
ASSUMPTIONS = ["routes are those of server.rs at the pinned commit (the plan lists them by name); the relay/pairing websocket "
               "is outside the property (no account data)",
               "the websocket upgrade route is exercised up to the authorisation decision only"]

READ_ROUTES = ["head", "fetch", "status", "scan", "diff", "files", "fget", "ws"]
WRITE_ROUTES = ["create", "update", "sync", "patch", "delete", "fput", "fmove", "fdel"]
BAD = ["none", "malformed", "short", "dotted", "nohdr", "unknown", "otherbytes", "otheracct", "toB"]
ACCESS = ["none", "allowA", "both", "denyA2", "denyO"]


def plan():
    reqs = []
    # phase 0: d1 still trusted
    for r in READ_ROUTES:
        reqs.append("%s.valid.0" % r)
        reqs.append("%s.revoked.0" % r)           # accepted: d1 is trusted in phase 0
    for r in ("head", "status", "fetch", "scan"):
        reqs.append("%s.rerevoked.0" % r)         # accepted: d3 was revoked once and trusted again
    for r in READ_ROUTES + WRITE_ROUTES:
        for c in BAD:
            reqs.append("%s.%s.0" % (r, c))
    for r in ("head", "status", "fetch", "scan"):
        reqs.append("%s.denyhdr.0" % r)
    reqs.append("files.bodyswap.0")        # compare_files carries a body but its handler verifies the signature over the path
    reqs.append("fput.valid.0")
    for r in ("fget", "fdel", "fmove"):
        for c in ("unknown", "otherbytes", "otheracct", "none"):
            reqs.append("%s.%s.0" % (r, c))
    reqs.append("fget.valid.0")
    # phase 1: d1 revoked
    for r in READ_ROUTES + WRITE_ROUTES:
        reqs.append("%s.revoked.1" % r)
    for r in READ_ROUTES + ["sync", "patch", "fdel"]:
        reqs.append("%s.rerevoked.1" % r)         # refused: the second Revoke(d3) counts like the first
    for r in READ_ROUTES:
        reqs.append("%s.valid.1" % r)
    for r in ("sync", "patch", "fdel"):
        for c in ("unknown", "otherbytes", "toB"):
            reqs.append("%s.%s.1" % (r, c))
    for r in ("head", "status", "scan"):
        reqs.append("%s.dropped.1" % r)           # d2 is still trusted
    # accepted, state-changing requests
    reqs += ["sync.valid.1", "fmove.valid.1", "fdel.valid.1", "patch.valid.1", "update.valid.1", "create.valid.1"]
    # phase 2: a rewinding device-log patch cuts Trust(d2) (and Revoke(d1)) off the log: the trusted set follows the log
    for r in READ_ROUTES + ["sync", "patch", "fdel"]:
        reqs.append("%s.dropped.2" % r)
    for r in ("head", "status", "fetch"):
        reqs.append("%s.valid.2" % r)
        reqs.append("%s.revoked.2" % r)           # d1's revocation was cut off too: the log trusts it again
        reqs.append("%s.unknown.2" % r)
        reqs.append("%s.rerevoked.2" % r)         # d3's events were cut off the log altogether
    return reqs


def corpus():
    return ["c11 k_%s access=%s sbe=fs reqs=%s" % (a, a, ",".join(plan())) for a in ("none", "both")]


def gen_cases(rng, tier):
    out = []
    accs = ["allowA", "denyA2"] if tier == "quick" else ["allowA", "denyA2", "denyO", "none", "both"]
    bes = ["fs"] if tier == "quick" else ["fs", "db"]
    for be in bes:
        for a in accs:
            if be == "fs" and a in ("none", "both"): continue     # corpus
            p = plan()
            # shuffle the refused part of phase 0 (order must not matter); keep the tail in order
            head = [x for x in p if x.endswith(".0") and x.split(".")[1] in BAD]
            rest = [x for x in p if x not in head]
            rng.shuffle(head)
            out.append("c11 g_%s_%s access=%s sbe=%s reqs=%s" % (a, be, a, be, ",".join(head + rest)))
    return out


def parse(obs):
    out = []
    for o in obs:
        t = o.split()
        if len(t) >= 3 and t[0] == "req":
            kv = dict(x.split("=", 1) for x in t[2:] if "=" in x)
            kv["n"] = t[1]
            out.append(kv)
    return out


def accepted_by_design(case, kv):
    """credentials that ARE valid at that point"""
    acc = dict(x.split("=", 1) for x in case.split()[2:] if "=" in x).get("access", "none")
    c, ph = kv["cred"], kv["phase"]
    if c == "valid": return True
    if c == "bodyswap": return False        # the property: the signature must cover exactly the request body
    if c == "revoked" and ph in ("0", "2"): return True      # phase 2: the Revoke event is no longer in the device log
    if c == "dropped" and ph in ("0", "1"): return True
    if c == "rerevoked" and ph == "0": return True
    if c == "denyhdr": return acc in ("none", "allowA_never", "denyO")     # A2 is refused by allowA, denyA2, both
    return False


def oracle(case, obs):
    fails = []
    setup_failed = [o for o in obs if o.startswith("setup-failed")]
    if setup_failed:
        return [{"oracle": "setup", "detail": setup_failed[0]}]
    # websockets: what the server pushed to a socket held by a key the account does not (any longer) trust
    for o in obs:
        t = o.split()
        if t and t[0] == "wsprobe":
            w = dict(x.split("=", 1) for x in t[1:] if "=" in x)
            if w.get("pushed", "na").isdigit() and int(w["pushed"]) > 0:
                fails.append({"oracle": "ws_notifications_to_untrusted", "who": w.get("who"),
                              "detail": "the server pushed %s bytes of change notifications to the websocket of %s (upgrade answered %s)" % (
                                  w["pushed"], {"stranger": "a key no account knows, subscribed before the account existed on the server",
                                                "revoked": "device d1 after its revocation (socket opened while it was trusted)"}.get(w.get("who"), w.get("who")), w.get("status"))})
    for kv in parse(obs):
        ok_creds = accepted_by_design(case, kv)
        st = int(kv.get("status", "0"))
        if not ok_creds:
            if st not in (400, 401, 403):
                fails.append({"oracle": "denied_account_served" if kv["cred"] == "denyhdr" else "accepted_without_credentials", "route": kv["route"], "cred": kv["cred"],
                              "detail": "request %s %s.%s.%s answered %d (expected 400/401/403)" % (kv["n"], kv["route"], kv["cred"], kv["phase"], st)})
            if kv.get("changed") == "1":
                fails.append({"oracle": "refused_request_changed_state", "route": kv["route"], "cred": kv["cred"],
                              "detail": "request %s %s.%s.%s (status %d) changed the server's storage" % (kv["n"], kv["route"], kv["cred"], kv["phase"], st)})
        else:
            if st in (400, 401, 403) and kv["cred"] != "denyhdr":
                fails.append({"oracle": "valid_request_refused", "route": kv["route"], "cred": kv["cred"],
                              "detail": "request %s %s.%s.%s with valid credentials answered %d" % (kv["n"], kv["route"], kv["cred"], kv["phase"], st)})
    return fails


def impl_projection(obs):
    out = []
    for kv in parse(obs):
        st = int(kv.get("status", "0"))
        cls = "refused400" if st == 400 else "refused403" if st == 403 else "passed"
        out.append("req %s route=%s cred=%s phase=%s class=%s" % (kv["n"], kv["route"], kv["cred"], kv["phase"], cls))
    return out


def nontrivial(case, obs):
    return any(kv["cred"] in BAD + ["revoked", "rerevoked"] and kv["route"] in WRITE_ROUTES for kv in parse(obs))


def distinct_key(case):
    d = dict(x.split("=", 1) for x in case.split()[2:] if "=" in x)
    return (d.get("access"), d.get("sbe"))


def distribution(cases, impl):
    st, cr, ro = {}, {}, {}
    for c in cases:
        for kv in parse(impl.get(c.split()[1], [])):
            st[kv.get("status")] = st.get(kv.get("status"), 0) + 1
            cr[kv["cred"]] = cr.get(kv["cred"], 0) + 1
            ro[kv["route"]] = ro.get(kv["route"], 0) + 1
    return {"status_codes": st, "credential_forms": cr, "routes": ro}


def shrink(case):
    toks = case.split()
    d = dict(x.split("=", 1) for x in toks[2:] if "=" in x)
    reqs = d.get("reqs", "").split(",")
    out = []
    if len(reqs) > 1:
        half = len(reqs) // 2
        for part in (reqs[:half], reqs[half:]):
            out.append("c11 s access=%s sbe=%s reqs=%s" % (d.get("access"), d.get("sbe", "fs"), ",".join(part)))
    return out


MANIFEST = {
    "category": "proof",
    "text": ("Coq theorems over the authorisation decision (accepted => allowed by the access lists and some currently "
             "trusted key verifies the signature over exactly the signed bytes; missing/malformed/legacy credentials, "
             "unverifiable signatures, denied or not-allowed accounts are refused; a refused request leaves the state "
             "untouched), for every signature scheme; tied to the code by driving the real HTTP server on loopback through "
             "route x credential form x phase x access configuration and comparing each answer with the extracted decision, "
             "plus the direct oracle (refused => 400/401/403 and storage digest unchanged)"),
    "design_ref": "DESIGN.md §4 C11",
    "note": "partial: unforgeability of ed25519 and TLS are outside the model; compare_files signs the path although it carries a body (see DESIGN §9.4)",
    "technique": "Coq proof (decision-procedure soundness, refusal leaves state unchanged, trusted set = replay of the device log: a key whose last device event is not a Trust is refused) + extracted-model correspondence against the live server + websocket probes held open across the case",
}
