"""Shared parsing / generation for the account-history harness (harness/src/acct.rs)."""


def parse(obs):
    """observation payload lines -> {step: {'op','res','who': {name: {'logs':{}, 'folders':{}, 'index':{}}}}}, defs"""
    steps, defs = {}, {}
    for o in obs:
        if o.startswith("!"):
            toks = o.split()
            if len(toks) >= 3 and toks[1] == "def":
                d = dict(t.split("=", 1) for t in toks[3:] if "=" in t)
                defs[toks[2]] = d
            continue
        toks = o.split()
        try:
            st = int(toks[0])
        except (ValueError, IndexError):
            continue
        S = steps.setdefault(st, {"op": None, "res": None, "who": {}})
        if toks[1].startswith("op="):
            S["op"] = toks[1][3:]
            S["res"] = o.split(" res=", 1)[1] if " res=" in o else None
            continue
        who = toks[1]
        W = S["who"].setdefault(who, {"logs": {}, "folders": {}, "index": None, "state": "ok"})
        if len(toks) < 3:
            continue
        if toks[2] == "log":
            kv = dict(t.split("=", 1) for t in toks[4:] if "=" in t)
            tt = [x for x in kv.get("toks", "").split(",") if x]
            W["logs"][toks[3]] = (int(kv.get("len", "0")), kv.get("root", "-"), [x.split("@")[0] for x in tt])
            W.setdefault("logtimes", {})[toks[3]] = [x.split("@")[1] if "@" in x else "0" for x in tt]
        elif toks[2] == "folder":
            rest = o.split(" ", 5)[5] if len(toks) > 5 else ""
            W["folders"].setdefault(toks[3], {})[toks[4]] = rest
        elif toks[2] == "index":
            W["index"] = dict(t.split("=", 1) for t in toks[3:] if "=" in t)
        else:
            W["state"] = toks[2]
    return steps, defs


def folder_fields(s):
    """'name=.. flags=.. desc=.. items=a=1;b=2' -> dict"""
    d = {}
    for t in s.split(" "):
        if "=" in t:
            k, v = t.split("=", 1)
            d[k] = v
    d["items"] = sorted(x for x in d.get("items", "").split(";") if x)
    return d


def hist_of(case):
    d = dict(t.split("=", 1) for t in case.split()[2:] if "=" in t)
    return [x for x in d.get("hist", "").split("|") if x], d


ROUNDS = 3


def gen_history(rng, ndev=2, nops=10, with_folders=False, with_clock=True, conflicts=True, extra_ops=()):
    """edits on several devices, online and offline, then ROUNDS quiescent rounds of syncs (each device once per round, random order)"""
    ops = ["s0"] + ["s%d" % d for d in range(1, ndev)]
    slots = ["a", "b", "c", "d"]
    fslots = ["0"]
    t = 10
    for _ in range(nops):
        d = rng.randrange(ndev)
        if with_clock and rng.random() < 0.35:
            t += rng.choice([1, 5, 50, -3, 0]) if conflicts else rng.choice([1, 5, 50])
            t = max(t, 2)
            ops.append("t:%d" % t)
        r = rng.random()
        if r < 0.30:
            ops.append("s%d" % d)
        elif r < 0.55:
            f = rng.choice(fslots)
            ops.append("c%d:%s%s" % (d, rng.choice(slots), "" if f == "0" else "@" + f))
        elif r < 0.72:
            ops.append("u%d:%s" % (d, rng.choice(slots)))
        elif r < 0.84:
            ops.append("x%d:%s" % (d, rng.choice(slots)))
        elif with_folders and r < 0.90:
            n = str(len(fslots)); fslots.append(n); ops.append("f%d:%s" % (d, n))
        elif with_folders and r < 0.94 and len(fslots) > 1:
            ops.append("m%d:%s:%s" % (d, rng.choice(slots), rng.choice(fslots)))
        elif with_folders and r < 0.97:
            ops.append("r%d:%s:%d" % (d, rng.choice(fslots), rng.randrange(3)))
        elif extra_ops and r >= 0.88:
            ops.append(rng.choice(extra_ops) % {"d": d, "f": rng.choice(fslots), "s": rng.choice(slots), "o": (d + 1) % ndev})
        else:
            ops.append("p%d:%s" % (d, rng.choice(fslots)))
    for _ in range(ROUNDS):
        order = list(range(ndev)); rng.shuffle(order)
        ops += ["s%d" % d for d in order]
    return ops
