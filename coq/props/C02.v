(* C02 — a folder always equals the replay of its own event log.
   Model: model/Folder.v (decrypted level).  [vstep] is what one event does when the log is
   replayed; the theorems show that the served vault is always the fold of [vstep] over the
   log: for local edits (each operation IS the vstep of the event it appends), for merge
   replay (after the fix it is vstep by construction), for the client-side rewind (the vault
   keeps the local suffix and replays the merged events on top: same folder), for forced
   overwrites (vault := build (reduce log)) and for compaction. *)
From Coq Require Import List NArith.
From SosModel Require Import model.Folder proofs.Folder_Lemmas.
Import ListNotations.

Section C02.
Variables id val name meta : Type.
Variable id_eqb : id -> id -> bool.
Hypothesis id_eqb_spec : forall a b, id_eqb a b = true <-> a = b.
Notation vstep := (vstep id val name meta id_eqb).
Notation vault := (vault id val name meta).
Notation wevent := (wevent id val name meta).

(* replay of a log = fold of vstep over its tail from the creation snapshot *)
Theorem C02_replay_is_fold v0 es r : v_secrets _ _ _ _ v0 = [] ->
  reduce id val name meta id_eqb (EvCreateVault _ _ _ _ v0 :: es) = Some r ->
  build id val name meta id_eqb r = fold_left vstep es v0.
Proof. exact (reduce_is_fold id val name meta id_eqb id_eqb_spec v0 es r). Qed.

(* local operations: the new vault is the vstep of the event appended to the log *)
Theorem C02_local_create v i x : im_get id val id_eqb i (v_secrets _ _ _ _ v) = None ->
  op_create id val name meta id_eqb v i x = (vstep v (EvCreate _ _ _ _ i x), Some (EvCreate _ _ _ _ i x)).
Proof. exact (op_create_is_vstep id val name meta id_eqb id_eqb_spec v i x). Qed.
Theorem C02_local_update v i x v' e : op_update id val name meta id_eqb v i x = (v', Some e) ->
  e = EvUpdate _ _ _ _ i x /\ v' = vstep v e.
Proof. exact (op_update_is_vstep id val name meta id_eqb v i x v' e). Qed.
Theorem C02_local_update_absent v i x : im_get id val id_eqb i (v_secrets _ _ _ _ v) = None ->
  op_update id val name meta id_eqb v i x = (v, None).
Proof. exact (op_update_absent id val name meta id_eqb v i x). Qed.
Theorem C02_local_delete v i v' e : op_delete id val name meta id_eqb v i = (v', Some e) ->
  e = EvDelete _ _ _ _ i /\ v' = vstep v e.
Proof. exact (op_delete_is_vstep id val name meta id_eqb v i v' e). Qed.

(* invariant lifted to any sequence of applied events (local or merged, fast-forward) *)
Theorem C02_fold_app v0 log patch :
  fold_left vstep (log ++ patch) v0 = fold_left vstep patch (fold_left vstep log v0).
Proof. exact (fold_left_app vstep log patch v0). Qed.

(* client rewind + merge: the vault already holds the local suffix l and replays the merged
   events m on top, while the log becomes prefix ++ m: the served folder is the same *)
Theorem C02_replay_over_local l m v : covered id val name meta id_eqb l m ->
  same_folder id val name meta id_eqb (fold_left vstep (l ++ m) v) (fold_left vstep m v).
Proof. exact (replay_over_local id val name meta id_eqb id_eqb_spec l m v). Qed.

(* compaction: exactly one creation event plus one event per live secret, same folder *)
Theorem C02_compaction r : NoDup (keys id val (r_secrets _ _ _ _ r)) ->
  exists r', reduce id val name meta id_eqb (compact id val name meta r) = Some r' /\
             build id val name meta id_eqb r' = build id val name meta id_eqb r /\
             length (compact id val name meta r) = 1 + length (r_secrets _ _ _ _ r).
Proof. exact (compact_preserves id val name meta id_eqb id_eqb_spec r). Qed.
End C02.

(* non-vacuity / the scenario the pinned tree got wrong: delete on one device, later update
   on the other; the replay of the merged log has the secret *)
Example C02_nonvacuous_delete_then_update :
  im_get nat nat Nat.eqb 7
    (v_secrets _ _ _ _ (fold_left (vstep nat nat nat nat Nat.eqb)
       [EvCreate _ _ _ _ 7 1; EvDelete _ _ _ _ 7; EvUpdate _ _ _ _ 7 2]
       (mkVault nat nat nat nat 0 1%N None []))) = Some 2.
Proof. reflexivity. Qed.

Print Assumptions C02_replay_is_fold.
Print Assumptions C02_local_create.
Print Assumptions C02_local_update.
Print Assumptions C02_local_update_absent.
Print Assumptions C02_local_delete.
Print Assumptions C02_fold_app.
Print Assumptions C02_replay_over_local.
Print Assumptions C02_compaction.
