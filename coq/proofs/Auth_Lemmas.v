From Coq Require Import List Bool.
From SosModel Require Import model.Auth.
Import ListNotations.

Section AuthLemmas.
Variables account key sig msg : Type.
Variable account_eqb : account -> account -> bool.
Variable verify : key -> msg -> sig -> bool.
Hypothesis account_eqb_spec : forall a b, account_eqb a b = true <-> a = b.
Notation authorize := (authorize account key sig msg account_eqb verify).
Notation is_allowed := (is_allowed account account_eqb).
Notation mem := (mem account account_eqb).
Notation access := (access account).

Lemma mem_in a l : mem a l = true <-> In a l.
Proof.
  unfold Auth.mem. rewrite existsb_exists. split.
  - intros (x & Hx & E). apply account_eqb_spec in E. subst x. exact Hx.
  - intro H. exists a. split; [exact H|]. apply account_eqb_spec. reflexivity.
Qed.

(* an accepted auth_request for an existing account: allowed by the access lists, names an account,
   carries a signature, and some currently trusted key verifies it over exactly the signed bytes *)
Theorem accept_sound cfg trusted r a ks :
  authorize cfg trusted r = Accept -> ar_account _ _ _ r = Some a -> trusted a = Some ks ->
  is_allowed cfg a = true /\
  exists s k, ar_token _ _ _ r = TokSig _ s /\ In k ks /\ verify k (ar_signed _ _ _ r) s = true.
Proof.
  unfold Auth.authorize. intros H Ha Ht. rewrite Ha in H.
  destruct (ar_token _ _ _ r) as [| | |s] eqn:Etok; try discriminate.
  destruct (is_allowed cfg a) eqn:Eal; cbn [negb] in H; [|discriminate]. rewrite Ht in H.
  destruct (existsb (fun k => verify k (ar_signed _ _ _ r) s) ks) eqn:Eex; [|discriminate].
  split; [reflexivity|]. apply existsb_exists in Eex. destruct Eex as (k & Hk & Hv).
  exists s, k. repeat split; assumption.
Qed.

(* no signature, a malformed or legacy token, or no account header: refused *)
Theorem no_credentials_refused cfg trusted r :
  (ar_account _ _ _ r = None \/ forall s, ar_token _ _ _ r <> TokSig _ s) -> authorize cfg trusted r = BadRequest.
Proof.
  unfold Auth.authorize. intros [H|H].
  - rewrite H. destruct (ar_token _ _ _ r); reflexivity.
  - destruct (ar_token _ _ _ r) as [| | |s]; try reflexivity. exfalso. exact (H s eq_refl).
Qed.

(* no trusted key verifies (unknown key, revoked key, other bytes, another account's key) *)
Theorem unverified_refused cfg trusted r a ks :
  ar_account _ _ _ r = Some a -> trusted a = Some ks ->
  (forall s k, ar_token _ _ _ r = TokSig _ s -> In k ks -> verify k (ar_signed _ _ _ r) s = false) ->
  authorize cfg trusted r <> Accept.
Proof.
  intros Ha Ht Hno H. destruct (accept_sound cfg trusted r a ks H Ha Ht) as (_ & s & k & Es & Hk & Hv).
  rewrite (Hno s k Es Hk) in Hv. discriminate.
Qed.

(* access lists *)
Theorem denied_refused (x : access) trusted r a d :
  ar_account _ _ _ r = Some a -> deny _ x = Some d -> In a d -> authorize (Some x) trusted r <> Accept.
Proof.
  intros Ha Hd Hin H. unfold Auth.authorize in H. rewrite Ha in H.
  destruct (ar_token _ _ _ r) as [| | |s]; try discriminate.
  assert (is_allowed (Some x) a = false) as E.
  { unfold Auth.is_allowed. rewrite Hd. apply mem_in in Hin. destruct (allow _ x); rewrite Hin; reflexivity. }
  rewrite E in H. discriminate.
Qed.
Theorem not_on_allow_list_refused (x : access) trusted r a al :
  ar_account _ _ _ r = Some a -> allow _ x = Some al -> ~ In a al -> authorize (Some x) trusted r <> Accept.
Proof.
  intros Ha Hal Hnin H. unfold Auth.authorize in H. rewrite Ha in H.
  destruct (ar_token _ _ _ r) as [| | |s]; try discriminate.
  assert (is_allowed (Some x) a = false) as E.
  { unfold Auth.is_allowed. rewrite Hal.
    assert (mem a al = false) as Em by (destruct (mem a al) eqn:E; [apply mem_in in E; contradiction|reflexivity]).
    destruct (deny _ x) as [d|]; [destruct (mem a d)|]; try reflexivity; exact Em. }
  rewrite E in H. discriminate.
Qed.

(* a refused auth_request leaves the server state untouched *)
Section Serve.
Variable state : Type.
Variable handler : state -> auth_request account sig msg -> state.
Variable trusted_of : state -> account -> option (list key).
Theorem refused_untouched cfg st r :
  snd (serve account key sig msg account_eqb verify state handler trusted_of cfg st r) <> Accept ->
  fst (serve account key sig msg account_eqb verify state handler trusted_of cfg st r) = st.
Proof.
  unfold Auth.serve. destruct (authorize cfg (trusted_of st) r); cbn [fst snd]; intro H; [contradiction|reflexivity|reflexivity].
Qed.
End Serve.
End AuthLemmas.

(* the behaviour before the fix: an account on both lists was served *)
Lemma allow_first_serves_denied :
  is_allowed_allow_first nat Nat.eqb (Some (mkAccess nat (Some [7]) (Some [7]))) 7 = true /\
  is_allowed nat Nat.eqb (Some (mkAccess nat (Some [7]) (Some [7]))) 7 = false.
Proof. split; reflexivity. Qed.
