(* auto_merge.rs::merge_patches: decide between rewinding local and pushing a merged patch.
   Records carry a time (N, nanoseconds) — Rust's sort_by is a stable sort, transcribed as a
   stable insertion sort. Definitions only. *)
From Coq Require Import List NArith Bool.
From SosModel Require Import model.EventLog.
Import ListNotations.

Section MergePatches.
Variable hash : Type.
Variable hash_eqb : hash -> hash -> bool.
Variable dat : Type.
Notation rec := (@erec hash N dat).

Definition mem_commit (c : hash) (l : list rec) : bool :=
  existsb (fun r => hash_eqb (er_commit r) c) l.
(* HashSet::is_subset over the commit hashes *)
Definition commits_subset (a b : list rec) : bool :=
  forallb (fun r => mem_commit (er_commit r) b) a.

(* stable insertion sort: processing from the right, x is inserted BEFORE the first element
   whose time is >= its own, so elements with equal times keep their original order *)
Fixpoint insert_front (x : rec) (l : list rec) : list rec :=
  match l with
  | [] => [x]
  | y :: r => if N.ltb (er_time y) (er_time x) then y :: insert_front x r else x :: y :: r
  end.
Fixpoint sort_by_time (l : list rec) : list rec :=
  match l with
  | [] => []
  | x :: r => insert_front x (sort_by_time r)
  end.

Inductive merge_status := RewindLocal (events : list rec) | PushRemote (events : list rec).

(* local.retain(|r| !remote_commits.contains(r.commit())) *)
Definition not_in_remote (remote : list rec) (local : list rec) : list rec :=
  filter (fun r => negb (mem_commit (er_commit r) remote)) local.

Definition merge_patches (local remote : list rec) : merge_status :=
  if commits_subset local remote then RewindLocal remote
  else PushRemote (sort_by_time (not_in_remote remote local ++ remote)).
End MergePatches.
Arguments RewindLocal {hash dat}. Arguments PushRemote {hash dat}.
