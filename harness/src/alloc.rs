//! Counting allocator: current/peak live bytes and the largest single request, so that the
//! harness can report allocation out of proportion to the input (C15).
use std::alloc::{GlobalAlloc, Layout, System};
use std::sync::atomic::{AtomicUsize, Ordering::Relaxed};

pub struct Counting;
static CUR: AtomicUsize = AtomicUsize::new(0);
static PEAK: AtomicUsize = AtomicUsize::new(0);
static MAXREQ: AtomicUsize = AtomicUsize::new(0);
/// requests above this size are refused (null): the process aborts with an allocation
/// error instead of taking the machine down; the orchestrator records the case as `abort`
pub const REFUSE_ABOVE: usize = 1 << 31;

unsafe impl GlobalAlloc for Counting {
    unsafe fn alloc(&self, l: Layout) -> *mut u8 {
        MAXREQ.fetch_max(l.size(), Relaxed);
        if l.size() > REFUSE_ABOVE {
            return std::ptr::null_mut();
        }
        let p = System.alloc(l);
        if !p.is_null() {
            let c = CUR.fetch_add(l.size(), Relaxed) + l.size();
            PEAK.fetch_max(c, Relaxed);
        }
        p
    }
    unsafe fn dealloc(&self, p: *mut u8, l: Layout) {
        CUR.fetch_sub(l.size(), Relaxed);
        System.dealloc(p, l)
    }
    unsafe fn alloc_zeroed(&self, l: Layout) -> *mut u8 {
        MAXREQ.fetch_max(l.size(), Relaxed);
        if l.size() > REFUSE_ABOVE {
            return std::ptr::null_mut();
        }
        let p = System.alloc_zeroed(l);
        if !p.is_null() {
            let c = CUR.fetch_add(l.size(), Relaxed) + l.size();
            PEAK.fetch_max(c, Relaxed);
        }
        p
    }
    unsafe fn realloc(&self, p: *mut u8, l: Layout, new: usize) -> *mut u8 {
        MAXREQ.fetch_max(new, Relaxed);
        if new > REFUSE_ABOVE {
            return std::ptr::null_mut();
        }
        let q = System.realloc(p, l, new);
        if !q.is_null() {
            if new >= l.size() {
                let c = CUR.fetch_add(new - l.size(), Relaxed) + (new - l.size());
                PEAK.fetch_max(c, Relaxed);
            } else {
                CUR.fetch_sub(l.size() - new, Relaxed);
            }
        }
        q
    }
}

/// start a measurement window: returns the live byte count at the start
pub fn window_start() -> usize {
    let c = CUR.load(Relaxed);
    PEAK.store(c, Relaxed);
    MAXREQ.store(0, Relaxed);
    c
}
/// (peak growth over the window, largest single request)
pub fn window_end(start: usize) -> (usize, usize) {
    (PEAK.load(Relaxed).saturating_sub(start), MAXREQ.load(Relaxed))
}
