(* C17 — external file blobs: the file event reducer (reducers/src/files.rs: IndexSet
   insert / shift_remove), the client operations that write a blob and append the matching
   event (storage/client/src/files/file_manager.rs), and the server's upload machine
   (server/src/handlers/files.rs receive_file).  Definitions only. *)
From Coq Require Import List Bool.
Import ListNotations.

Section Files.
Variable file : Type.                 (* (folder, secret, name) *)
Variable file_eqb : file -> file -> bool.

Inductive fevent := FCreate (f : file) | FMove (from dest : file) | FDelete (f : file).

Definition fmem (f : file) (s : list file) : bool := existsb (file_eqb f) s.
Definition fremove (f : file) (s : list file) : list file := filter (fun g => negb (file_eqb f g)) s.
Definition finsert (f : file) (s : list file) : list file := if fmem f s then s else s ++ [f].
Definition fstep (s : list file) (e : fevent) : list file :=
  match e with
  | FCreate f => finsert f s
  | FMove a b => finsert b (fremove a s)
  | FDelete f => fremove f s
  end.
Definition freduce (evs : list fevent) : list file := fold_left fstep evs [].

(* the editing device: every operation changes the blob directory and appends the event *)
Record dev := mkDev { blobs : list file; flog : list fevent }.
Definition dev_apply (d : dev) (e : fevent) : dev := mkDev (fstep (blobs d) e) (flog d ++ [e]).
Definition dev_run (es : list fevent) : dev := fold_left dev_apply es (mkDev [] []).

(* the server's upload machine *)
Variables name bytes : Type.
Variable name_eqb : name -> name -> bool.
Variable H : bytes -> name.
Record srv := mkSrv { store : list (name * bytes); uploads : list (name * bytes) }.
Inductive ustep :=
| UCreateTmp (n : name)              (* File::create(<name>.upload) *)
| UWrite (n : name) (b : bytes)      (* the body streamed into it *)
| UCommit (n : name)                 (* digest == name: rename into place *)
| UDiscard (n : name).               (* digest != name: the guard removes the temporary file *)
Definition has (n : name) (l : list (name * bytes)) : bool := existsb (fun x => name_eqb (fst x) n) l.
Definition drop_n (n : name) (l : list (name * bytes)) := filter (fun x => negb (name_eqb (fst x) n)) l.
Definition ustep_apply (s : srv) (u : ustep) : srv :=
  match u with
  | UCreateTmp n => mkSrv (store s) (uploads s)
  | UWrite n b => mkSrv (store s) ((n, b) :: drop_n n (uploads s))
  | UCommit n =>
      match find (fun x => name_eqb (fst x) n) (uploads s) with
      | Some (_, b) => if name_eqb (H b) n then mkSrv ((n, b) :: store s) (drop_n n (uploads s)) else s
      | None => s
      end
  | UDiscard n => mkSrv (store s) (drop_n n (uploads s))
  end.
(* receive_file: refuse when the name exists; otherwise temp, write, then commit or discard *)
Definition receive_steps (s : srv) (n : name) (b : bytes) : list ustep :=
  if has n (store s) then []
  else [UCreateTmp n; UWrite n b; if name_eqb (H b) n then UCommit n else UDiscard n].
Definition receive (s : srv) (n : name) (b : bytes) : srv := fold_left ustep_apply (receive_steps s n b) s.
End Files.
