"""C07 — patches apply only on the agreed base; a refused merge changes nothing.
Same harness and model as C06, generator biased towards refusals."""
from vcheck.props import c06

ID = "C07"
SUB = "c07"
LEVEL = "proof"
IMPL_TIMEOUT = 3000
RULE = ("op sequences biased towards refusals: checked patches with the current, a stale, a foreign or an unrelated "
        "head proof; rewinds to present, duplicated and absent commits; replace-all with matching, stale and foreign "
        "checkpoints and empty patches; on both backends; non-trivial = at least one refused request after the log "
        "became non-empty; distinct by op list")
TRUSTED_BASE = c06.TRUSTED_BASE
ASSUMPTIONS = c06.ASSUMPTIONS


def corpus():
    return [
        "c07 k_o4_fs be=fs ops=ar:0:2@1,4@2,6@3,8@4|rw:0:i0",
        "c07 k_o4_db be=db ops=ar:0:2@1,4@2,6@3,8@4|rw:0:i0",
        "c07 k_o6_db be=db ops=ar:0:2@1,4@2|ra:0:cur:6@3|ra:0:cur:|ra:0:ok:6@3,8@4",
        "c07 k_o6_fs be=fs ops=ar:0:2@1,4@2|ra:0:cur:6@3|ra:0:cur:|ra:1:seq2:4@1|ra:0:ok:6@3,8@4",
        "c07 k_pc_fs be=fs ops=ar:0:2@1|ar:1:2@1|pc:0:other1:4@2|ar:1:6@3|pc:0:other1:8@4|pc:0:prev:8@5|pc:0:head:8@6",
        "c07 k_pc_db be=db ops=ar:0:2@1|ar:1:2@1|pc:0:other1:4@2|ar:1:6@3|pc:0:other1:8@4|pc:0:prev:8@5|pc:0:head:8@6",
    ]


def gen_cases(rng, tier):
    return c06.gen_cases(rng, tier, refusal_bias=True, sub="c07")


def oracle(case, obs):
    keep = ("refused_unchanged", "patch_iff_head", "rewind_suffix", "no_observation", "stream_readable")
    return [f for f in c06.oracle(case, obs, want_c07=True) if f["oracle"] in keep]


def nontrivial(case, obs):
    steps = c06.parse_obs(obs)
    return any((s["res"] or "").startswith(("err", "conflict")) and any(l["fwd"] for l in s["logs"].values())
               for s in steps.values())


distinct_key = c06.distinct_key
shrink = c06.shrink
distribution = c06.distribution

MANIFEST = {
    "category": "proof",
    "text": ("Coq theorems over the event-log model: a checked patch is applied iff the tree comparison answers Equal "
             "(with C08: iff the sender's leaf sequence is the log's, modulo explicit hash collisions) and a conflict "
             "leaves the log untouched; rewind followed by re-applying the returned records restores the log exactly "
             "(rollback of rewind-and-patch); replace-all either installs exactly the given records or changes nothing. "
             "Tied to both backends by the extracted-model correspondence on refusal-biased op sequences"),
    "design_ref": "DESIGN.md §4 C07",
    "note": "trusts: Coq kernel, extraction, harness, SQLite transaction semantics; the merge layers above the log (folder replay) are covered by C02",
    "technique": "Coq proof (case analysis per request kind; rewind/rollback inverse lemma) + extracted-model correspondence on both backends",
}
