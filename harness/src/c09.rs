//! C09: concurrent syncs, request-granular interleavings.
//! Case: "c09 <id> cbe=fs|db sbe=fs|db devs=<n> pre=<steps> sched=<d,d,d,...> post=<steps>"
//!   pre   : sequential pre-history (account-history steps, see acct.rs)
//!   sched : every device starts one sync() at the same time; the DirectClient yields to the
//!           harness scheduler before EVERY request; the scheduler lets the devices' requests
//!           through one at a time in the order given (entries naming a device that is not
//!           waiting are skipped; when the list is exhausted, lowest device first)
//!   post  : sequential steps afterwards (the quiescent rounds)
//! Output: "<id> req <n> dev=<d> kind=<k> ok=<0|1> <details>" + the server logs after each
//! request ("<id> req <n> SRV <log> <tok,tok,..>"), "<id> par D<d> res=<..>" per sync call,
//! then the usual observation lines of the post steps.
use crate::acct::World;
use crate::sync::Gate;
use crate::util::{kv, rt};
use futures::future::BoxFuture;
use std::collections::{HashMap, HashSet};
use std::io::Write;
use std::sync::{atomic::{AtomicBool, Ordering}, Arc, Mutex};
use tokio::sync::{Notify, Semaphore};

pub struct Sched {
    pub open: AtomicBool,
    pub waiting: Mutex<Vec<(String, String)>>,
    pub permits: Mutex<HashMap<String, Arc<Semaphore>>>,
    pub arrived: Notify,
}

impl Sched {
    pub fn new() -> Arc<Sched> {
        Arc::new(Sched { open: AtomicBool::new(true), waiting: Mutex::new(vec![]), permits: Mutex::new(HashMap::new()), arrived: Notify::new() })
    }
    pub fn gate(self: &Arc<Self>) -> Gate {
        let me = self.clone();
        Gate(Some(Arc::new(move |dev: &str, kind: &str| -> BoxFuture<'static, ()> {
            let me = me.clone();
            let dev = dev.to_string();
            let kind = kind.to_string();
            Box::pin(async move {
                if me.open.load(Ordering::SeqCst) {
                    return;
                }
                let sem = {
                    let mut p = me.permits.lock().unwrap();
                    p.entry(dev.clone()).or_insert_with(|| Arc::new(Semaphore::new(0))).clone()
                };
                me.waiting.lock().unwrap().push((dev.clone(), kind));
                me.arrived.notify_one();
                let permit = sem.acquire().await.unwrap();
                permit.forget();
            })
        })))
    }
}

pub fn run(text: &str, cases_path: &str, out: &mut impl Write) {
    let rt = rt();
    let base = std::path::Path::new(cases_path).parent().unwrap().join("data-c09");
    for line in text.lines() {
        let toks: Vec<&str> = line.split_whitespace().collect();
        if toks.len() < 2 || toks[0].starts_with('#') {
            continue;
        }
        let id = toks[1].to_string();
        let cdb = kv(&toks, "cbe") == Some("db");
        let sdb = kv(&toks, "sbe") == Some("db");
        let ndev: usize = kv(&toks, "devs").unwrap_or("2").parse().unwrap();
        let split = |k: &str| -> Vec<String> { kv(&toks, k).unwrap_or("").split('|').filter(|s| !s.is_empty()).map(|s| s.to_string()).collect() };
        let (pre, post) = (split("pre"), split("post"));
        let sched_list: Vec<usize> = kv(&toks, "sched").unwrap_or("").split(',').filter(|s| !s.is_empty()).map(|s| s.parse().unwrap()).collect();
        writeln!(out, "{id} !begin").unwrap();
        out.flush().unwrap();
        rt.block_on(async {
            let sched = Sched::new();
            let mut w = World::new(base.join(&id), cdb, sdb, ndev, sched.gate()).await;
            for op in &pre {
                let _ = w.step(op).await;
            }
            // observe the state before the concurrent phase (defines the tokens)
            let mut lines = vec![];
            for d in 0..ndev { w.observe_device(d, &mut lines).await; }
            w.observe_server(&mut lines).await;
            for l in &lines {
                if let Some(rest) = l.strip_prefix('!') { writeln!(out, "{id} !0 {rest}").unwrap(); } else { writeln!(out, "{id} 0 {l}").unwrap(); }
            }
            // the server logs (full commit hashes) before the concurrent phase
            for (name, leaves) in w.server.log_leaves().await {
                writeln!(out, "{id} req 0 SRV {name} {}", leaves.iter().map(hex::encode).collect::<Vec<_>>().join(",")).unwrap();
            }
            // concurrent phase
            sched.open.store(false, Ordering::SeqCst);
            w.server.record_snaps.store(true, Ordering::SeqCst);
            let results: Arc<Mutex<Vec<Option<String>>>> = Arc::new(Mutex::new(vec![None; ndev]));
            let finished: Arc<Mutex<HashSet<String>>> = Arc::new(Mutex::new(HashSet::new()));
            let syncs = futures::future::join_all((0..ndev).map(|d| {
                let dev = &w.devs[d];
                let results = results.clone();
                let finished = finished.clone();
                let sched = sched.clone();
                async move {
                    let r = dev.sync().await;
                    let s = match r {
                        Ok(_) => "ok".to_string(),
                        Err(e) => {
                            let t = format!("{e:?}");
                            format!("err:{}", t.chars().filter(|c| !c.is_whitespace()).take(100).collect::<String>())
                        }
                    };
                    results.lock().unwrap()[d] = Some(s);
                    finished.lock().unwrap().insert(format!("D{d}"));
                    sched.arrived.notify_one();
                }
            }));
            let driver = {
                let sched = sched.clone();
                let finished = finished.clone();
                let mut order = sched_list.clone();
                order.reverse();
                async move {
                    let mut guard = 0u32;
                    loop {
                        // wait until every unfinished device is parked at the gate
                        loop {
                            let nwait = sched.waiting.lock().unwrap().len();
                            let nfin = finished.lock().unwrap().len();
                            if nwait + nfin >= ndev { break; }
                            if tokio::time::timeout(std::time::Duration::from_secs(20), sched.arrived.notified()).await.is_err() {
                                return false; // a device neither finished nor reached a request: hang
                            }
                        }
                        if finished.lock().unwrap().len() >= ndev { return true; }
                        // choose the next device
                        let waiting: Vec<String> = sched.waiting.lock().unwrap().iter().map(|x| x.0.clone()).collect();
                        let mut chosen: Option<String> = None;
                        while let Some(d) = order.pop() {
                            let name = format!("D{d}");
                            if waiting.contains(&name) { chosen = Some(name); break; }
                        }
                        let chosen = chosen.unwrap_or_else(|| { let mut ws = waiting.clone(); ws.sort(); ws[0].clone() });
                        sched.waiting.lock().unwrap().retain(|x| x.0 != chosen);
                        let sem = sched.permits.lock().unwrap().get(&chosen).cloned().unwrap();
                        sem.add_permits(1);
                        // let the released device run to its next request or to completion
                        tokio::task::yield_now().await;
                        guard += 1;
                        if guard > 500 { return false; }
                    }
                }
            };
            let (_, completed) = tokio::time::timeout(std::time::Duration::from_secs(120), async { futures::join!(syncs, driver) })
                .await
                .unwrap_or(((vec![]), false));
            sched.open.store(true, Ordering::SeqCst);
            w.server.record_snaps.store(false, Ordering::SeqCst);
            // report the requests and the server log after each
            let snaps = std::mem::take(&mut *w.server.snaps.lock().unwrap());
            let trace = w.server.trace.lock().unwrap().clone();
            let _ = trace;
            for (n, s) in snaps.iter().enumerate() {
                writeln!(out, "{id} req {} dev={} kind={} ok={} {}", n + 1, s.device, s.kind, s.ok as u8, s.details).unwrap();
                for (name, leaves) in &s.logs {
                    writeln!(out, "{id} req {} SRV {name} {}", n + 1, leaves.iter().map(hex::encode).collect::<Vec<_>>().join(",")).unwrap();
                }
            }
            writeln!(out, "{id} par completed={}", completed as u8).unwrap();
            for (d, r) in results.lock().unwrap().iter().enumerate() {
                writeln!(out, "{id} par D{d} res={}", r.clone().unwrap_or_else(|| "HANG".into())).unwrap();
            }
            // state after the concurrent phase, then the post steps
            let mut lines = vec![];
            for d in 0..ndev { w.observe_device(d, &mut lines).await; }
            w.observe_server(&mut lines).await;
            for l in &lines {
                if let Some(rest) = l.strip_prefix('!') { writeln!(out, "{id} !1 {rest}").unwrap(); } else { writeln!(out, "{id} 1 {l}").unwrap(); }
            }
            for (n, op) in post.iter().enumerate() {
                let res = w.step(op).await;
                writeln!(out, "{id} {} op={op} res={res}", n + 2).unwrap();
                if n + 1 == post.len() {
                    let mut lines = vec![];
                    for d in 0..ndev { w.observe_device(d, &mut lines).await; }
                    w.observe_server(&mut lines).await;
                    for l in lines {
                        if let Some(rest) = l.strip_prefix('!') { writeln!(out, "{id} !{} {rest}", n + 2).unwrap(); } else { writeln!(out, "{id} {} {l}", n + 2).unwrap(); }
                    }
                }
            }
            crate::acct::set_clock(0);
        });
        let _ = std::fs::remove_dir_all(base.join(&id));
    }
}
