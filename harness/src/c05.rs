//! C05 (function level): AutoMerge::merge_patches on the real trait method, reached through
//! the harness Bridge.  Case: "c05 <id> L=<k@t,..> R=<k@t,..>" (record specs as in c06).
use crate::c06::records_for;
use crate::sync::{Device, Gate, Server};
use crate::util::{kv, rt};
use sos_account::Account;
use sos_core::{commit::CommitTree, events::EventRecord};
use sos_remote_sync::{AutoMerge, AutoMergeStatus};
use std::io::Write;

fn fmt(r: &EventRecord) -> String {
    let odt: time::OffsetDateTime = r.time().clone().into();
    let secs = odt.unix_timestamp() - 1_700_000_000;
    let nanos = odt.nanosecond() as i64;
    let t = secs * 1000 + nanos / 1_000_001;
    let dh = CommitTree::hash(r.event_bytes());
    format!("{}:{}@{}", &hex::encode(r.commit().as_ref())[..8], &hex::encode(dh)[..4], t)
}

pub fn run(text: &str, cases_path: &str, out: &mut impl Write) {
    // end-to-end cases ("c05 <id> ... hist=...") are account histories: same harness as C04
    let (acct_lines, text): (Vec<&str>, Vec<&str>) = text.lines().partition(|l| l.contains(" hist="));
    if !acct_lines.is_empty() {
        crate::acct::run(&acct_lines.join("\n"), cases_path, out);
    }
    let text = text.join("\n");
    let text = text.as_str();
    let rt = rt();
    let base = std::path::Path::new(cases_path).parent().unwrap().join("data-c05");
    let _ = std::fs::remove_dir_all(&base);
    rt.block_on(async {
        let probe = Device::create("d1", &base.join("d1"), Server::new(&base.join("srv0"), Default::default(), false).await, false, Gate::default()).await;
        let account_id = *probe.bridge.account.lock().await.account_id();
        let _ = account_id;
        for line in text.lines() {
            let toks: Vec<&str> = line.split_whitespace().collect();
            if toks.len() < 2 || toks[0].starts_with('#') {
                continue;
            }
            let id = toks[1];
            let local = records_for(kv(&toks, "L").unwrap_or("")).await;
            let remote = records_for(kv(&toks, "R").unwrap_or("")).await;
            match probe.bridge.merge_patches(local, remote).await {
                Ok(AutoMergeStatus::RewindLocal(v)) => {
                    writeln!(out, "{id} rewind {}", v.iter().map(fmt).collect::<Vec<_>>().join(",")).unwrap()
                }
                Ok(AutoMergeStatus::PushRemote(v)) => {
                    writeln!(out, "{id} push {}", v.iter().map(fmt).collect::<Vec<_>>().join(",")).unwrap()
                }
                Err(e) => writeln!(out, "{id} err {e:?}").unwrap(),
            }
        }
    });
}
