(* The Merkle model instantiated with the executable SHA-256: concrete witnesses (refutations,
   non-vacuity examples).  No general theorem depends on this file. *)
From Coq Require Import List NArith Bool.
From SosModel Require Import base.Sha256 model.Merkle proofs.Merkle_Lemmas.
Import ListNotations.
Local Open Scope N_scope.

Definition bhash := list N.
Fixpoint bytes_eqb (a b : list N) : bool :=
  match a, b with
  | [], [] => true
  | x :: a', y :: b' => (x =? y) && bytes_eqb a' b'
  | _, _ => false
  end.
Lemma bytes_eqb_spec a : forall b, bytes_eqb a b = true <-> a = b.
Proof.
  induction a as [|x a IH]; intros [|y b]; cbn [bytes_eqb]; split; intro H;
    try reflexivity; try discriminate.
  - apply andb_true_iff in H. destruct H as [Hx Hr]. apply N.eqb_eq in Hx.
    apply IH in Hr. congruence.
  - injection H as -> ->. apply andb_true_iff. split; [apply N.eqb_refl|apply IH; reflexivity].
Qed.
Definition sha2 (a b : bhash) : bhash := sha256 (a ++ b).
Definition leaf (s : N) : bhash := sha256 [s].

Definition cmp := tree_compare bhash bytes_eqb sha2.
Definition hd := head bhash sha2.

(* O1: 'contains' is answered for a log that is not a prefix (same leaf at index 1) *)
Definition w_l1 := [leaf 0; leaf 1; leaf 2].
Definition w_l2 := [leaf 3; leaf 1].
Lemma contains_not_prefix_witness :
  exists p, hd w_l2 = Some p /\ cmp w_l1 p = Some (CmpContains [1]) /\
            firstn (length w_l2) w_l1 <> w_l2.
Proof.
  destruct (hd w_l2) as [p|] eqn:Hp; [|vm_compute in Hp; discriminate].
  exists p. split; [reflexivity|]. split.
  - vm_compute in Hp. injection Hp as <-. vm_compute. reflexivity.
  - vm_compute. discriminate.
Qed.

(* non-vacuity: a proper prefix gives Contains, equal logs give Equal, diverged Unknown *)
Lemma nonvacuous_contains :
  exists p, hd [leaf 0; leaf 1] = Some p /\ cmp [leaf 0; leaf 1; leaf 2] p = Some (CmpContains [1]).
Proof.
  destruct (hd [leaf 0; leaf 1]) as [p|] eqn:Hp; [|vm_compute in Hp; discriminate].
  exists p. split; [reflexivity|]. vm_compute in Hp. injection Hp as <-. vm_compute. reflexivity.
Qed.
Lemma nonvacuous_unknown :
  exists p, hd [leaf 0; leaf 1] = Some p /\ cmp [leaf 0; leaf 2; leaf 2] p = Some CmpUnknown.
Proof.
  destruct (hd [leaf 0; leaf 1]) as [p|] eqn:Hp; [|vm_compute in Hp; discriminate].
  exists p. split; [reflexivity|]. vm_compute in Hp. injection Hp as <-. vm_compute. reflexivity.
Qed.

(* O2 (pinned tree, before the fix): a proof from a 5-leaf log does not verify against the
   4-leaf replica that agrees on the proven leaf, when the verifier's length is used *)
Definition w5 := [leaf 0; leaf 1; leaf 2; leaf 3; leaf 4].
Definition w4 := [leaf 0; leaf 1; leaf 2; leaf 3].
Lemma verify_leaves_pinned_refuted :
  exists p, proof_at bhash sha2 w5 2 = Some p /\
    nth_error w4 2 = nth_error w5 2 /\
    verify_leaves_pinned bhash bytes_eqb sha2 p w4 = false /\
    verify_leaves bhash bytes_eqb sha2 p w4 = true.
Proof.
  destruct (proof_at bhash sha2 w5 2) as [p|] eqn:Hp; [|vm_compute in Hp; discriminate].
  exists p. split; [reflexivity|]. vm_compute in Hp. injection Hp as <-.
  split; [reflexivity|]. split; vm_compute; reflexivity.
Qed.
