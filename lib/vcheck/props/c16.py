"""C16 — integrity reports flag every corruption and nothing else.
Accounts built by generated single-device histories on both backends; the report must be
empty on the untouched account; then every content region (stored checksum, encrypted value,
event payload) of every folder's vault and log is mutated one byte at a time (file bytes on
the file-system backend, SQL column bytes on SQLite) and the stores are removed one at a time
(the vault / log file; on SQLite every folder_secrets / folder_events row of the folder);
each time the report must contain a failure for that folder and must complete."""
from vcheck import acct

ID = "C16"
SUB = "c16"
LEVEL = "proof"
RESILIENT = True
IMPL_TIMEOUT = 3000
RULE = ("per account: one clean run + one run per mutated byte position (every stride-th byte and the last byte of each "
        "content region: stored checksum, encrypted value / event payload) + one run per removed store; non-trivial = "
        "every mutation (all land inside a content region of a distinct row / record); distinct by (account, store, "
        "folder, region, position)")
TRUSTED_BASE = ["model/Integrity.v transcribes vault_integrity / event_integrity (checksum = SHA-256 of content per row)",
                "the harness parses the vault and log row layout to locate content regions"]
ASSUMPTIONS = ["positions inside length fields are outside the property and are not mutated",
               "external file blobs are covered by C17's checks, not here"]


def corpus():
    return ["c16 k_fs cbe=fs stride=11 hist=c0:a|c0:b|u0:a|x0:b|f0:1|c0:c@1",
            "c16 k_db cbe=db stride=11 hist=c0:a|c0:b|u0:a|x0:b|f0:1|c0:c@1",
            # a folder with many rows (the report streams rows through bounded channels)
            "c16 k_many_fs cbe=fs stride=29 hist=" + "|".join("c0:s%d" % i for i in range(24)),
            "c16 k_many_db cbe=db stride=29 hist=" + "|".join("c0:s%d" % i for i in range(24))]


def gen_cases(rng, tier):
    n = 6 if tier == "quick" else 120
    stride = 7 if tier == "quick" else 1
    out = []
    for j in range(n):
        ops = []
        for _ in range(rng.randrange(3, 9)):
            r = rng.random()
            ops.append(("c0:%s" if r < 0.5 else "u0:%s" if r < 0.75 else "x0:%s") % rng.choice("abc"))
        if rng.random() < 0.5: ops += ["f0:1", "c0:d@1"]
        out.append("c16 g%d cbe=%s stride=%d hist=%s" % (j, "db" if j % 2 else "fs", stride, "|".join(ops)))
    return out


def oracle(case, obs):
    fails = []
    be = dict(t.split("=", 1) for t in case.split()[2:] if "=" in t).get("cbe")
    seen_clean = False
    for o in obs:
        if o.startswith("!"): continue
        t = o.split()
        kv = dict(x.split("=", 1) for x in t if "=" in x)
        if t[0] == "clean":
            seen_clean = True
            if kv.get("failures") != "0":
                fails.append({"oracle": "sound", "backend": be, "detail": "untouched account reports %s failure(s)" % kv.get("failures")})
            if kv.get("complete") != "1":
                fails.append({"oracle": "completes", "backend": be, "detail": "report on the untouched account did not complete"})
        elif t[0] == "fclean":
            if kv.get("failures") != "0":
                fails.append({"oracle": "sound", "backend": be, "store": "blob", "detail": "untouched blobs report %s failure(s)" % kv.get("failures")})
            if kv.get("complete") != "1":
                fails.append({"oracle": "completes", "backend": be, "store": "blob", "detail": "file integrity report on untouched blobs did not complete"})
        elif t[0] in ("mut", "rm", "fmut", "frm"):
            if kv.get("detected") != "1":
                fails.append({"oracle": "complete", "backend": be, "store": t[1], "region": t[3] if t[0] in ("mut", "fmut") else "removed",
                              "detail": "%s: no failure reported for the folder" % o})
            elif kv.get("complete") != "1":
                fails.append({"oracle": "completes", "backend": be, "detail": "%s: report did not complete" % o})
    if not seen_clean:
        fails.append({"oracle": "no_observation", "detail": "no clean run observed"})
    return fails


def nontrivial(case, obs):
    return sum(1 for o in obs if o.startswith("mut ")) > 0


def distinct_key(case):
    return case.split(" ", 2)[2]


def distribution(cases, impl):
    d = {}
    for cid, obs in impl.items():
        for o in obs:
            t = o.split()
            if t and t[0] in ("mut", "rm", "fmut", "frm"):
                k = "%s/%s" % (t[1], t[3] if t[0] in ("mut", "fmut") else "removed")
                d[k] = d.get(k, 0) + 1
    return {"mutations_by_region": d, "total_mutations": sum(d.values())}


MANIFEST = {
    "category": "proof",
    "text": ("Coq theorems over the report model: no failure on stores whose checksums are the hashes of their contents "
             "(soundness), a failure for any change of a row's content (modulo an explicit hash collision) or stored "
             "checksum, Missing for a removed store (completeness); and on the implementation a fault enumeration: clean "
             "report on generated accounts on both backends, then every sampled byte of every content region mutated and "
             "every store removed, one at a time, with the report required to flag the folder and to complete"),
    "design_ref": "DESIGN.md §4 C16",
    "note": "quick tier samples every 7th byte plus region ends; thorough mutates every byte; blobs are checked under C17",
    "technique": "Coq proof (report soundness/completeness modulo collisions) + single-byte fault enumeration on real accounts, both backends",
}
