(* C17 — external file blobs are content-addressed and follow their secret.
   Model: model/Files.v.  (1) the reducer over file events (IndexSet semantics) never holds
   duplicates and changes membership exactly as the event says; (2) on the editing device every
   operation changes the blob directory by the same step as the event it appends, so after any
   history the blobs are the replay of the file log; (3) the server's upload machine: at every
   step boundary everything stored under a final name hashes to that name, and a body that
   does not hash to the requested name leaves the store as it was.  [H] is abstract (SHA-256 in
   the implementation); age encryption and the transfer queue are not modelled. *)
From Coq Require Import List Bool.
From SosModel Require Import model.Files proofs.Files_Lemmas.
Import ListNotations.

Section C17.
Variable file : Type.
Variable file_eqb : file -> file -> bool.
Hypothesis file_eqb_spec : forall a b, file_eqb a b = true <-> a = b.

Theorem C17_reduce_nodup evs : NoDup (freduce file file_eqb evs).
Proof. exact (freduce_nodup file file_eqb file_eqb_spec evs). Qed.
Theorem C17_reduce_create evs f g :
  In g (freduce file file_eqb (evs ++ [FCreate _ f])) <-> In g (freduce file file_eqb evs) \/ g = f.
Proof. exact (reduce_create file file_eqb file_eqb_spec evs f g). Qed.
Theorem C17_reduce_delete evs f g :
  In g (freduce file file_eqb (evs ++ [FDelete _ f])) <-> In g (freduce file file_eqb evs) /\ g <> f.
Proof. exact (reduce_delete file file_eqb file_eqb_spec evs f g). Qed.
Theorem C17_reduce_move evs a b g :
  In g (freduce file file_eqb (evs ++ [FMove _ a b])) <-> (In g (freduce file file_eqb evs) /\ g <> a) \/ g = b.
Proof. exact (reduce_move file file_eqb file_eqb_spec evs a b g). Qed.
Theorem C17_blobs_eq_reduce es :
  blobs _ (dev_run file file_eqb es) = freduce file file_eqb (flog _ (dev_run file file_eqb es)).
Proof. exact (blobs_eq_reduce file file_eqb es). Qed.
End C17.

Section C17Upload.
Variables name bytes : Type.
Variable name_eqb : name -> name -> bool.
Hypothesis name_eqb_spec : forall a b, name_eqb a b = true <-> a = b.
Variable H : bytes -> name.
Theorem C17_upload_never_exposes_partial (s : srv name bytes) n b k : store_ok name bytes H s ->
  store_ok name bytes H (fold_left (ustep_apply name bytes name_eqb H) (firstn k (receive_steps name bytes name_eqb H s n b)) s).
Proof. exact (upload_never_exposes_partial name bytes name_eqb name_eqb_spec H s n b k). Qed.
Theorem C17_upload_mismatch_refused (s : srv name bytes) n b : H b <> n ->
  store _ _ (receive name bytes name_eqb H s n b) = store _ _ s.
Proof. exact (upload_mismatch_refused name bytes name_eqb name_eqb_spec H s n b). Qed.
End C17Upload.

Example C17_nonvacuous :
  freduce nat Nat.eqb [FCreate _ 1; FCreate _ 2; FMove _ 1 3; FDelete _ 2; FCreate _ 3] = [3] /\
  store _ _ (receive nat nat Nat.eqb (fun b => b * 2) (mkSrv nat nat [] []) 10 5) = [(10, 5)] /\
  store _ _ (receive nat nat Nat.eqb (fun b => b * 2) (mkSrv nat nat [] []) 10 6) = [].
Proof. repeat split; reflexivity. Qed.

Print Assumptions C17_reduce_nodup.
Print Assumptions C17_reduce_create.
Print Assumptions C17_reduce_delete.
Print Assumptions C17_reduce_move.
Print Assumptions C17_blobs_eq_reduce.
Print Assumptions C17_upload_never_exposes_partial.
Print Assumptions C17_upload_mismatch_refused.
