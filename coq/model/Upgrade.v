(* C19 — upgrading a file-system account to the database.
   database_upgrader/src/upgrader/db_import.rs: for every log of the account (identity,
   account, device, files, each folder) the records read from the log file are inserted, in
   file order, as rows of the one events table, tagged with the log's owner.  The database
   event log of an owner is then the selection of its rows in row order (model/EventLog.v).
   Definitions only. *)
From Coq Require Import List.
From SosModel Require Import model.EventLog.
Import ListNotations.

Section Upgrade.
Variables hash tm dat owner : Type.
Variable owner_eqb : owner -> owner -> bool.
Notation erec := (@erec hash tm dat).
Notation table := (table hash tm dat owner).

(* the file-system account: one record list per log file *)
Definition fs_store := list (owner * list erec).

(* import_account: log after log, each as one batch of inserts *)
Definition import (s : fs_store) (t : table) : table :=
  fold_left (fun acc (x : owner * list erec) => tb_insert hash tm dat owner acc (fst x) (snd x)) s t.

Definition fs_log (s : fs_store) (o : owner) : list erec :=
  match find (fun x => owner_eqb (fst x) o) s with Some x => snd x | None => [] end.
Definition db_log (t : table) (o : owner) : list erec := tb_select hash tm dat owner owner_eqb t o.
End Upgrade.
