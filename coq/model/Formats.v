(* Binary formats of sos_core::encoding::v1 (events, records, crypto packs, commit proofs).
   Tags and limits come from gen/Generated.v (re-extracted from /repo on every run).
   Definitions only; round-trip proofs are in proofs/Formats_Lemmas.v. *)
From Coq Require Import List NArith ZArith Bool.
From SosModel Require Import base.Bytes gen.Generated.
Import ListNotations.
Local Open Scope N_scope.

Definition MAXB := MAX_BUFFER_SIZE.
Definition p_bytes32' := p_bytes32 MAXB.
Definition p_fixed (n : N) := p_bytes_n MAXB n.
Definition p_str := p_string MAXB.

(* ---- UtcDateTime: i64 seconds + u32 nanoseconds.  time 0.3 without `large-dates`:
   from_unix_timestamp accepts [-377705116800, 253402300799]; the nanoseconds are then ADDED
   as a Duration (checked: an overflow is an error since fix O7-date), so values with
   nanos >= 10^9 are accepted and normalised. *)
Definition TS_MIN : Z := (-377705116800)%Z.
Definition TS_MAX : Z := 253402300799%Z.
Record time := mkTime { t_secs : Z; t_nanos : N }.
Definition p_time : parser time :=
  s <- p_i64 ;; n <- p_u32 ;;
  if ((s <? TS_MIN) || (TS_MAX <? s))%Z then pfail
  else let s' := (s + Z.of_N (n / 1000000000))%Z in
       if (TS_MAX <? s')%Z then pfail else ret (mkTime s' (n mod 1000000000)).
Definition e_time (t : time) : bytes := e_i64 (t_secs t) ++ e_u32 (t_nanos t).

(* ---- AeadPack *)
Inductive nonce := Nonce12 (b : bytes) | Nonce24 (b : bytes).
Record aead := mkAead { a_nonce : nonce; a_ct : bytes }.
Definition p_aead : parser aead :=
  sz <- p_u8 ;; nb <- p_fixed sz ;;
  if sz =? 12 then ct <- p_bytes32' ;; ret (mkAead (Nonce12 nb) ct)
  else if sz =? 24 then ct <- p_bytes32' ;; ret (mkAead (Nonce24 nb) ct)
  else pfail.
Definition e_aead (a : aead) : bytes :=
  match a_nonce a with
  | Nonce12 b => e_u8 12 ++ b
  | Nonce24 b => e_u8 24 ++ b
  end ++ e_bytes32 (a_ct a).

(* ---- VaultEntry / VaultCommit: 32 commit | u32 len (ignored on read) | meta | secret *)
Record vcommit := mkVCommit { vc_commit : bytes; vc_meta : aead; vc_secret : aead }.
Definition p_vcommit : parser vcommit :=
  c <- p_fixed 32 ;; _ <- p_u32 ;; m <- p_aead ;; s <- p_aead ;; ret (mkVCommit c m s).
Definition e_vcommit (v : vcommit) : bytes :=
  let body := e_aead (vc_meta v) ++ e_aead (vc_secret v) in
  vc_commit v ++ e_u32 (lenb body) ++ body.

(* ---- WriteEvent *)
Inductive write_event :=
| WCreateVault (b : bytes) | WSetVaultName (s : bytes) | WSetVaultFlags (f : N)
| WSetVaultMeta (a : aead) | WCreateSecret (id : bytes) (c : vcommit)
| WUpdateSecret (id : bytes) (c : vcommit) | WDeleteSecret (id : bytes).
Definition p_write_event : parser write_event :=
  k <- p_u16 ;;
  if k =? EK_CREATE_VAULT then b <- p_bytes32' ;; ret (WCreateVault b)
  else if k =? EK_SET_VAULT_NAME then s <- p_str ;; ret (WSetVaultName s)
  else if k =? EK_SET_VAULT_FLAGS then
    f <- p_u64 ;; if N.land f (N.lxor VAULT_FLAGS_ALL 18446744073709551615) =? 0
                  then ret (WSetVaultFlags f) else pfail
  else if k =? EK_SET_VAULT_META then a <- p_aead ;; ret (WSetVaultMeta a)
  else if k =? EK_CREATE_SECRET then id <- p_fixed 16 ;; c <- p_vcommit ;; ret (WCreateSecret id c)
  else if k =? EK_UPDATE_SECRET then id <- p_fixed 16 ;; c <- p_vcommit ;; ret (WUpdateSecret id c)
  else if k =? EK_DELETE_SECRET then id <- p_fixed 16 ;; ret (WDeleteSecret id)
  else pfail.
Definition e_write_event (e : write_event) : bytes :=
  match e with
  | WCreateVault b => e_u16 EK_CREATE_VAULT ++ e_bytes32 b
  | WSetVaultName s => e_u16 EK_SET_VAULT_NAME ++ e_bytes32 s
  | WSetVaultFlags f => e_u16 EK_SET_VAULT_FLAGS ++ e_u64 f
  | WSetVaultMeta a => e_u16 EK_SET_VAULT_META ++ e_aead a
  | WCreateSecret id c => e_u16 EK_CREATE_SECRET ++ id ++ e_vcommit c
  | WUpdateSecret id c => e_u16 EK_UPDATE_SECRET ++ id ++ e_vcommit c
  | WDeleteSecret id => e_u16 EK_DELETE_SECRET ++ id
  end.

(* ---- AccountEvent *)
Inductive account_event :=
| ARenameAccount (s : bytes) | AUpdateIdentity (b : bytes)
| ACreateFolder (id b : bytes) | AChangeFolderPassword (id b : bytes)
| AUpdateFolder (id b : bytes) | ACompactFolder (id b : bytes)
| ARenameFolder (id s : bytes) | ADeleteFolder (id : bytes).
Definition p_account_event : parser account_event :=
  k <- p_u16 ;;
  if k =? EK_RENAME_ACCOUNT then s <- p_str ;; ret (ARenameAccount s)
  else if k =? EK_UPDATE_IDENTITY then b <- p_bytes32' ;; ret (AUpdateIdentity b)
  else if k =? EK_CREATE_VAULT then id <- p_fixed 16 ;; b <- p_bytes32' ;; ret (ACreateFolder id b)
  else if k =? EK_CHANGE_PASSWORD then id <- p_fixed 16 ;; b <- p_bytes32' ;; ret (AChangeFolderPassword id b)
  else if k =? EK_UPDATE_VAULT then id <- p_fixed 16 ;; b <- p_bytes32' ;; ret (AUpdateFolder id b)
  else if k =? EK_COMPACT_VAULT then id <- p_fixed 16 ;; b <- p_bytes32' ;; ret (ACompactFolder id b)
  else if k =? EK_SET_VAULT_NAME then id <- p_fixed 16 ;; s <- p_str ;; ret (ARenameFolder id s)
  else if k =? EK_DELETE_VAULT then id <- p_fixed 16 ;; ret (ADeleteFolder id)
  else pfail.
Definition e_account_event (e : account_event) : bytes :=
  match e with
  | ARenameAccount s => e_u16 EK_RENAME_ACCOUNT ++ e_bytes32 s
  | AUpdateIdentity b => e_u16 EK_UPDATE_IDENTITY ++ e_bytes32 b
  | ACreateFolder id b => e_u16 EK_CREATE_VAULT ++ id ++ e_bytes32 b
  | AChangeFolderPassword id b => e_u16 EK_CHANGE_PASSWORD ++ id ++ e_bytes32 b
  | AUpdateFolder id b => e_u16 EK_UPDATE_VAULT ++ id ++ e_bytes32 b
  | ACompactFolder id b => e_u16 EK_COMPACT_VAULT ++ id ++ e_bytes32 b
  | ARenameFolder id s => e_u16 EK_SET_VAULT_NAME ++ id ++ e_bytes32 s
  | ADeleteFolder id => e_u16 EK_DELETE_VAULT ++ id
  end.

(* ---- FileEvent *)
Inductive file_event :=
| FCreateFile (folder secret name : bytes) | FDeleteFile (folder secret name : bytes)
| FMoveFile (name ffolder fsecret dfolder dsecret : bytes).
Definition p_file_event : parser file_event :=
  k <- p_u16 ;;
  if k =? EK_CREATE_FILE then
    f <- p_fixed 16 ;; s <- p_fixed 16 ;; n <- p_fixed 32 ;; ret (FCreateFile f s n)
  else if k =? EK_DELETE_FILE then
    f <- p_fixed 16 ;; s <- p_fixed 16 ;; n <- p_fixed 32 ;; ret (FDeleteFile f s n)
  else if k =? EK_MOVE_FILE then
    n <- p_fixed 32 ;; a <- p_fixed 16 ;; b <- p_fixed 16 ;; c <- p_fixed 16 ;; d <- p_fixed 16 ;;
    ret (FMoveFile n a b c d)
  else pfail.
Definition e_file_event (e : file_event) : bytes :=
  match e with
  | FCreateFile f s n => e_u16 EK_CREATE_FILE ++ f ++ s ++ n
  | FDeleteFile f s n => e_u16 EK_DELETE_FILE ++ f ++ s ++ n
  | FMoveFile n a b c d => e_u16 EK_MOVE_FILE ++ n ++ a ++ b ++ c ++ d
  end.

(* ---- EventRecord row: u32 len | time | 32 previous | 32 commit | u32 dlen | data | u32 len.
   Both length fields are ignored by Decodable for EventRecord. *)
Record record := mkRecord { r_time : time; r_prev : bytes; r_commit : bytes; r_data : bytes }.
Definition p_record : parser record :=
  _ <- p_u32 ;; t <- p_time ;; pv <- p_fixed 32 ;; c <- p_fixed 32 ;; d <- p_bytes32' ;;
  _ <- p_u32 ;; ret (mkRecord t pv c d).
Definition record_body (r : record) : bytes :=
  e_time (r_time r) ++ r_prev r ++ r_commit r ++ e_bytes32 (r_data r).
Definition e_record (r : record) : bytes :=
  let body := record_body r in e_u32 (lenb body) ++ body ++ e_u32 (lenb body).

(* ---- CommitProof: 32 root | u32 n | n proof bytes (multiple of 32) | usize length | Vec<usize> *)
Record cproof := mkCProof { cp_root : bytes; cp_hashes : bytes; cp_length : N; cp_indices : list N }.
Definition p_cproof : parser cproof :=
  r <- p_fixed 32 ;; h <- p_bytes32' ;;
  if negb (lenb h mod 32 =? 0) then pfail
  else len <- p_u64 ;; ix <- p_vec p_u64 ;; ret (mkCProof r h len ix).
Definition e_cproof (p : cproof) : bytes :=
  cp_root p ++ e_bytes32 (cp_hashes p) ++ e_u64 (cp_length p) ++ e_vec e_u64 (cp_indices p).

(* ---- CommitState = CommitHash + CommitProof *)
Definition p_cstate : parser (bytes * cproof) := c <- p_fixed 32 ;; p <- p_cproof ;; ret (c, p).
Definition e_cstate (s : bytes * cproof) : bytes := fst s ++ e_cproof (snd s).

(* ---- Comparison: the index list is read item by item (no pre-allocation from the count
   since fix O7-capacity) *)
Inductive comparison_w := WEqual | WContains (ix : list N) | WUnknown.
Definition p_comparison : parser comparison_w :=
  k <- p_u8 ;;
  if k =? 1 then ret WEqual
  else if k =? 2 then ix <- p_vec p_u64 ;; ret (WContains ix)
  else if k =? 3 then ret WUnknown
  else pfail.
Definition e_comparison (c : comparison_w) : bytes :=
  match c with
  | WEqual => e_u8 1
  | WContains ix => e_u8 2 ++ e_vec e_u64 ix
  | WUnknown => e_u8 3
  end.

(* decode::<T>(buffer): trailing bytes are ignored by binary_stream::decode *)
Definition decode_top {A} (p : parser A) (s : bytes) : option A :=
  match p s with Some (a, _) => Some a | None => None end.

(* A set / map field (SecretMeta tags: HashSet<String>; Secret::List items: HashMap) written by
   vault/src/encoding/secret.rs: a u32 count, then the elements.  Since the fix 'secret tags and
   list items are encoded in sorted order' the elements are written sorted ([canon] = insertion
   sort by the element order); before it they were written in the container's iteration order
   ([e_seq] over whatever order [l] has). *)
Section CanonSet.
Variable A : Type.
Variable leb : A -> A -> bool.
Variable e : A -> bytes.
Fixpoint ins (x : A) (l : list A) : list A :=
  match l with [] => [x] | y :: r => if leb x y then x :: l else y :: ins x r end.
Definition canon (l : list A) : list A := fold_right ins [] l.
Definition e_seq (l : list A) : bytes := e_vec e l.
Definition e_set (l : list A) : bytes := e_seq (canon l).
End CanonSet.
(* the element order of tags: Rust's String order = lexicographic on the UTF-8 bytes, a proper prefix first *)
Fixpoint bytes_leb (a b : bytes) : bool :=
  match a, b with
  | [], _ => true
  | _ :: _, [] => false
  | x :: a', y :: b' => if x <? y then true else if x =? y then bytes_leb a' b' else false
  end.
Definition e_tagset (l : list bytes) : bytes := e_set bytes bytes_leb e_bytes32 l.
(* decode a u32-counted list of strings in any order, write it as the tag field *)
Definition tagset_reencode (b : bytes) : option bytes :=
  match p_vec p_str b with Some (l, _) => Some (e_tagset l) | None => None end.
