(* C04 — placeholder until model/SyncProto.v lands *)
From Coq Require Import List.
Import ListNotations.
Theorem C04_placeholder : forall (A : Type) (l : list A), l ++ [] = l.
Proof. exact app_nil_r. Qed.
Print Assumptions C04_placeholder.
