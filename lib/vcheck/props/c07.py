"""C07 — patches apply only on the agreed base; a refused merge changes nothing.
Same harness and model as C06, generator biased towards refusals."""
import hashlib
from vcheck.props import c06

ID = "C07"
SUB = "c07"
LEVEL = "proof"
IMPL_TIMEOUT = 3000
RULE = ("op sequences biased towards refusals: checked patches with the current, a stale, a foreign or an unrelated "
        "head proof; rewinds to present, duplicated and absent commits; replace-all with matching, stale and foreign "
        "checkpoints and empty patches; on both backends; non-trivial = at least one refused request after the log "
        "became non-empty; distinct by op list")
TRUSTED_BASE = c06.TRUSTED_BASE
ASSUMPTIONS = c06.ASSUMPTIONS


def corpus():
    return [
        "c07 k_o4_fs be=fs ops=ar:0:2@1,4@2,6@3,8@4|rw:0:i0",
        "c07 k_o4_db be=db ops=ar:0:2@1,4@2,6@3,8@4|rw:0:i0",
        "c07 k_o6_db be=db ops=ar:0:2@1,4@2|ra:0:cur:6@3|ra:0:cur:|ra:0:ok:6@3,8@4",
        "c07 k_o6_fs be=fs ops=ar:0:2@1,4@2|ra:0:cur:6@3|ra:0:cur:|ra:1:seq2:4@1|ra:0:ok:6@3,8@4",
        "c07 k_pc_fs be=fs ops=ar:0:2@1|ar:1:2@1|pc:0:other1:4@2|ar:1:6@3|pc:0:other1:8@4|pc:0:prev:8@5|pc:0:head:8@6",
        # server side, every log type: rewind-and-patch requests with matching / default / stale / foreign proofs
        "c07 k_srv_fs mode=server sbe=fs reqs=files:default:none:2|files:default:none:1|files:head:none:1|files:default:first:1|folder:head:none:2|folder:head:first:1|folder:prev:none:1|account:head:none:1|account:other:none:1|device:head:last:1|identity:head:none:1|files:head:first:2",
        "c07 k_srv_db mode=server sbe=db reqs=files:default:none:2|files:default:none:1|files:head:none:1|files:default:first:1|folder:head:none:2|folder:head:first:1|folder:prev:none:1|account:head:none:1|account:other:none:1|device:head:last:1|identity:head:none:1|files:head:first:2",
        "c07 k_pc_db be=db ops=ar:0:2@1|ar:1:2@1|pc:0:other1:4@2|ar:1:6@3|pc:0:other1:8@4|pc:0:prev:8@5|pc:0:head:8@6",
    ]


def gen_server(rng, n):
    out = []
    for j in range(n):
        reqs = []
        for _ in range(rng.randrange(6, 16)):
            log = rng.choice(["files", "files", "folder", "folder", "account", "device", "identity"])
            proof = rng.choice(["head", "head", "default", "prev", "other"])
            commit = rng.choice(["none", "none", "last", "first", "i1", "i2"])
            reqs.append("%s:%s:%s:%d" % (log, proof, commit, rng.choice([1, 1, 2, 3])))
        out.append("c07 v%d mode=server sbe=%s reqs=%s" % (j, "db" if j % 2 else "fs", "|".join(reqs)))
    return out


def gen_cases(rng, tier):
    return c06.gen_cases(rng, tier, refusal_bias=True, sub="c07") + gen_server(rng, 24 if tier == "quick" else 800)


def merkle_root(leaves):
    """rs_merkle as the SDK uses it: pairs hashed, a last odd node promoted"""
    layer = [bytes.fromhex(x) for x in leaves]
    if not layer: return None
    for _ in range(len(leaves).bit_length()):
        nxt = []
        for i in range(0, len(layer), 2):
            nxt.append(hashlib.sha256(layer[i] + layer[i + 1]).digest() if i + 1 < len(layer) else layer[i])
        layer = nxt
    return layer[0].hex()


def server_oracle(case, obs):
    from vcheck.props import c09
    reqs, srv, _ = c09.parse_reqs([o for o in obs if not o.startswith("!")])
    fails = []
    for (n, dev, kind, ok, details) in reqs:
        if kind != "patch": continue
        before, after = srv.get(n - 1, {}), srv.get(n, {})
        dkv = dict(x.split("=", 1) for x in details.split() if "=" in x)
        name, applied = dkv.get("log"), dkv.get("applied") == "1"
        b = before.get(name, []); a = after.get(name, [])
        patch = [x for x in dkv.get("patch", "").split(";") if x]
        c = dkv.get("commit", "-")
        root, length = dkv.get("proof", "/").split("/")
        kept = b if c == "-" else (b[:len(b) - b[::-1].index(c)] if c in b else None)
        for other in before:
            if other != name and before[other] != after.get(other):
                fails.append({"oracle": "refused_unchanged", "op": "event_patch", "detail": "request %d on %s changed log %s" % (n, name, other)})
        if not applied:
            if a != b:
                fails.append({"oracle": "refused_unchanged", "op": "event_patch", "log": name.split(":")[0],
                              "detail": "request %d (%s) was refused but the %s log changed: %d -> %d records" % (n, details[:60], name.split(':')[0], len(b), len(a))})
        else:
            agreed = kept is not None and ((merkle_root(kept) == root and int(length) == len(kept)) or (name == "files" and not b and root == "00" * 32))
            if not agreed:
                fails.append({"oracle": "patch_iff_head", "op": "event_patch", "log": name.split(":")[0],
                              "detail": "request %d applied a patch to the %s log although the checkpoint (%s../%s) is not the head of the log it was applied to (%d records)" % (n, name.split(':')[0], root[:8], length, len(kept or []))})
            if kept is not None and a != kept + patch:
                fails.append({"oracle": "whole_patches", "op": "event_patch", "detail": "request %d: log after an applied patch is not kept ++ patch" % n})
        if (not applied) and kept is not None and merkle_root(kept) == root and int(length) == len(kept) and kept:
            fails.append({"oracle": "patch_iff_head", "op": "event_patch", "log": name.split(":")[0],
                          "detail": "request %d: the checkpoint is the head of the (rewound) %s log but the patch was refused" % (n, name.split(':')[0])})
    return fails



def model_input(cases, impl):
    from vcheck.props import c09
    out = []
    for c in cases:
        if " mode=server " not in c:
            out.append(c); continue
        cid = c.split()[1]
        reqs, srv, _ = c09.parse_reqs([o for o in impl.get(cid, []) if not o.startswith("!")])
        for name, hs in sorted(srv.get(0, {}).items()):
            out.append("%s %s init %s %s" % (SUB, cid, name, ",".join(hs)))
        for (n, dev, kind, ok, details) in reqs:
            out.append("%s %s req %d %s %s" % (SUB, cid, n, kind, details))
    return out


def impl_projection(obs):
    if not any(o.startswith("req ") for o in obs):
        return [o for o in obs if not o.startswith("!")]
    return [o for o in obs if o.startswith("req ") and " SRV " in o and not o.startswith("req 0 ")]


def oracle(case, obs):
    if " mode=server " in case:
        return server_oracle(case, obs)
    keep = ("refused_unchanged", "patch_iff_head", "rewind_suffix", "no_observation", "stream_readable")
    return [f for f in c06.oracle(case, obs, want_c07=True) if f["oracle"] in keep]


def nontrivial(case, obs):
    if " mode=server " in case:
        return any("applied=0" in o for o in obs)
    steps = c06.parse_obs(obs)
    return any((s["res"] or "").startswith(("err", "conflict")) and any(l["fwd"] for l in s["logs"].values())
               for s in steps.values())


distinct_key = c06.distinct_key
def shrink(case):
    if " mode=server " not in case:
        return c06.shrink(case)
    toks = case.split()
    d = dict(t.split("=", 1) for t in toks[2:] if "=" in t)
    reqs = d["reqs"].split("|")
    return ["c07 s mode=server sbe=%s reqs=%s" % (d.get("sbe", "fs"), "|".join(reqs[:i] + reqs[i + 1:])) for i in range(len(reqs)) if len(reqs) > 1]
distribution = c06.distribution

MANIFEST = {
    "category": "proof",
    "text": ("Coq theorems over the event-log model: a checked patch is applied iff the tree comparison answers Equal "
             "(with C08: iff the sender's leaf sequence is the log's, modulo explicit hash collisions) and a conflict "
             "leaves the log untouched; rewind followed by re-applying the returned records restores the log exactly "
             "(rollback of rewind-and-patch); replace-all either installs exactly the given records or changes nothing. "
             "Tied to both backends by the extracted-model correspondence on refusal-biased op sequences"),
    "design_ref": "DESIGN.md §4 C07",
    "note": "trusts: Coq kernel, extraction, harness, SQLite transaction semantics; the merge layers above the log (folder replay) are covered by C02",
    "technique": "Coq proof (case analysis per request kind; rewind/rollback inverse lemma) + extracted-model correspondence on both backends",
}
