From Coq Require Import List NArith.
From SosModel Require Import base.Sha256.
Import ListNotations.
Local Open Scope N_scope.
(* NIST vectors: "" and "abc" *)
Example sha_empty : sha256 [] =
 [227;176;196;66;152;252;28;20;154;251;244;200;153;111;185;36;39;174;65;228;100;155;147;76;164;149;153;27;120;82;184;85].
Proof. vm_compute. reflexivity. Qed.
Example sha_abc : sha256 [97;98;99] =
 [186;120;22;191;143;1;207;234;65;65;64;222;93;174;34;35;176;3;97;163;150;23;122;156;180;16;255;97;242;0;21;173].
Proof. vm_compute. reflexivity. Qed.
