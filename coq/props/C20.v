(* C20 — the search index always matches what the folders contain.
   Model: model/Search.v (document table + counters; the inverted index of probly-search is
   not modelled — it is covered by the rebuilt-index comparison on the implementation only).
   Inv: every counter (per folder, per kind outside the archive folder, favourites, per tag)
   equals a recount of the documents and there is at most one document per (folder, secret).  Preserved by add / remove / update, the only operations the storage
   layer and the merge replay perform on the index. *)
From Coq Require Import List NArith.
From SosModel Require Import model.Search proofs.Search_Lemmas.
Import ListNotations.

Section C20.
Variables folder id : Type.
Variable folder_eqb : folder -> folder -> bool.
Variable id_eqb : id -> id -> bool.
Hypothesis folder_eqb_spec : forall a b, folder_eqb a b = true <-> a = b.
Hypothesis id_eqb_spec : forall a b, id_eqb a b = true <-> a = b.
Notation Inv := (Inv folder id folder_eqb id_eqb).

Theorem C20_inv_empty : Inv (empty_index folder id).
Proof. exact (inv_empty folder id folder_eqb id_eqb). Qed.
Theorem C20_inv_new a : Inv (new_index folder id a).
Proof. exact (inv_new folder id folder_eqb id_eqb a). Qed.
Theorem C20_inv_add x d : Inv x -> Inv (ix_add folder id folder_eqb id_eqb x d).
Proof. exact (add_inv folder id folder_eqb id_eqb folder_eqb_spec id_eqb_spec x d). Qed.
Theorem C20_inv_remove x f i : Inv x -> Inv (ix_remove folder id folder_eqb id_eqb x f i).
Proof. exact (remove_inv folder id folder_eqb id_eqb folder_eqb_spec x f i). Qed.
Theorem C20_inv_update x d : Inv x -> Inv (ix_update folder id folder_eqb id_eqb x d).
Proof. exact (update_inv folder id folder_eqb id_eqb folder_eqb_spec id_eqb_spec x d). Qed.
Theorem C20_removed_is_gone x f i :
  has_doc folder id folder_eqb id_eqb f i (ix_remove folder id folder_eqb id_eqb x f i) = false.
Proof. exact (remove_gone folder id folder_eqb id_eqb x f i). Qed.
(* whole-folder operations: a folder forgotten / deleted (remove_vault) and a forced overwrite
   (remove_vault then add_folder) *)
Theorem C20_inv_remove_vault x f : Inv x -> Inv (ix_remove_vault folder id folder_eqb id_eqb x f).
Proof. exact (remove_vault_inv folder id folder_eqb id_eqb folder_eqb_spec x f). Qed.
Theorem C20_inv_force x f ds : Inv x -> Inv (ix_force folder id folder_eqb id_eqb x f ds).
Proof. exact (force_inv folder id folder_eqb id_eqb folder_eqb_spec id_eqb_spec x f ds). Qed.
Theorem C20_forgotten_folder_is_gone x f d :
  In d (docs folder id (ix_forget folder id folder_eqb id_eqb x f)) -> in_folder folder id folder_eqb f d = false.
Proof. exact (forget_gone folder id folder_eqb id_eqb id_eqb_spec x f d). Qed.
Theorem C20_forget_keeps_other_folders x f :
  docs folder id (ix_forget folder id folder_eqb id_eqb x f)
  = filter (fun e => negb (in_folder folder id folder_eqb f e)) (docs folder id x).
Proof. exact (remove_vault_docs folder id folder_eqb id_eqb id_eqb_spec x f). Qed.
Theorem C20_force_is_rebuild_of_folder x f ds :
  (forall d, In d ds -> d_folder folder id d = f) -> NoDup (map (d_id folder id) ds) ->
  docs folder id (ix_force folder id folder_eqb id_eqb x f ds)
  = filter (fun e => negb (in_folder folder id folder_eqb f e)) (docs folder id x) ++ ds.
Proof. exact (force_docs folder id folder_eqb id_eqb folder_eqb_spec id_eqb_spec x f ds). Qed.
End C20.

(* non-vacuity: a removal of an absent document leaves the counters alone *)
Example C20_nonvacuous_remove_absent :
  ix_remove nat nat Nat.eqb Nat.eqb
    (ix_add nat nat Nat.eqb Nat.eqb (empty_index nat nat) (mkDoc nat nat 1 7 0%N 2%N false [])) 1 8
  = ix_add nat nat Nat.eqb Nat.eqb (empty_index nat nat) (mkDoc nat nat 1 7 0%N 2%N false []).
Proof. reflexivity. Qed.

(* non-vacuity: a forced overwrite replaces the folder's documents and leaves the other folder alone *)
Example C20_nonvacuous_force :
  map (fun d => (d_folder nat nat d, d_id nat nat d))
    (docs nat nat (ix_force nat nat Nat.eqb Nat.eqb
      (ix_add nat nat Nat.eqb Nat.eqb (ix_add nat nat Nat.eqb Nat.eqb (empty_index nat nat)
         (mkDoc nat nat 1 7 0%N 2%N true [3%N])) (mkDoc nat nat 2 9 0%N 2%N false []))
      1 [mkDoc nat nat 1 4 0%N 2%N false []; mkDoc nat nat 1 5 0%N 2%N false []]))
  = [(2, 9); (1, 4); (1, 5)].
Proof. reflexivity. Qed.

Print Assumptions C20_inv_empty.
Print Assumptions C20_inv_remove_vault.
Print Assumptions C20_inv_force.
Print Assumptions C20_forgotten_folder_is_gone.
Print Assumptions C20_forget_keeps_other_folders.
Print Assumptions C20_force_is_rebuild_of_folder.
Print Assumptions C20_inv_new.
Print Assumptions C20_inv_add.
Print Assumptions C20_inv_remove.
Print Assumptions C20_inv_update.
Print Assumptions C20_removed_is_gone.
