From Coq Require Import List NArith Lia.
From SosModel Require Import base.Bytes gen.Generated model.Formats model.Taint.
Import ListNotations.
Local Open Scope N_scope.

Lemma e_aead_split a : e_aead a = aead_pub a ++ a_ct a.
Proof. unfold e_aead, aead_pub, e_bytes32. destruct (a_nonce a); rewrite <- !app_assoc; reflexivity. Qed.

Lemma join_prepend p l : l <> [] -> join (prepend p l) = p ++ join l.
Proof.
  destruct l as [|[q c] r]; [congruence|]. intros _. unfold join, prepend. cbn [flat_map fst snd].
  rewrite <- !app_assoc. reflexivity.
Qed.

Lemma join_split_vcommit v : join (split_vcommit v) = e_vcommit v.
Proof.
  unfold join, split_vcommit, e_vcommit. cbn [flat_map fst snd]. rewrite !e_aead_split, app_nil_r.
  rewrite <- !app_assoc. reflexivity.
Qed.

(* the split is exact *)
Theorem split_exact e : join (split_event e) = e_write_event e.
Proof.
  destruct e as [b|s|f|a|id c|id c|id]; cbn [split_event e_write_event].
  - unfold join, e_bytes32. cbn [flat_map fst snd]. rewrite app_nil_r, <- !app_assoc. reflexivity.
  - unfold join. cbn [flat_map fst snd]. rewrite !app_nil_r. reflexivity.
  - unfold join. cbn [flat_map fst snd]. rewrite !app_nil_r. reflexivity.
  - unfold join. cbn [flat_map fst snd]. rewrite e_aead_split, app_nil_r, <- !app_assoc. reflexivity.
  - rewrite join_prepend by (unfold split_vcommit; discriminate). rewrite join_split_vcommit, <- app_assoc. reflexivity.
  - rewrite join_prepend by (unfold split_vcommit; discriminate). rewrite join_split_vcommit, <- app_assoc. reflexivity.
  - unfold join. cbn [flat_map fst snd]. rewrite !app_nil_r. reflexivity.
Qed.

Lemma aead_pub_same a b : same_pub_aead a b -> aead_pub a = aead_pub b.
Proof. intros [Hn Hl]. unfold aead_pub. rewrite Hn, Hl. reflexivity. Qed.
Lemma e_aead_len_same a b : same_pub_aead a b -> lenb (e_aead a) = lenb (e_aead b).
Proof.
  intro H. rewrite !e_aead_split. unfold lenb. rewrite !app_length. rewrite (aead_pub_same a b H).
  destruct H as [_ Hl]. unfold lenb in Hl. lia.
Qed.

Lemma split_vcommit_same v w : same_pub_vcommit v w ->
  publics (split_vcommit v) = publics (split_vcommit w) /\ ct_lengths (split_vcommit v) = ct_lengths (split_vcommit w).
Proof.
  intros (Hc & Hm & Hs). unfold split_vcommit, publics, ct_lengths. cbn [map fst snd].
  rewrite Hc, (aead_pub_same _ _ Hm), (aead_pub_same _ _ Hs).
  assert (lenb (e_aead (vc_meta v) ++ e_aead (vc_secret v)) = lenb (e_aead (vc_meta w) ++ e_aead (vc_secret w))) as ->.
  { unfold lenb. rewrite !app_length. pose proof (e_aead_len_same _ _ Hm). pose proof (e_aead_len_same _ _ Hs).
    unfold lenb in *. lia. }
  destruct Hm as [_ Hml]. destruct Hs as [_ Hsl]. rewrite Hml, Hsl. split; reflexivity.
Qed.

Lemma publics_prepend p l l' : l <> [] -> l' <> [] -> publics l = publics l' -> publics (prepend p l) = publics (prepend p l').
Proof.
  destruct l as [|[q c] r]; [congruence|]. destruct l' as [|[q' c'] r']; [congruence|]. intros _ _ H.
  unfold publics, prepend in *. cbn [map fst] in *. injection H as -> ->. reflexivity.
Qed.
Lemma ct_lengths_prepend p l l' : l <> [] -> l' <> [] -> ct_lengths l = ct_lengths l' -> ct_lengths (prepend p l) = ct_lengths (prepend p l').
Proof.
  destruct l as [|[q c] r]; [congruence|]. destruct l' as [|[q' c'] r']; [congruence|]. intros _ _ H.
  unfold ct_lengths, prepend in *. cbn [map snd] in *. exact H.
Qed.

(* the public chunks and the ciphertext lengths depend on the public fields only: whatever the
   plaintexts were, two events that agree on the public fields store the same bytes outside
   the ciphertext ranges *)
Theorem public_noninterference e f : same_public e f ->
  publics (split_event e) = publics (split_event f) /\ ct_lengths (split_event e) = ct_lengths (split_event f).
Proof.
  destruct e as [b|s|x|a|i v|i v|i]; destruct f as [b'|s'|x'|a'|j w|j w|j]; cbn [same_public]; try contradiction.
  - intros ->. split; reflexivity.
  - intros ->. split; reflexivity.
  - intro H. cbn [split_event]. unfold publics, ct_lengths. cbn [map fst snd].
    rewrite (aead_pub_same _ _ H). destruct H as [_ Hl]. rewrite Hl. split; reflexivity.
  - intros [-> H]. cbn [split_event]. destruct (split_vcommit_same v w H) as [Hp Hc].
    split; [apply publics_prepend|apply ct_lengths_prepend]; try (unfold split_vcommit; discriminate); assumption.
  - intros [-> H]. cbn [split_event]. destruct (split_vcommit_same v w H) as [Hp Hc].
    split; [apply publics_prepend|apply ct_lengths_prepend]; try (unfold split_vcommit; discriminate); assumption.
  - intros ->. split; reflexivity.
Qed.
