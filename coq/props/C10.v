(* C10 — ciphertext is authenticated, key-bound and never reuses a nonce.
   Relative to idealised primitives (section hypotheses: AEAD correctness, integrity and
   key-binding; KDF a function).  The cryptographic strength of AES-GCM / XChaCha20-Poly1305 /
   Argon2 and the quality of the OS RNG cannot be theorems; what is proved is that the SDK's own
   logic around them (nonce-size check, pack structure, unlock state machine, one stream value
   per encryption) adds no way to accept tampered data, to unlock with another key or to repeat
   a nonce.  The implementation is exercised with bit-flip / truncation / swap sweeps, key
   pools, a nonce census over real accounts and the failed-unlock state. *)
From Coq Require Import List NArith.
From SosModel Require Import model.Crypto proofs.Crypto_Lemmas.
Import ListNotations.
Section C10.
Variables key nonce plain cipher salt seed pw : Type.
Variable aead_enc : key -> nonce -> plain -> cipher.
Variable aead_dec : key -> nonce -> cipher -> option plain.
Variable nonce_len : nonce -> nat.
Variable expected_len : nat.
Hypothesis aead_correct : forall k n p, aead_dec k n (aead_enc k n p) = Some p.
Hypothesis aead_integrity : forall k n c p, aead_dec k n c = Some p -> c = aead_enc k n p.
Hypothesis aead_key_bound : forall k k' n p, k <> k' -> aead_dec k' n (aead_enc k n p) = None.
Variable kdf : pw -> option seed -> salt -> key.
Notation encrypt := (encrypt key nonce plain cipher aead_enc).
Notation decrypt := (decrypt key nonce plain cipher aead_dec nonce_len expected_len).
Notation unlock := (unlock key nonce plain cipher salt seed pw aead_dec nonce_len expected_len kdf).

Theorem C10_roundtrip k n p : nonce_len n = expected_len -> decrypt k (encrypt k n p) = Some p.
Proof. exact (roundtrip key nonce plain cipher aead_enc aead_dec nonce_len expected_len aead_correct k n p). Qed.
Theorem C10_tamper k a p : decrypt k a = Some p ->
  a = encrypt k (pk_nonce _ _ a) p /\ nonce_len (pk_nonce _ _ a) = expected_len.
Proof. exact (tamper key nonce plain cipher aead_enc aead_dec nonce_len expected_len aead_integrity k a p). Qed.
Theorem C10_wrong_nonce_size k a : nonce_len (pk_nonce _ _ a) <> expected_len -> decrypt k a = None.
Proof. exact (wrong_nonce_size key nonce plain cipher aead_dec nonce_len expected_len k a). Qed.
Theorem C10_key_bound k k' n p : k <> k' -> decrypt k' (encrypt k n p) = None.
Proof. exact (key_bound key nonce plain cipher aead_enc aead_dec nonce_len expected_len aead_key_bound k k' n p). Qed.
Theorem C10_failed_unlock_is_locked a p a' : unlock a p = (a', false) -> ap_key _ _ _ _ _ a' = None.
Proof. exact (unlock_failed_is_locked key nonce plain cipher salt seed pw aead_dec nonce_len expected_len kdf a p a'). Qed.
Theorem C10_unlock_other_password_fails a p k n m :
  ap_meta _ _ _ _ _ a = encrypt k n m -> kdf p (ap_seed _ _ _ _ _ a) (ap_salt _ _ _ _ _ a) <> k ->
  snd (unlock a p) = false.
Proof. exact (unlock_other_password_fails key nonce plain cipher salt seed pw aead_enc aead_dec nonce_len expected_len aead_key_bound kdf a p k n m). Qed.
Theorem C10_one_draw_per_encryption k stream ps : NoDup stream ->
  NoDup (map (pk_nonce _ _) (encrypt_all key nonce plain cipher aead_enc k stream ps)).
Proof. exact (nonces_never_repeat key nonce plain cipher aead_enc k stream ps). Qed.
End C10.
Print Assumptions C10_roundtrip.
Print Assumptions C10_tamper.
Print Assumptions C10_wrong_nonce_size.
Print Assumptions C10_key_bound.
Print Assumptions C10_failed_unlock_is_locked.
Print Assumptions C10_unlock_other_password_fails.
Print Assumptions C10_one_draw_per_encryption.
