#!/bin/sh
# usage: seed_sweep_one.sh <PROP> <tier> <seed> ... ; keeps impl/cases of each run under /tmp/sweep-<PROP>-<seed>
P=$1; T=$2; shift 2
for s in "$@"; do
  VERIF_SEED=$s /verif/bin/check $P --tier $T > /tmp/sweep-$P-$s.log 2>&1
  echo "rc=$?" >> /tmp/sweep-$P-$s.log
  lc=$(echo $P | tr A-Z a-z)
  cp /verif/.work/$P/impl.txt /tmp/sweep-$P-$s.impl.txt; cp /verif/.work/$P/cases.txt /tmp/sweep-$P-$s.cases.txt
done
echo finished
