//! Correspondence harness: runs cases on the real saveoursecrets/sdk code and prints one
//! canonical observation line per step.  Usage: harness <prop> <cases-file>
mod acct;
mod alloc;
mod c03;
mod c05;
mod c06;
mod c07s;
mod c08;
mod c09;
mod c10;
mod c11;
mod c13;
mod c14;
mod c16;
mod c17;
mod c18;
mod c19;
mod sync;
mod util;

#[global_allocator]
static GLOBAL: alloc::Counting = alloc::Counting;

fn main() {
    let args: Vec<String> = std::env::args().collect();
    if args.len() < 3 {
        eprintln!("usage: harness <prop> <cases.txt>");
        std::process::exit(2);
    }
    let text = std::fs::read_to_string(&args[2]).expect("read cases");
    if args[1] == "c17" {
        // mode=upload starts the real server (which prints to stdout): same arrangement as c11
        use std::io::Write;
        let mut buf: Vec<u8> = Vec::new();
        c17::run(&text, &args[2], &mut buf);
        std::io::stdout().write_all(&buf).unwrap();
        return;
    }
    if args[1] == "c11" {
        // the server under test prints its start-up banner with println!: stdout must not be locked here
        use std::io::Write;
        let mut buf: Vec<u8> = Vec::new();
        c11::run(&text, &args[2], &mut buf);
        std::io::stdout().write_all(&buf).unwrap();
        return;
    }
    let out = std::io::stdout();
    let mut out = std::io::BufWriter::new(out.lock());
    match args[1].as_str() {
        "acct" | "c01" | "c02" | "c04" | "c12" | "c20" => acct::run(&text, &args[2], &mut out),
        "c03" => c03::run(&text, &args[2], &mut out),
        "c05" => c05::run(&text, &args[2], &mut out),
        "c06" | "c07" => c06::run(&text, &args[2], &mut out),
        "c08" => c08::run(&text, &mut out),
        "c19" => c19::run(&text, &args[2], &mut out),
        "c18" => c18::run(&text, &args[2], &mut out),
        "c16" => c16::run(&text, &args[2], &mut out),
        "c13" => c13::run(&text, &args[2], &mut out),
        "c10" => c10::run(&text, &args[2], &mut out),
        "c09" => c09::run(&text, &args[2], &mut out),
        "c14gen" => c14::gen(&text, &mut out),
        "c14" | "c15" => c14::run(&text, &mut out),
        other => {
            eprintln!("unknown property {other}");
            std::process::exit(2);
        }
    }
}
