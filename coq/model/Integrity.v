(* integrity/src/{vault,event}_integrity.rs: every stored row / record carries a checksum that
   must be the hash of its content; the report lists the mismatches.  Definitions only. *)
From Coq Require Import List Bool.
Import ListNotations.
Section Integrity.
Variables hash content : Type.
Variable hash_eqb : hash -> hash -> bool.
Variable H : content -> hash.
Record row := mkRow { row_sum : hash; row_content : content }.
Definition row_ok (r : row) : bool := hash_eqb (H (row_content r)) (row_sum r).
(* the failures reported for one store (vault rows or event records) *)
Definition failures (rows : list row) : list row := filter (fun r => negb (row_ok r)) rows.
(* a folder = its vault rows + its event records; Missing when either store is gone *)
Inductive folder_report := Missing | Mismatches (l : list row).
Definition check_folder (vault log : option (list row)) : folder_report :=
  match vault, log with
  | Some v, Some l => Mismatches (failures v ++ failures l)
  | _, _ => Missing
  end.
Definition clean (r : folder_report) : Prop := r = Mismatches [].
(* replace the n-th row *)
Fixpoint set_nth (n : nat) (x : row) (l : list row) : list row :=
  match l, n with
  | [], _ => []
  | _ :: t, O => x :: t
  | h :: t, S k => h :: set_nth k x t
  end.
End Integrity.
