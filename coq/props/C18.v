(* C18 — backup archives cannot escape their target (path confinement).
   Model: model/Paths.v.  For EVERY entry name (any string of code points): the destination
   computed by extract_files is files_dir / c1 / ... / cn where every ci is non-empty, is not
   "." or "..", and contains no '/', '\', ':' or control character — hence a descendant of the
   import target.  Restore equivalence and the checksum gate are decided on the implementation
   (export / import of real accounts, mutated and hostile archives); zip parsing (async_zip) is
   trusted. *)
From Coq Require Import List NArith.
From SosModel Require Import model.Paths proofs.Paths_Lemmas.
Import ListNotations.

Theorem C18_no_escape (s : str) :
  Forall (fun c => c <> [] /\ c <> dot /\ c <> dotdot /\
                   Forall (fun x => illegal x = false /\ control x = false) c)
         (sanitize_file_path s).
Proof. exact (sanitize_file_path_confined s). Qed.

Theorem C18_component_never_dots name : sanitize name <> dot /\ sanitize name <> dotdot.
Proof. exact (sanitize_not_dots name). Qed.

Theorem C18_separators_are_illegal : illegal 47%N = true /\ illegal 92%N = true /\ illegal 58%N = true.
Proof. exact separators_illegal. Qed.

Print Assumptions C18_no_escape.
Print Assumptions C18_component_never_dots.
Print Assumptions C18_separators_are_illegal.
