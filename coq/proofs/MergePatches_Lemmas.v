From Coq Require Import List NArith Bool Lia Permutation Sorted ZifyN ZifyBool.
From SosModel Require Import model.EventLog model.MergePatches.
Import ListNotations.

Section MergePatchesLemmas.
Variable hash : Type.
Variable hash_eqb : hash -> hash -> bool.
Hypothesis hash_eqb_spec : forall a b, hash_eqb a b = true <-> a = b.
Variable dat : Type.
Notation rec := (@erec hash N dat).
Notation insert_front := (insert_front hash dat).
Notation sort_by_time := (sort_by_time hash dat).
Notation merge_patches := (merge_patches hash hash_eqb dat).
Notation commits_subset := (commits_subset hash hash_eqb dat).
Notation mem_commit := (mem_commit hash hash_eqb dat).
Notation not_in_remote := (not_in_remote hash hash_eqb dat).

Definition time_le (a b : rec) : Prop := (er_time a <= er_time b)%N.

Lemma insert_perm x l : Permutation (insert_front x l) (x :: l).
Proof.
  induction l as [|y r IH]; cbn [MergePatches.insert_front]; [reflexivity|].
  destruct (N.ltb (er_time y) (er_time x)); [|reflexivity].
  rewrite IH. apply perm_swap.
Qed.

Lemma sort_perm l : Permutation (sort_by_time l) l.
Proof.
  induction l as [|x r IH]; cbn [MergePatches.sort_by_time]; [reflexivity|].
  rewrite insert_perm. constructor. exact IH.
Qed.

Lemma insert_sorted x l : StronglySorted time_le l -> StronglySorted time_le (insert_front x l).
Proof.
  induction 1 as [|y r Hs IH Hall]; cbn [MergePatches.insert_front].
  - constructor; constructor.
  - destruct (N.ltb (er_time y) (er_time x)) eqn:E.
    + constructor; [exact IH|].
      apply Forall_forall. intros z Hz.
      apply (Permutation_in _ (insert_perm x r)) in Hz. destruct Hz as [<-|Hz].
      * unfold time_le. lia.
      * rewrite Forall_forall in Hall. apply Hall. exact Hz.
    + constructor; [constructor; assumption|].
      constructor; [unfold time_le; lia|].
      rewrite Forall_forall in Hall |- *. intros z Hz. specialize (Hall z Hz). unfold time_le in *. lia.
Qed.

Lemma sort_sorted l : StronglySorted time_le (sort_by_time l).
Proof.
  induction l as [|x r IH]; cbn [MergePatches.sort_by_time]; [constructor|].
  apply insert_sorted. exact IH.
Qed.

(* stability: the records of any given time come out in their input order *)
Definition at_time (t : N) (l : list rec) : list rec := filter (fun r => N.eqb (er_time r) t) l.

Lemma insert_stable x t l : StronglySorted time_le l ->
  at_time t (insert_front x l) = at_time t (x :: l).
Proof.
  induction 1 as [|y r Hs IH Hall]; [reflexivity|].
  cbn [MergePatches.insert_front]. destruct (N.ltb (er_time y) (er_time x)) eqn:E; [|reflexivity].
  unfold at_time in *. cbn [filter] in *. rewrite IH.
  destruct (N.eqb (er_time y) t) eqn:Ey; destruct (N.eqb (er_time x) t) eqn:Ex; try reflexivity. lia.
Qed.

Lemma sort_stable t l : at_time t (sort_by_time l) = at_time t l.
Proof.
  induction l as [|x r IH]; [reflexivity|]. cbn [MergePatches.sort_by_time].
  rewrite insert_stable by apply sort_sorted. unfold at_time in *. cbn [filter]. rewrite IH. reflexivity.
Qed.

Theorem push_remote_spec local remote m : merge_patches local remote = PushRemote m ->
  Permutation m (not_in_remote remote local ++ remote) /\ StronglySorted time_le m /\
  (forall t, at_time t m = at_time t (not_in_remote remote local) ++ at_time t remote).
Proof.
  unfold MergePatches.merge_patches. destruct (commits_subset local remote); [discriminate|].
  intro H. injection H as <-. split; [apply sort_perm|]. split; [apply sort_sorted|].
  intro t. rewrite sort_stable. unfold at_time. apply filter_app.
Qed.

Lemma mem_commit_spec c l : mem_commit c l = true <-> In c (map er_commit l).
Proof.
  unfold MergePatches.mem_commit. rewrite existsb_exists, in_map_iff. split.
  - intros (r & Hr & He). apply hash_eqb_spec in He. exists r. split; assumption.
  - intros (r & He & Hr). exists r. split; [exact Hr|]. apply hash_eqb_spec. exact He.
Qed.

(* local is rewound only when every local commit is already in the remote patch *)
Theorem rewind_local_spec local remote m : merge_patches local remote = RewindLocal m ->
  m = remote /\ forall r, In r local -> In (er_commit r) (map er_commit remote).
Proof.
  unfold MergePatches.merge_patches. destruct (commits_subset local remote) eqn:E; [|discriminate].
  intro H. injection H as <-. split; [reflexivity|].
  unfold MergePatches.commits_subset in E. rewrite forallb_forall in E.
  intros r Hr. apply mem_commit_spec. apply E. exact Hr.
Qed.

Theorem push_remote_when local remote m : merge_patches local remote = PushRemote m ->
  exists r, In r local /\ ~ In (er_commit r) (map er_commit remote).
Proof.
  unfold MergePatches.merge_patches. destruct (commits_subset local remote) eqn:E; [discriminate|].
  intros _. unfold MergePatches.commits_subset in E.
  assert (exists r, In r local /\ mem_commit (er_commit r) remote = false) as (r & Hr & Hm).
  { clear -E. induction local as [|x l IH]; cbn [forallb] in E; [discriminate|].
    destruct (mem_commit (er_commit x) remote) eqn:Ex.
    - cbn [andb] in E. destruct (IH E) as (r & Hr & Hm). exists r. split; [right; exact Hr|exact Hm].
    - exists x. split; [left; reflexivity|exact Ex]. }
  exists r. split; [exact Hr|]. intro Hin. apply mem_commit_spec in Hin. congruence.
Qed.

(* every event committed on either side since the ancestor is present exactly once, identical
   events made on both sides counting as one; nothing else is added *)
Lemma mem_commit_false c l : mem_commit c l = false <-> ~ In c (map er_commit l).
Proof.
  split; intro H.
  - intro Hin. apply mem_commit_spec in Hin. congruence.
  - destruct (mem_commit c l) eqn:E; [|reflexivity]. exfalso. apply H. apply mem_commit_spec. exact E.
Qed.

Lemma NoDup_map_filter (f : rec -> bool) l : NoDup (map er_commit l) -> NoDup (map er_commit (filter f l)).
Proof.
  induction l as [|x l IH]; intro H; [constructor|]. cbn [filter map] in *. inversion H as [|? ? Hn Hr]; subst.
  destruct (f x); [|apply IH; exact Hr]. cbn [map]. constructor; [|apply IH; exact Hr].
  intro Hin. apply Hn. apply in_map_iff in Hin. destruct Hin as (y & Hy & Hf). apply filter_In in Hf.
  apply in_map_iff. exists y. tauto.
Qed.

Theorem exactly_once local remote m : merge_patches local remote = PushRemote m ->
  NoDup (map er_commit local) -> NoDup (map er_commit remote) ->
  NoDup (map er_commit m) /\
  (forall c, In c (map er_commit m) <-> In c (map er_commit local) \/ In c (map er_commit remote)).
Proof.
  intros H Hl Hr. destruct (push_remote_spec _ _ _ H) as (Hp & _ & _).
  assert (Permutation (map er_commit m) (map er_commit (not_in_remote remote local ++ remote))) as Hpm
    by (apply Permutation_map; exact Hp).
  assert (NoDup (map er_commit (not_in_remote remote local ++ remote))) as Hnd.
  { rewrite map_app. apply NoDup_app_iff || idtac.
    assert (forall (A : Type) (a b : list A), NoDup a -> NoDup b -> (forall x, In x a -> ~ In x b) -> NoDup (a ++ b)) as Happ.
    { intros A a. induction a as [|x a IHa]; intros b Ha Hb Hd; [exact Hb|]. cbn [app]. inversion Ha; subst.
      constructor.
      - intro Hin. apply in_app_or in Hin. destruct Hin as [Hin|Hin]; [contradiction|].
        apply (Hd x); [left; reflexivity|exact Hin].
      - apply IHa; [assumption|exact Hb|]. intros y Hy. apply Hd. right. exact Hy. }
    apply Happ; [apply NoDup_map_filter; exact Hl|exact Hr|].
    intros c Hc. apply in_map_iff in Hc. destruct Hc as (r & <- & Hf).
    unfold MergePatches.not_in_remote in Hf. apply filter_In in Hf. destruct Hf as [_ Hm].
    apply negb_true_iff in Hm. apply mem_commit_false. exact Hm. }
  split.
  - apply (Permutation_NoDup (Permutation_sym Hpm) Hnd).
  - intro c. split; intro Hc.
    + apply (Permutation_in _ Hpm) in Hc. rewrite map_app in Hc. apply in_app_or in Hc.
      destruct Hc as [Hc|Hc]; [left|right; exact Hc].
      apply in_map_iff in Hc. destruct Hc as (r & <- & Hf). unfold MergePatches.not_in_remote in Hf.
      apply filter_In in Hf. apply in_map. tauto.
    + apply (Permutation_in _ (Permutation_sym Hpm)). rewrite map_app. apply in_or_app.
      destruct Hc as [Hc|Hc]; [|right; exact Hc].
      destruct (mem_commit c remote) eqn:Em.
      * right. apply mem_commit_spec. exact Em.
      * left. apply in_map_iff in Hc. destruct Hc as (r & <- & Hin). apply in_map.
        unfold MergePatches.not_in_remote. apply filter_In. split; [exact Hin|]. rewrite Em. reflexivity.
Qed.

End MergePatchesLemmas.
