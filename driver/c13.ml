(* Byte-level crash model: for one event-log file the implementation wrote, evaluates the
   extracted [open_kind] (identity check + the forward scan of load_tree) on every strict byte
   prefix of the written region and prints the outcomes run-length encoded, in the format of
   the harness' "torn" line.
   input:  c13 <case> k=<k> side=<s> file=<rel> kind=append|rewrite|created old=<from> hex=<bytes> *)
open Model
open Glue

let kind_of file =
  let base = Filename.basename file in
  match Filename.remove_extension base with
  | "account" -> KAccount | "devices" -> KDevice | "files" -> KFile | _ -> KFolder

let rle (xs : string list) : string =
  let rec go acc cur n = function
    | [] -> List.rev (if n > 0 then (Printf.sprintf "%s*%d" cur n) :: acc else acc)
    | x :: r -> if x = cur then go acc cur (n + 1) r
                else go (if n > 0 then (Printf.sprintf "%s*%d" cur n) :: acc else acc) x 1 r in
  String.concat "," (go [] "" 0 xs)

(* step level: the rows of the stored vault after every prefix of the operation's step list *)
let steps_line case rest =
  match kv rest "op", kv rest "sid", kv rest "body", kv rest "folder", kv rest "before" with
  | Some op, Some sid, Some body, Some folder, Some before ->
    let rows0 = List.filter_map (fun e ->
      match String.index_opt e ':' with
      | Some k -> Some (String.sub e 0 k, String.sub e (k + 1) (String.length e - k - 1))
      | None -> None) (split_on ',' before) in
    let s0 = { rows = rows0; flog = [] } in
    let (steps, names) = match op with
      | "C" -> (steps_create sid body, ["fs_vault.insert_secret.row_appended"; "fs_log.append.written"])
      | "U" -> (steps_update String.equal s0 sid body,
                ["fs_vault.splice.truncated"; "fs_vault.splice.row_written"; "fs_vault.splice.tail_written"; "fs_log.append.written"])
      | _ -> (steps_delete String.equal s0 sid,
              ["fs_vault.splice.truncated"; "fs_vault.splice.tail_written"; "fs_log.append.written"]) in
    let firstn n l = List.filteri (fun i _ -> i < n) l in
    List.iteri (fun j name ->
      if j < List.length steps then begin
        let st = run s0 (firstn (j + 1) steps) in
        Printf.printf "%s rows %s %s %s\n" case folder name
          (String.concat "," (List.map (fun (i, b) -> i ^ ":" ^ b) st.rows))
      end) names
  | _ -> Printf.printf "%s unmodelled\n" case

let run_line (line : string) : unit =
  match String.split_on_char ' ' line |> List.filter (fun s -> s <> "") with
  | _ :: case :: "steps" :: rest -> steps_line case rest
  | _ :: case :: rest when rest <> [] ->
    (match kv rest "k", kv rest "side", kv rest "file", kv rest "kind", kv rest "old", kv rest "hex" with
     | Some k, Some side, Some file, Some kind, Some old, Some hex ->
       let bytes = bytes_of_string (string_of_hex hex) in
       let total = List.length bytes in
       let from = int_of_string old in
       let lk = kind_of file in
       let firstn n l = List.filteri (fun i _ -> i < n) l in
       let results = ref [] in
       for cut = from to total - 1 do
         if not (cut = from && kind = "append") then begin
           let r = match open_kind lk (firstn cut bytes) with
             | Some commits -> Printf.sprintf "ok%d" (List.length commits)
             | None -> "err" in
           results := r :: !results
         end
       done;
       Printf.printf "%s torn k=%s side=%s file=%s light=%s\n" case k side file (rle (List.rev !results));
       (* the whole file, both directions *)
       let c8 l = String.concat "," (List.map (fun c -> String.sub (hex_of_string (string_of_bytes c)) 0 8) l) in
       let fwd = match open_kind lk bytes with Some l -> c8 l | None -> "err" in
       let rev = match open_kind_rev lk bytes with Some l -> c8 l | None -> "err" in
       Printf.printf "%s dirs k=%s side=%s file=%s fwd=%s rev=%s\n" case k side file fwd rev
     | _ -> Printf.printf "%s unmodelled\n" case)
  | _ :: case :: _ -> ()
  | _ -> ()
