//! C13: crash enumeration on real accounts.
//! Case:  "c13 <id> cbe=fs|db sbe=fs|db hist=<step>|...|<step>"   (steps as in acct.rs)
//! The LAST step of the history is the interrupted operation.  While it runs, a callback at
//! every storage probe (sos_core::verif_hooks, --cfg sos_verif) copies the device's and the
//! server's storage into memory: the image a crash at that point would leave behind.  Between
//! consecutive images every file that grew or was rewritten additionally yields torn images
//! (the file cut at byte prefixes of the written region).
//! Every image is materialised in a scratch directory and re-opened through the normal path
//! (LocalAccount::new_unauthenticated + sign_in; ServerStorage for the server side), then
//! observed exactly like a live device (acct.rs): event logs as token sequences, folders as
//! served / replayed from the log / stored.
//! Output:
//!   <id> probes <name,name,...>
//!   <id> img k=<k> probe=<name> changed=<rel:kind:old:new;...>
//!   <id> rec k=<k> side=dev|srv open=ok|err:<class>         followed by the observation lines
//!   <id> rec k=<k> R log ... / R folder ...
//!   <id> torn k=<k> side=.. file=<rel> kind=append|rewrite old=<n> new=<m> bounds=<o,o,..> light=<rle>
//!   <id> trec k=<k> cut=<c> file=<rel> open=...               (sampled full re-opens of torn images)
//!  !<id> tornlog k=<k> file=<rel> old=<n> hex=<new content>     (input of the byte-level model)
use crate::acct::World;
use crate::sync::{Device, Gate, Server};
use crate::util::{kv, rt};
use sos_core::events::EventLog;
use sos_core::AccountId;
use std::collections::BTreeMap;
use std::io::Write;
use std::path::{Path, PathBuf};
use std::sync::{Arc, Mutex};

type Image = BTreeMap<String, Vec<u8>>;

fn read_tree(root: &Path, rel: &str, out: &mut Image) {
    let Ok(rd) = std::fs::read_dir(root) else { return };
    for e in rd.flatten() {
        let name = e.file_name().to_string_lossy().to_string();
        let r = if rel.is_empty() { name.clone() } else { format!("{rel}/{name}") };
        match e.file_type() {
            Ok(t) if t.is_dir() => {
                out.insert(format!("{r}/"), vec![]);
                read_tree(&e.path(), &r, out)
            }
            Ok(_) => {
                if let Ok(b) = std::fs::read(e.path()) {
                    out.insert(r, b);
                }
            }
            _ => {}
        }
    }
}

fn snapshot(dir: &Path) -> Image {
    let mut m = Image::new();
    read_tree(dir, "", &mut m);
    m
}

fn materialise(img: &Image, dir: &Path) {
    let _ = std::fs::remove_dir_all(dir);
    std::fs::create_dir_all(dir).unwrap();
    for (rel, bytes) in img {
        let p = dir.join(rel.trim_end_matches('/'));
        if rel.ends_with('/') {
            std::fs::create_dir_all(&p).unwrap();
        } else {
            if let Some(parent) = p.parent() {
                std::fs::create_dir_all(parent).unwrap();
            }
            std::fs::write(&p, bytes).unwrap();
        }
    }
}

fn is_sqlite(rel: &str) -> bool {
    rel.contains(".db")
}

/// files changed between two images: (rel, kind, old_len, new_len)
fn changes(a: &Image, b: &Image) -> Vec<(String, &'static str, usize, usize)> {
    let mut out = vec![];
    for (rel, nb) in b {
        if rel.ends_with('/') {
            continue;
        }
        match a.get(rel) {
            None => out.push((rel.clone(), "created", 0, nb.len())),
            Some(ob) if ob == nb => {}
            Some(ob) => {
                let kind = if nb.len() > ob.len() && nb[..ob.len()] == ob[..] {
                    "append"
                } else if nb.len() < ob.len() && ob[..nb.len()] == nb[..] {
                    "truncate"
                } else {
                    "rewrite"
                };
                out.push((rel.clone(), kind, ob.len(), nb.len()));
            }
        }
    }
    for (rel, ob) in a {
        if !rel.ends_with('/') && !b.contains_key(rel) {
            out.push((rel.clone(), "removed", ob.len(), 0));
        }
    }
    out
}

fn err_class(e: impl std::fmt::Debug) -> String {
    let s = format!("{e:?}");
    let s: String = s.chars().filter(|c| c.is_ascii_alphanumeric() || *c == '_' || *c == ':' || *c == '(').collect();
    s.chars().take(60).collect()
}

struct Recovered {
    open: String,
    lines: Vec<String>,
}

async fn recover_device(w: &mut World, img: &Image, scratch: &Path) -> Recovered {
    materialise(img, scratch);
    // the account password before the interrupted operation and, if it changed one, the new one
    let mut pws = vec![crate::sync::password()];
    pws.extend(w.passwords.values().cloned());
    let res = Device::try_open_with("R", scratch, w.account_id, w.server.clone(), w.cdb, Gate::default(), &pws).await;
    let out = match res {
        Ok(dev) => {
            w.devs.push(dev);
            let idx = w.devs.len() - 1;
            let mut lines = vec![];
            w.observe_device(idx, &mut lines).await;
            let dev = w.devs.pop().unwrap();
            drop(dev);
            let who = format!("D{idx}");
            let lines = lines
                .into_iter()
                .map(|l| {
                    if let Some(rest) = l.strip_prefix('!') {
                        format!("!{}", rest.replacen(&who, "R", 1))
                    } else {
                        l.replacen(&who, "R", 1)
                    }
                })
                .collect();
            Recovered { open: "ok".into(), lines }
        }
        Err(e) => Recovered { open: format!("err:{e}"), lines: vec![] },
    };
    if w.cdb {
        tokio::time::sleep(std::time::Duration::from_millis(30)).await;
    }
    let _ = std::fs::remove_dir_all(scratch);
    out
}

async fn recover_server(w: &mut World, img: &Image, scratch: &Path) -> Recovered {
    materialise(img, scratch);
    let srv = Server::try_new(scratch, w.account_id, w.sdb).await;
    let out = match srv {
        Ok(srv) => {
            let mut lines = vec![];
            match srv.account().await {
                Some(st) => {
                    let st = st.read().await;
                    w.observe_logs("R", &*st, &mut lines).await;
                    Recovered { open: "ok".into(), lines }
                }
                None => Recovered { open: "ok-noaccount".into(), lines },
            }
        }
        Err(e) => Recovered { open: format!("err:{e}"), lines: vec![] },
    };
    if w.sdb {
        tokio::time::sleep(std::time::Duration::from_millis(30)).await;
    }
    let _ = std::fs::remove_dir_all(scratch);
    out
}

/// light re-open of one torn file: an event log is loaded (identity check + load_tree), a
/// vault file is decoded
async fn light_check(rel: &str, bytes: &[u8], scratch: &Path, account_id: &AccountId) -> String {
    let _ = std::fs::create_dir_all(scratch);
    if rel.ends_with(".events") {
        let p = scratch.join("t.events");
        std::fs::write(&p, bytes).unwrap();
        let stem = Path::new(rel).file_stem().map(|s| s.to_string_lossy().to_string()).unwrap_or_default();
        type E = sos_backend::Error;
        macro_rules! load {
            ($ctor:expr) => {
                match $ctor {
                    Ok(mut log) => match log.load_tree().await {
                        Ok(_) => format!("ok{}", log.tree().len()),
                        Err(_) => "err".to_string(),
                    },
                    Err(_) => "err".to_string(),
                }
            };
        }
        let r = match stem.as_str() {
            "account" => load!(sos_filesystem::AccountEventLog::<E>::new_account(&p, *account_id).await),
            "devices" => load!(sos_filesystem::DeviceEventLog::<E>::new_device(&p, *account_id).await),
            "files" => load!(sos_filesystem::FileEventLog::<E>::new_file(&p, *account_id).await),
            _ => load!(
                sos_filesystem::FolderEventLog::<E>::new_folder(
                    &p,
                    *account_id,
                    sos_core::events::EventLogType::Folder(sos_core::VaultId::new_v4())
                )
                .await
            ),
        };
        let _ = std::fs::remove_file(&p);
        r
    } else if rel.ends_with(".vault") {
        match sos_core::decode::<sos_vault::Vault>(bytes).await {
            Ok(v) => format!("ok{}", v.len()),
            Err(_) => "err".to_string(),
        }
    } else {
        "na".to_string()
    }
}

/// end offsets of the commit frames of a SQLite write-ahead log (a transaction boundary is a
/// frame whose header carries the database size after commit)
fn wal_commit_ends(wal: &[u8]) -> Vec<usize> {
    let mut out = vec![];
    if wal.len() < 32 {
        return out;
    }
    let page = u32::from_be_bytes(wal[8..12].try_into().unwrap()) as usize;
    if page == 0 {
        return out;
    }
    let mut pos = 32;
    while pos + 24 + page <= wal.len() {
        let commit = u32::from_be_bytes(wal[pos + 4..pos + 8].try_into().unwrap());
        pos += 24 + page;
        if commit != 0 {
            out.push(pos);
        }
    }
    out
}

/// forward and reverse iteration of a whole event-log file by the real iterator: the commits
/// (first 4 bytes, hex) in the order each direction yields them, or "err"
pub async fn both_directions(rel: &str, bytes: &[u8], scratch: &Path, account_id: &AccountId) -> (String, String) {
    let _ = std::fs::create_dir_all(scratch);
    let p = scratch.join("d.events");
    std::fs::write(&p, bytes).unwrap();
    let stem = Path::new(rel).file_stem().map(|s| s.to_string_lossy().to_string()).unwrap_or_default();
    type E = sos_backend::Error;
    macro_rules! walk {
        ($ctor:expr) => {
            match $ctor {
                Ok(log) => {
                    let mut out = vec![];
                    for reverse in [false, true] {
                        let mut v: Vec<String> = vec![];
                        let mut failed = false;
                        match log.iter(reverse).await {
                            Ok(mut it) => loop {
                                match it.next().await {
                                    Ok(Some(rec)) => {
                                        v.push(hex::encode(&rec.commit()[..4]));
                                        // an iteration that does not end (a row of size zero): reported, not waited for
                                        if v.len() > 200_000 {
                                            v = vec!["hang".to_string()];
                                            break;
                                        }
                                    }
                                    Ok(None) => break,
                                    Err(_) => {
                                        failed = true;
                                        break;
                                    }
                                }
                            },
                            Err(_) => failed = true,
                        }
                        out.push(if failed { "err".to_string() } else { v.join(",") });
                    }
                    (out[0].clone(), out[1].clone())
                }
                Err(_) => ("err".to_string(), "err".to_string()),
            }
        };
    }
    let r = match stem.as_str() {
        "account" => walk!(sos_filesystem::AccountEventLog::<E>::new_account(&p, *account_id).await),
        "devices" => walk!(sos_filesystem::DeviceEventLog::<E>::new_device(&p, *account_id).await),
        "files" => walk!(sos_filesystem::FileEventLog::<E>::new_file(&p, *account_id).await),
        _ => walk!(
            sos_filesystem::FolderEventLog::<E>::new_folder(&p, *account_id, sos_core::events::EventLogType::Folder(sos_core::VaultId::new_v4())).await
        ),
    };
    let _ = std::fs::remove_file(&p);
    r
}

fn rle(xs: &[String]) -> String {
    let mut out: Vec<String> = vec![];
    let mut i = 0;
    while i < xs.len() {
        let mut j = i;
        while j < xs.len() && xs[j] == xs[i] {
            j += 1;
        }
        out.push(format!("{}*{}", xs[i], j - i));
        i = j;
    }
    out.join(",")
}

/// offsets (relative to the file start) of the record boundaries inside an appended region of
/// an event log: u32 LE row length + 8 framing bytes per record
fn record_bounds(bytes: &[u8], from: usize) -> Vec<usize> {
    let mut out = vec![];
    let mut pos = from;
    while pos + 4 <= bytes.len() {
        let n = u32::from_le_bytes(bytes[pos..pos + 4].try_into().unwrap()) as usize;
        pos += n + 8;
        if pos < bytes.len() {
            out.push(pos);
        } else {
            break;
        }
    }
    out
}

struct Shot {
    n: u64,
    name: &'static str,
    dev: Image,
    srv: Image,
}

pub fn run(text: &str, cases_path: &str, out: &mut impl Write) {
    let rt = rt();
    let base = std::path::Path::new(cases_path).parent().unwrap().join("data-c13");
    for line in text.lines() {
        let toks: Vec<&str> = line.split_whitespace().collect();
        if toks.len() < 2 || toks[0].starts_with('#') {
            continue;
        }
        let id = toks[1].to_string();
        let cdb = kv(&toks, "cbe") == Some("db");
        let sdb = kv(&toks, "sbe") == Some("db");
        let hist: Vec<String> = kv(&toks, "hist").unwrap_or("").split('|').filter(|s| !s.is_empty()).map(|s| s.to_string()).collect();
        let full_torn: usize = kv(&toks, "tornfull").and_then(|v| v.parse().ok()).unwrap_or(3);
        writeln!(out, "{id} !begin").unwrap();
        out.flush().unwrap();
        if hist.is_empty() {
            continue;
        }
        rt.block_on(async {
            let mut w = World::new(base.join(&id), cdb, sdb, 2, Gate::default()).await;
            let (pre, last) = hist.split_at(hist.len() - 1);
            for (n, op) in pre.iter().enumerate() {
                let res = w.step(op).await;
                writeln!(out, "{id} pre {} op={op} res={res}", n + 1).unwrap();
            }
            let last = &last[0];
            let d: usize = last.chars().nth(1).and_then(|c| c.to_digit(10)).unwrap_or(0) as usize;
            let d = d.min(w.devs.len() - 1);
            let dev_dir: PathBuf = w.devs[d].dir.clone();
            let srv_dir: PathBuf = w.base.join("server");
            let scratch = w.base.join("scratch");

            let shots: Arc<Mutex<Vec<Shot>>> = Arc::new(Mutex::new(vec![]));
            shots.lock().unwrap().push(Shot { n: 0, name: "start", dev: snapshot(&dev_dir), srv: snapshot(&srv_dir) });
            #[cfg(sos_verif)]
            {
                let (dd, sd, sh) = (dev_dir.clone(), srv_dir.clone(), shots.clone());
                sos_core::verif_hooks::arm_probes(0);
                sos_core::verif_hooks::set_probe_hook(Some(Box::new(move |n, name| {
                    sh.lock().unwrap().push(Shot { n, name, dev: snapshot(&dd), srv: snapshot(&sd) });
                })));
            }
            let res = w.step(last).await;
            #[cfg(sos_verif)]
            sos_core::verif_hooks::set_probe_hook(None);
            shots.lock().unwrap().push(Shot { n: u64::MAX, name: "end", dev: snapshot(&dev_dir), srv: snapshot(&srv_dir) });
            writeln!(out, "{id} op={last} res={res} dev=D{d}").unwrap();
            let shots = std::mem::take(&mut *shots.lock().unwrap());
            writeln!(out, "{id} probes {}", shots.iter().map(|s| s.name).collect::<Vec<_>>().join(",")).unwrap();

            for side in ["dev", "srv"] {
                let get = |s: &Shot| -> Image { if side == "dev" { s.dev.clone() } else { s.srv.clone() } };
                let mut prev: Option<Image> = None;
                for (k, shot) in shots.iter().enumerate() {
                    let img = get(shot);
                    let ch = match &prev {
                        Some(p) => changes(p, &img),
                        None => vec![],
                    };
                    if prev.is_some() && ch.iter().all(|c| c.0.ends_with("-shm")) {
                        // nothing changed on this side since the previous image
                        prev = Some(img);
                        continue;
                    }
                    let chs: Vec<String> = ch.iter().map(|(r, kd, o, n)| format!("{r}:{kd}:{o}:{n}")).collect();
                    writeln!(out, "{id} img k={k} side={side} probe={} changed={}", shot.name, chs.join(";")).unwrap();
                    // SQLite: every transaction boundary inside the write-ahead log written since the
                    // previous image is a crash image of its own (no probe needed)
                    if let Some(p) = &prev {
                        for (rel, kind, old, new) in &ch {
                            if !(rel.ends_with("-wal") && *kind == "append") {
                                continue;
                            }
                            let nb = &img[rel];
                            let cuts: Vec<usize> = wal_commit_ends(nb).into_iter().filter(|c| *c > *old && *c < *new).collect();
                            writeln!(out, "{id} wal k={k} side={side} file={rel} old={old} new={new} commits_inside={}", cuts.len()).unwrap();
                            for cut in cuts {
                                let mut t = p.clone();
                                t.insert(rel.clone(), nb[..cut].to_vec());
                                // the wal-index is rebuilt from the log on open
                                let shm = rel.replace("-wal", "-shm");
                                t.remove(&shm);
                                let r = if side == "dev" { recover_device(&mut w, &t, &scratch.join("t")).await } else { recover_server(&mut w, &t, &scratch.join("t")).await };
                                writeln!(out, "{id} trec k={k} side={side} cut={cut} file={rel} open={}", r.open).unwrap();
                                for l in r.lines {
                                    if let Some(rest) = l.strip_prefix('!') {
                                        writeln!(out, "{id} !trec k={k} side={side} cut={cut} {rest}").unwrap();
                                    } else {
                                        writeln!(out, "{id} trec k={k} side={side} cut={cut} {l}").unwrap();
                                    }
                                }
                            }
                        }
                    }
                    // torn variants of what was written since the previous image
                    if let Some(p) = &prev {
                        for (rel, kind, old, new) in &ch {
                            if is_sqlite(rel) || !(*kind == "append" || *kind == "rewrite" || *kind == "created") {
                                continue;
                            }
                            let nb = &img[rel];
                            let from = if *kind == "append" { *old } else { 0 };
                            if *new <= from {
                                continue;
                            }
                            // every strict prefix of the written region (light re-open)
                            let mut results = vec![];
                            for cut in from..*new {
                                if cut == from && *kind == "append" {
                                    continue;
                                }
                                results.push(light_check(rel, &nb[..cut], &scratch.join("light"), &w.account_id).await);
                            }
                            let bounds = if rel.ends_with(".events") { record_bounds(nb, if *kind == "append" { from } else { 4 }) } else { vec![] };
                            writeln!(
                                out,
                                "{id} torn k={k} side={side} file={rel} kind={kind} old={old} new={new} bounds={} light={}",
                                bounds.iter().map(|b| b.to_string()).collect::<Vec<_>>().join(","),
                                rle(&results)
                            )
                            .unwrap();
                            if rel.ends_with(".events") && *new < 20_000 {
                                let (fwd, rev) = both_directions(rel, nb, &scratch.join("light"), &w.account_id).await;
                                writeln!(out, "{id} dirs k={k} side={side} file={rel} fwd={fwd} rev={rev}").unwrap();
                                writeln!(out, "{id} !tornlog k={k} side={side} file={rel} kind={kind} old={from} hex={}", hex::encode(nb)).unwrap();
                            }
                            // sampled full re-opens: first byte, middle, last byte short, record boundaries
                            let mut cuts: Vec<usize> = vec![from + 1, (from + *new) / 2, *new - 1];
                            cuts.extend(bounds.iter().copied());
                            if *kind != "append" {
                                cuts.push(from);
                            }
                            cuts.sort();
                            cuts.dedup();
                            cuts.retain(|c| *c < *new && (*c > from || *kind != "append"));
                            for cut in cuts.into_iter().take(full_torn + bounds.len()) {
                                let mut t = p.clone();
                                // the torn image: everything as in the previous image, this file cut
                                t.insert(rel.clone(), nb[..cut].to_vec());
                                let r = if side == "dev" { recover_device(&mut w, &t, &scratch.join("t")).await } else { recover_server(&mut w, &t, &scratch.join("t")).await };
                                writeln!(out, "{id} trec k={k} side={side} cut={cut} file={rel} open={}", r.open).unwrap();
                                for l in r.lines {
                                    if let Some(rest) = l.strip_prefix('!') {
                                        writeln!(out, "{id} !trec k={k} side={side} cut={cut} {rest}").unwrap();
                                    } else {
                                        writeln!(out, "{id} trec k={k} side={side} cut={cut} {l}").unwrap();
                                    }
                                }
                            }
                        }
                    }
                    let r = if side == "dev" { recover_device(&mut w, &img, &scratch.join("r")).await } else { recover_server(&mut w, &img, &scratch.join("r")).await };
                    writeln!(out, "{id} rec k={k} side={side} open={}", r.open).unwrap();
                    for l in r.lines {
                        if let Some(rest) = l.strip_prefix('!') {
                            writeln!(out, "{id} !rec k={k} side={side} {rest}").unwrap();
                        } else {
                            writeln!(out, "{id} rec k={k} side={side} {l}").unwrap();
                        }
                    }
                    prev = Some(img);
                }
            }
            crate::acct::set_clock(0);
            let _ = err_class("");
        });
        let _ = std::fs::remove_dir_all(base.join(&id));
    }
}
