//! C06/C07: event-log operation sequences on co-resident logs, both backends.
//! Case: "c06 <id> be=fs|db ops=<op>|<op>|..."   (3 folder logs: 0,1 in account A; 2 in account B)
//! Record spec  k@t[!]  : event symbol k, time token t, '!' = forged commit (hash of k+1000).
//! Ops:  ar:<log>:<recs>      apply_records
//!       ap:<log>:<k,k>       apply (events; times are 'now', printed as '*')
//!       pu:<log>:<recs>      patch_unchecked
//!       pc:<log>:<proof>:<recs>   patch_checked; proof = head | prev | other<j> | seq<k,k,..>
//!       rw:<log>:i<idx> | rw:<log>:x<k>   rewind to the commit at index / of event symbol
//!       cl:<log>             clear
//!       ra:<log>:<ckpt>:<recs>    replace_all_events; ckpt = ok | cur | seq<k,..>
//!       ro                   re-open every log from storage
//! After every op one line per log:
//!   <id> <step> L<i> len=<n> root=<hex|-> fwd=<c8:d4@t,..> rev=<..> hashok=<0|1> re=<root|->/<len>
//! and one result line: <id> <step> res=<class> [rewound=<c8@t,..>]
use crate::util::{kv, rt};
use futures::{pin_mut, StreamExt};
use sos_backend::{BackendTarget, FolderEventLog};
use sos_core::{
    commit::{CommitHash, CommitProof, CommitTree},
    events::{
        patch::{CheckedPatch, FolderDiff, FolderPatch},
        EventLog, EventRecord, WriteEvent,
    },
    AccountId, Paths, UtcDateTime, VaultId,
};
use std::io::Write;
use std::path::PathBuf;

pub fn event_for(k: u32) -> WriteEvent {
    if k % 2 == 0 {
        let mut b = [0u8; 16];
        b[..4].copy_from_slice(&k.to_le_bytes());
        b[6] = 0x40; // a version-4 looking uuid
        WriteEvent::DeleteSecret(uuid::Uuid::from_bytes(b))
    } else {
        WriteEvent::SetVaultName(format!("n{k}"))
    }
}

pub fn time_for(t: u64) -> UtcDateTime {
    let secs = 1_700_000_000i64 + (t / 1000) as i64;
    let nanos = ((t % 1000) * 1_000_001) % 1_000_000_000;
    let odt = time::OffsetDateTime::from_unix_timestamp(secs).unwrap()
        + time::Duration::nanoseconds(nanos as i64);
    odt.into()
}

fn time_token(t: &UtcDateTime) -> String {
    let odt: time::OffsetDateTime = t.clone().into();
    let secs = odt.unix_timestamp() - 1_700_000_000;
    let nanos = odt.nanosecond() as i64;
    // invert time_for when possible
    if secs >= 0 && nanos % 1_000_001 == 0 && nanos / 1_000_001 < 1000 {
        format!("{}", secs * 1000 + nanos / 1_000_001)
    } else {
        "*".to_string()
    }
}

pub async fn record_for(spec: &str) -> EventRecord {
    let forged = spec.ends_with('!');
    let spec = spec.trim_end_matches('!');
    let (k, t) = spec.split_once('@').unwrap();
    let k: u32 = k.parse().unwrap();
    let t: u64 = t.parse().unwrap();
    let bytes = sos_core::encode(&event_for(k)).await.unwrap();
    let commit = if forged {
        CommitHash(CommitTree::hash(&sos_core::encode(&event_for(k + 1000)).await.unwrap()))
    } else {
        CommitHash(CommitTree::hash(&bytes))
    };
    EventRecord::new(time_for(t), Default::default(), commit, bytes)
}

pub async fn records_for(spec: &str) -> Vec<EventRecord> {
    let mut v = vec![];
    for s in spec.split(',').filter(|s| !s.is_empty()) {
        v.push(record_for(s).await);
    }
    v
}

fn tree_of(records: &[EventRecord]) -> CommitTree {
    let mut t = CommitTree::new();
    let mut leaves: Vec<[u8; 32]> = records.iter().map(|r| *r.commit().as_ref()).collect();
    if !leaves.is_empty() {
        t.append(&mut leaves);
        t.commit();
    }
    t
}

fn fmt_rec(r: &EventRecord) -> String {
    let dh = CommitTree::hash(r.event_bytes());
    format!("{}:{}@{}", &hex::encode(r.commit().as_ref())[..8], &hex::encode(dh)[..4], time_token(r.time()))
}

/// Logs 0..2 are folder logs; log 3 is an ACCOUNT log (file-system: a header with a version
/// after the identity bytes; database: another table).  The operations go through the same
/// EventLog trait; the payloads are the same bytes.
pub enum AnyLog {
    F(FolderEventLog),
    A(sos_backend::AccountEventLog),
}
macro_rules! on {
    ($log:expr, $x:ident => $e:expr) => {
        match $log {
            AnyLog::F($x) => $e,
            AnyLog::A($x) => $e,
        }
    };
}
impl AnyLog {
    pub fn tree(&self) -> &CommitTree {
        on!(self, x => x.tree())
    }
}

pub struct World {
    pub be: String,
    pub dir: PathBuf,
    pub ids: Vec<(AccountId, VaultId)>,
    pub target: BackendTarget,
    pub logs: Vec<AnyLog>,
    pub prev_head: Vec<Option<CommitProof>>,
}

impl World {
    pub async fn new(be: &str, dir: PathBuf) -> World {
        let _ = std::fs::remove_dir_all(&dir);
        std::fs::create_dir_all(&dir).unwrap();
        let acc_a = AccountId::from([0xA1u8; 20]);
        let acc_b = AccountId::from([0xB2u8; 20]);
        let f = |n: u8| VaultId::from_bytes([n, 0, 0, 0, 0, 0, 0x40, 0, 0x80, 0, 0, 0, 0, 0, 0, n]);
        let ids = vec![(acc_a, f(1)), (acc_a, f(2)), (acc_b, f(3))];
        Paths::scaffold(&dir).await.unwrap();
        let paths = Paths::new_client(&dir);
        let target = if be == "fs" {
            for (a, _) in &ids {
                let p = paths.with_account_id(a);
                p.ensure().await.unwrap();
            }
            BackendTarget::FileSystem(paths)
        } else {
            let dbfile = dir.join("accounts.db");
            let mut client = sos_database::open_file(&dbfile).await.unwrap();
            sos_database::migrations::migrate_client(&mut client).await.unwrap();
            use sos_database::entity::{AccountEntity, AccountRow, FolderEntity, FolderRow};
            let mut acct_rows = std::collections::HashMap::new();
            for (a, fid) in &ids {
                let a = *a;
                let fid = *fid;
                let existing = acct_rows.get(&a).copied();
                let mut vault = sos_vault::Vault::default();
                *vault.header_mut().id_mut() = fid;
                let folder_row = FolderRow::new_insert(&vault).await.unwrap();
                let row_id = client
                    .conn_mut(move |conn| {
                        let account = AccountEntity::new(&conn);
                        let aid = match existing {
                            Some(id) => id,
                            None => account
                                .insert(&AccountRow::new_insert(&a, "mock".to_owned()).unwrap())?,
                        };
                        let folder = FolderEntity::new(&conn);
                        folder.insert_folder(aid, &folder_row)?;
                        Ok(aid)
                    })
                    .await
                    .unwrap();
                acct_rows.insert(a, row_id);
            }
            BackendTarget::Database(paths, client)
        };
        let mut w = World { be: be.to_string(), dir, ids, target, logs: vec![], prev_head: vec![None, None, None, None] };
        w.open().await;
        w
    }

    pub async fn open(&mut self) {
        self.logs.clear();
        for (a, f) in &self.ids {
            let mut log = FolderEventLog::new_folder(self.target.clone(), a, f).await.unwrap();
            log.load_tree().await.unwrap();
            self.logs.push(AnyLog::F(log));
        }
        let mut alog = sos_backend::AccountEventLog::new_account(self.target.clone(), &self.ids[0].0).await.unwrap();
        alog.load_tree().await.unwrap();
        self.logs.push(AnyLog::A(alog));
    }

    pub async fn fwd(&self, i: usize, reverse: bool) -> Result<Vec<EventRecord>, String> {
        on!(&self.logs[i], x => {
            let stream = x.record_stream(reverse).await;
            pin_mut!(stream);
            let mut v = vec![];
            while let Some(r) = stream.next().await {
                match r {
                    Ok(r) => v.push(r),
                    Err(e) => return Err(format!("{e}")),
                }
            }
            Ok(v)
        })
    }

    pub async fn observe(&self, id: &str, step: usize, out: &mut impl Write) {
        for i in 0..self.logs.len() {
            let tree = self.logs[i].tree();
            let root = tree.root_hex().unwrap_or_else(|| "-".into());
            let f = self.fwd(i, false).await;
            let r = self.fwd(i, true).await;
            let (fs, hashok) = match &f {
                Ok(v) => (
                    v.iter().map(fmt_rec).collect::<Vec<_>>().join(","),
                    v.iter().all(|r| CommitTree::hash(r.event_bytes()) == *r.commit().as_ref()),
                ),
                Err(_) => ("ERR".to_string(), true),
            };
            let rs = match &r {
                Ok(v) => v.iter().map(fmt_rec).collect::<Vec<_>>().join(","),
                Err(_) => "ERR".to_string(),
            };
            // a fresh instance loading its tree from storage
            let re = if i < self.ids.len() {
                let (a, fid) = &self.ids[i];
                match FolderEventLog::new_folder(self.target.clone(), a, fid).await {
                    Ok(mut l) => match l.load_tree().await {
                        Ok(_) => format!("{}/{}", l.tree().root_hex().unwrap_or_else(|| "-".into()), l.tree().len()),
                        Err(_) => "ERR/0".to_string(),
                    },
                    Err(_) => "ERR/0".to_string(),
                }
            } else {
                match sos_backend::AccountEventLog::new_account(self.target.clone(), &self.ids[0].0).await {
                    Ok(mut l) => match l.load_tree().await {
                        Ok(_) => format!("{}/{}", l.tree().root_hex().unwrap_or_else(|| "-".into()), l.tree().len()),
                        Err(_) => "ERR/0".to_string(),
                    },
                    Err(_) => "ERR/0".to_string(),
                }
            };
            writeln!(out, "{id} {step} L{i} len={} root={root} fwd={fs} rev={rs} hashok={} re={re}", tree.len(), hashok as u8).unwrap();
        }
    }
}

async fn proof_for(w: &World, log: usize, kind: &str) -> Option<CommitProof> {
    if kind == "head" {
        w.logs[log].tree().head().ok()
    } else if kind == "prev" {
        w.prev_head[log].clone()
    } else if let Some(j) = kind.strip_prefix("other") {
        w.logs[j.parse::<usize>().unwrap()].tree().head().ok()
    } else if let Some(seq) = kind.strip_prefix("seq") {
        let recs = records_for(&seq.split(';').map(|k| format!("{k}@0")).collect::<Vec<_>>().join(",")).await;
        tree_of(&recs).head().ok()
    } else {
        None
    }
}

fn err_class(e: &sos_backend::Error) -> String {
    let s = format!("{e:?}");
    let head = s.split(|c: char| !c.is_alphanumeric() && c != '_').find(|t| !t.is_empty()).unwrap_or("Error");
    let inner = if s.contains("CommitNotFound") { "CommitNotFound" }
        else if s.contains("CheckpointVerification") { "CheckpointVerification" }
        else if s.contains("RewindLeavesLength") { "RewindLeavesLength" }
        else if s.contains("NoRootCommit") { "NoRootCommit" }
        else { head };
    inner.to_string()
}

pub async fn run_case(line: &str, base: &std::path::Path, out: &mut impl Write) {
    let toks: Vec<&str> = line.split_whitespace().collect();
    let id = toks[1];
    let be = kv(&toks, "be").unwrap_or("fs");
    let ops = kv(&toks, "ops").unwrap_or("");
    let mut w = World::new(be, base.join(format!("c06-{be}"))).await;
    w.observe(id, 0, out).await;
    for (n, op) in ops.split('|').filter(|s| !s.is_empty()).enumerate() {
        let step = n + 1;
        let parts: Vec<&str> = op.split(':').collect();
        let res: String = match parts[0] {
            "ro" => {
                w.open().await;
                "ok".into()
            }
            "ar" | "pu" => {
                let l: usize = parts[1].parse().unwrap();
                let recs = records_for(parts.get(2).copied().unwrap_or("")).await;
                w.prev_head[l] = w.logs[l].tree().head().ok();
                let r = if parts[0] == "ar" {
                    on!(&mut w.logs[l], x => x.apply_records(recs).await)
                } else {
                    on!(&mut w.logs[l], x => x.patch_unchecked(&sos_core::events::patch::Patch::new(recs)).await)
                };
                match r { Ok(_) => "ok".into(), Err(e) => format!("err:{}", err_class(&e)) }
            }
            "ap" => {
                let l: usize = parts[1].parse().unwrap();
                let evs: Vec<WriteEvent> = parts[2].split(',').map(|k| event_for(k.parse().unwrap())).collect();
                w.prev_head[l] = w.logs[l].tree().head().ok();
                let r = match &mut w.logs[l] {
                    AnyLog::F(x) => x.apply(&evs).await,
                    AnyLog::A(x) => {
                        // apply() = encode each event, then apply_records
                        let mut recs = vec![];
                        for e in &evs {
                            recs.push(EventRecord::encode_event(e).await.unwrap());
                        }
                        x.apply_records(recs).await
                    }
                };
                match r { Ok(_) => "ok".into(), Err(e) => format!("err:{}", err_class(&e)) }
            }
            "pc" => {
                let l: usize = parts[1].parse().unwrap();
                let proof = proof_for(&w, l, parts[2]).await;
                let recs = records_for(parts.get(3).copied().unwrap_or("")).await;
                match proof {
                    None => "noproof".into(),
                    Some(p) => {
                        let before = w.logs[l].tree().head().ok();
                        let r = on!(&mut w.logs[l], x => x.patch_checked(&p, &sos_core::events::patch::Patch::new(recs)).await);
                        match r {
                            Ok(CheckedPatch::Success(_)) => { w.prev_head[l] = before; "success".into() }
                            Ok(CheckedPatch::Conflict { contains, .. }) => {
                                format!("conflict:{}", if contains.is_some() { "contains" } else { "none" })
                            }
                            Err(e) => format!("err:{}", err_class(&e)),
                        }
                    }
                }
            }
            "rw" => {
                let l: usize = parts[1].parse().unwrap();
                let target = parts[2];
                let commit: Option<CommitHash> = if let Some(i) = target.strip_prefix('i') {
                    let i: usize = i.parse().unwrap();
                    w.logs[l].tree().leaves().and_then(|lv| lv.get(i).copied()).map(CommitHash)
                } else {
                    let k: u32 = target[1..].parse().unwrap();
                    Some(CommitHash(CommitTree::hash(&sos_core::encode(&event_for(k)).await.unwrap())))
                };
                match commit {
                    None => "notarget".into(),
                    Some(c) => {
                        w.prev_head[l] = w.logs[l].tree().head().ok();
                        match on!(&mut w.logs[l], x => x.rewind(&c).await) {
                            Ok(recs) => format!("ok rewound={}", recs.iter().map(fmt_rec).collect::<Vec<_>>().join(",")),
                            Err(e) => format!("err:{}", err_class(&e)),
                        }
                    }
                }
            }
            "cl" => {
                let l: usize = parts[1].parse().unwrap();
                w.prev_head[l] = w.logs[l].tree().head().ok();
                match on!(&mut w.logs[l], x => x.clear().await) { Ok(_) => "ok".into(), Err(e) => format!("err:{}", err_class(&e)) }
            }
            "ra" => {
                let l: usize = parts[1].parse().unwrap();
                let recs = records_for(parts.get(3).copied().unwrap_or("")).await;
                let ckpt = match parts[2] {
                    "ok" => tree_of(&recs).head().ok(),
                    "cur" => w.logs[l].tree().head().ok(),
                    other => proof_for(&w, l, other).await,
                };
                match ckpt {
                    None => "noproof".into(),
                    Some(p) => {
                        w.prev_head[l] = w.logs[l].tree().head().ok();
                        let res = match &mut w.logs[l] {
                            AnyLog::F(x) => x.replace_all_events(&FolderDiff { last_commit: None, checkpoint: p, patch: FolderPatch::new(recs) }).await,
                            AnyLog::A(x) => x.replace_all_events(&sos_core::events::patch::AccountDiff { last_commit: None, checkpoint: p, patch: sos_core::events::patch::Patch::new(recs) }).await,
                        };
                        match res {
                            Ok(_) => "ok".into(),
                            Err(e) => format!("err:{}", err_class(&e)),
                        }
                    }
                }
            }
            _ => "badop".into(),
        };
        writeln!(out, "{id} {step} res={res}").unwrap();
        w.observe(id, step, out).await;
    }
}

pub fn run(text: &str, cases_path: &str, out: &mut impl Write) {
    let rt = rt();
    let base = std::path::Path::new(cases_path).parent().unwrap().join("data");
    for line in text.lines() {
        let line = line.trim();
        if line.is_empty() || line.starts_with('#') {
            continue;
        }
        if line.contains(" mode=server ") {
            rt.block_on(crate::c07s::run_case(line, &base, out));
        } else {
            rt.block_on(run_case(line, &base, out));
        }
    }
}
