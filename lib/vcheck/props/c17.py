"""C17 — external file blobs are content-addressed and follow their secret.
(a) Histories of file-secret operations on a real account (create from a file, replace content, move
between folders, delete the secret, delete the folder; both client backends): after every operation the
blobs on disk are listed, hashed and decrypted, the file event log is replayed by the real FileReducer,
and both are compared with each other and with the extracted [freduce] fed the decoded event log.
(b) Uploads to the real HTTP server under the name sha256(correct body) with correct, altered,
truncated, empty, extended and unrelated bodies: status, presence under the final name, leftover
temporary files — compared with the extracted upload machine [receive]."""
from vcheck import acct

ID = "C17"
SUB = "c17"
LEVEL = "proof"
RESILIENT = True
IMPL_TIMEOUT = 3000
RULE = ("hist: generated sequences of file-secret operations; non-trivial = at least one replace, move or delete of a "
        "file secret or a folder holding one; upload: one case per backend with every body kind; distinct by case")
TRUSTED_BASE = [
    "model/Files.v transcribes FileReducer (IndexSet insert / shift_remove), the pairing of blob operation and file event on the "
    "editing device, and receive_file (refuse when present; temporary file; digest compare; rename or discard); SHA-256 is an "
    "abstract function H in the theorems; age encryption is not modelled",
    "the replay fed to the model is the device's file event log as decoded by the SDK",
]
ASSUMPTIONS = ["transfers between devices (upload/download queue, retries, cancellation) are not exercised: the second-device half of "
               "the property is covered only through the server-side upload machine and compare_files' set semantics (partial)",
               "streaming of a body in several chunks is not distinguished from one write"]


def corpus():
    return [
        "c17 k_life mode=hist cbe=fs ops=fc:a:x1|fc:b:x2|fu:a:x3|ff:1|fm:b:1|fx:a|fc:c:x4@1|fk:1",
        "c17 k_life_db mode=hist cbe=db ops=fc:a:x1|fu:a:x3|ff:1|fm:a:1|fk:1",
        "c17 k_same_content mode=hist cbe=fs ops=fc:a:x1|fc:b:x1|fx:a|fu:b:x1",
        # two devices of one account + the server, file transfers running (what the property says about synced devices)
        "c17 k_net_move_delete mode=net ops=fc:a:x1|s1|ff:1|fm:a:1|s1|fx:a|s1",
        "c17 k_net_replace_folder mode=net ops=ff:1|fc:a:x1@1|fc:b:x2|s1|fu:a:x3|s1|fk:1|s1",
        "c17 k_upload_fs mode=upload sbe=fs bodies=correct,altered,truncated,empty,extended,other,correct",
        "c17 k_upload_db mode=upload sbe=db bodies=correct,altered,truncated,empty,extended,other",
    ]


def gen_cases(rng, tier):
    n = 4 if tier == "quick" else 50
    out = []
    for j in range(n):
        ops, slots, folders, k = [], [], ["0"], 0
        for _ in range(rng.randrange(4, 12)):
            r = rng.random()
            if r < 0.35 or not slots:
                free = [x for x in "abcdefgh" if x not in slots]
                if not free: continue
                s = rng.choice(free); k += 1
                f = rng.choice(folders)
                ops.append("fc:%s:x%d%s" % (s, rng.randrange(1, 6), "" if f == "0" else "@" + f))
                if s not in slots: slots.append(s)
            elif r < 0.55:
                ops.append("fu:%s:x%d" % (rng.choice(slots), rng.randrange(1, 9)))
            elif r < 0.70 and len(folders) > 1:
                ops.append("fm:%s:%s" % (rng.choice(slots), rng.choice(folders)))
            elif r < 0.82:
                s = rng.choice(slots); ops.append("fx:%s" % s); slots.remove(s)
            elif r < 0.93:
                nf = str(len(folders)); folders.append(nf); ops.append("ff:%s" % nf)
            elif len(folders) > 1:
                f = rng.choice(folders[1:]); ops.append("fk:%s" % f); folders.remove(f)
        out.append("c17 g%d mode=hist cbe=%s ops=%s" % (j, "db" if j % 3 == 1 else "fs", "|".join(ops)))
        # the same history on device 0 of a two-device network account, device 1 syncing now and then
        if j < (1 if tier == "quick" else 12):
            nops = []
            for o in (ops[:7] if tier == "quick" else ops):
                nops.append(o)
                if rng.random() < 0.4: nops.append("s1")
            out.append("c17 n%d mode=net ops=%s" % (j, "|".join(nops + ["s1"])))
    return out


def fields(case):
    t = case.split()
    return t[1], dict(x.split("=", 1) for x in t[2:] if "=" in x)


def parse_hist(obs):
    steps = {}
    for o in obs:
        t = o.split()
        if len(t) < 2: continue
        bang = t[0].startswith("!")
        try:
            n = int(t[0].lstrip("!"))
        except ValueError:
            continue
        S = steps.setdefault(n, {})
        if t[1].startswith("op="):
            S["op"] = t[1][3:]; S["res"] = t[2][4:] if len(t) > 2 else ""
        elif t[1] in ("blobs", "reduced", "expected", "events"):
            S[t[1]] = t[2:]
    return steps


def oracle(case, obs):
    cid, kv = fields(case)
    fails = []
    if kv.get("mode") == "upload":
        ups = [dict(x.split("=", 1) for x in o.split()[2:] if "=" in x) for o in obs if o.startswith("up ")]
        if not ups:
            return [{"oracle": "no_result", "detail": "no upload observation: %s" % [o for o in obs if "setup" in o][:2]}]
        for o in obs:
            if o.startswith("mv "):
                m = dict(x.split("=", 1) for x in o.split()[1:] if "=" in x)
                if int(m.get("name_not_hash", "0")) > 0:
                    fails.append({"oracle": "server_blob_name_not_hash", "via": "move",
                                  "detail": "POST move with a destination name that is not the blob's hash: status %s, the server now stores %s blob(s) whose name is not the SHA-256 of its bytes" % (m.get("status"), m.get("name_not_hash"))})
        for u in ups:
            good = u["body"] == "correct"
            st = int(u.get("status", "0"))
            if good and (st != 200 or u.get("final") != "ok"):
                fails.append({"oracle": "correct_upload_refused", "detail": "correct body: status %d final=%s" % (st, u.get("final"))})
            if not good and (200 <= st < 300 or u.get("final") != "absent"):
                fails.append({"oracle": "mismatching_upload_accepted", "body": u["body"],
                              "detail": "body %s not hashing to the name: status %d, final=%s" % (u["body"], st, u.get("final"))})
            if u.get("final") == "BADHASH":
                fails.append({"oracle": "stored_blob_not_its_hash", "body": u["body"], "detail": "the file stored under the name does not hash to it"})
            if u.get("leftovers"):
                fails.append({"oracle": "partial_file_left", "body": u["body"], "detail": "after the attempt the secret's directory holds %s" % u.get("leftovers")})
        return fails
    if kv.get("mode") == "net":
        ops = {}
        seen = 0
        for o in obs:
            t = o.split()
            if len(t) >= 2 and t[0].isdigit() and t[1].startswith("op="):
                ops[int(t[0])] = t[1][3:]
            if len(t) >= 4 and t[0].isdigit() and t[1] == "net":
                seen += 1
                n, who = int(t[0]), t[2]
                w = dict(x.split("=", 1) for x in t[3:] if "=" in x)
                disk = set(x for x in w.get("disk", "").split(",") if x); canon = set(x for x in w.get("canon", "").split(",") if x)
                # device 1 is compared once it has synced (its transfers settled); device 0 and the server after every step
                if who == "D1" and ops.get(n) != "s1": continue
                if disk - canon:
                    fails.append({"oracle": "net_blobs_eq_log", "who": who, "kind": "left_behind",
                                  "detail": "step %d (%s) %s: blobs %s on disk are not named by the replay of its file log %s" % (n, ops.get(n), who, sorted(disk - canon), sorted(canon))})
                if canon - disk:
                    fails.append({"oracle": "net_blobs_eq_log", "who": who, "kind": "missing",
                                  "detail": "step %d (%s) %s: files %s named by the replay of its file log are not on disk" % (n, ops.get(n), who, sorted(canon - disk))})
        if not seen:
            fails.append({"oracle": "no_result", "detail": "no observation: %s" % [o for o in obs if "setup" in o][:2]})
        return fails
    steps = parse_hist(obs)
    for n in sorted(steps):
        S = steps[n]
        if "blobs" not in S: continue
        blobs = S.get("blobs", []); red = S.get("reduced", []); exp = S.get("expected", [])
        names = sorted(b.rsplit(":", 2)[0] for b in blobs)
        if names != sorted(red):
            fails.append({"oracle": "blobs_ne_reduce", "op": (S.get("op") or "")[:2],
                          "detail": "step %d (%s): blobs on disk %s, file log replays to %s" % (n, S.get("op"), names, sorted(red))})
        for b in blobs:
            path, ok, dec = b.rsplit(":", 2)
            if ok != "1":
                fails.append({"oracle": "name_not_hash", "detail": "step %d: blob %s does not hash to its name" % (n, path)})
            if dec == "ERR":
                fails.append({"oracle": "blob_not_decryptable", "detail": "step %d: blob %s does not decrypt" % (n, path)})
        # one blob per live file secret, holding that secret's current content
        have = sorted("%s:%s" % (b.rsplit(":", 2)[0].rsplit("/", 1)[0], b.rsplit(":", 2)[2]) for b in blobs)
        if have != sorted(exp):
            fails.append({"oracle": "blobs_ne_secrets", "op": (S.get("op") or "")[:2],
                          "detail": "step %d (%s): blobs %s, live file secrets %s" % (n, S.get("op"), have, sorted(exp))})
    return fails


def model_input(cases, impl):
    out = []
    for c in cases:
        cid, kv = fields(c)
        obs = impl.get(cid, [])
        if kv.get("mode") == "upload":
            ups = [o for o in obs if o.startswith("up ")]
            for o in ups:
                t = o.split(); u = dict(x.split("=", 1) for x in t[2:] if "=" in x)
                out.append("c17 %s up %s %s" % (cid, t[1], u["body"]))
            if not ups: out.append("c17 %s" % cid)
            continue
        steps = parse_hist(obs)
        k = 0
        for n in sorted(steps):
            if "events" in steps[n]:
                out.append("c17 %s %d %s" % (cid, n, " ".join(steps[n]["events"]))); k += 1
        for n in sorted(steps):
            if "events" in steps[n]:
                out.append("c17 %s tail %d %s" % (cid, n, " ".join(steps[n]["events"])))
        if k == 0: out.append("c17 %s" % cid)
    return out


def impl_projection(obs):
    out = []
    tails = []
    for o in obs:
        t = o.split()
        if len(t) >= 2 and t[1] == "reduced":
            out.append("%s reduced %s" % (t[0], " ".join(sorted(t[2:]))))
        elif len(t) >= 3 and t[1] == "tail":
            tails.append("%s tail %s %s" % (t[0], t[2], " ".join(sorted(t[3:]))))
        elif t and t[0] == "up":
            u = dict(x.split("=", 1) for x in t[2:] if "=" in x)
            out.append("up %s body=%s final=%s leftovers=%s" % (t[1], u.get("body"), u.get("final"), u.get("leftovers", "")))
    return out + tails


def canon(lines):
    # the model prints an empty reduced set as 'reduced ' too
    return [l.rstrip() for l in lines if not l.endswith("events")]


def nontrivial(case, obs):
    cid, kv = fields(case)
    if kv.get("mode") == "upload": return True
    return any(x[:2] in ("fu", "fm", "fx", "fk") for x in kv.get("ops", "").split("|"))


def distinct_key(case):
    return case.split(" ", 2)[2]


def distribution(cases, impl):
    ops, bodies = {}, {}
    for c in cases:
        cid, kv = fields(c)
        for x in kv.get("ops", "").split("|"):
            if x: ops[x[:2]] = ops.get(x[:2], 0) + 1
        for o in impl.get(cid, []):
            if o.startswith("up "):
                u = dict(y.split("=", 1) for y in o.split()[2:] if "=" in y)
                k = "%s:%s" % (u.get("body"), u.get("status")); bodies[k] = bodies.get(k, 0) + 1
    return {"file_ops": ops, "upload_body:status": bodies}


def shrink(case):
    cid, kv = fields(case)
    if kv.get("mode") == "upload": return []
    ops = [x for x in kv.get("ops", "").split("|") if x]
    if kv.get("mode") == "net":
        return ["c17 s mode=net ops=%s" % "|".join(ops[:i] + ops[i + 1:]) for i in range(len(ops)) if len(ops) > 1]
    return ["c17 s mode=hist cbe=%s ops=%s" % (kv.get("cbe", "fs"), "|".join(ops[:i] + ops[i + 1:])) for i in range(len(ops))]


MANIFEST = {
    "category": "proof",
    "text": ("Coq theorems: the file-event reducer never holds duplicates and changes membership exactly as each event says; on the "
             "editing device the blob set is the replay of the file log after any history; the server's upload machine exposes under "
             "final names only files that hash to their name at every step boundary and leaves the store unchanged for a mismatching "
             "body.  Tied to the code by real file-secret histories (both client backends: blobs listed, hashed, decrypted, compared "
             "with the real FileReducer and with the extracted reducer fed the decoded log) and by uploads of matching and "
             "mismatching bodies to the live server compared with the extracted machine"),
    "design_ref": "DESIGN.md §4 C17",
    "note": "partial: device-to-device transfers (queue, retries) are not exercised; encryption of blobs is checked by decrypting, not modelled",
    "technique": "Coq proof (reducer set semantics, blob/log invariant, upload machine invariant) + extracted-model correspondence on real accounts and the live server + two real network devices with the transfer queues running (blobs on disk vs replay of the file log on device 0, server, device 1)",
}
