//! In-process sync infrastructure shared by C04/C05/C09 (and others that need real accounts):
//! * `Server`: a real `ServerStorage` behind the same per-account RwLock discipline as the
//!   HTTP handlers (read lock for status/scan/diff, write lock for sync/patch/create/update);
//! * `DirectClient`: implements `sos_protocol::SyncClient` by calling
//!   `sos_server_storage::server_helpers` directly; before every request it passes a `Gate`
//!   (a no-op, or a turnstile driven by the harness scheduler for C09);
//! * `Bridge`: implements `RemoteSyncHandler`; `impl AutoMerge for Bridge {}` gives it the
//!   whole auto-merge logic of the SDK unchanged.
use async_trait::async_trait;
use sos_account::{Account, LocalAccount};
use sos_backend::BackendTarget;
use sos_core::{AccountId, Origin, Paths};
use sos_protocol::{
    transfer::FileTransferQueueSender, DiffRequest, DiffResponse, PatchRequest,
    PatchResponse, ScanRequest, ScanResponse, SyncClient, SyncOptions,
};
use sos_remote_sync::{AutoMerge, RemoteSyncHandler};
use sos_server_storage::{server_helpers, ServerAccountStorage, ServerStorage};
use sos_sync::{CreateSet, UpdateSet, ForceMerge, MergeOutcome, SyncDirection, SyncPacket, SyncStatus, SyncStorage};
use std::path::{Path, PathBuf};
use std::sync::{Arc, Mutex as StdMutex};
use tokio::sync::{Mutex, RwLock};

/// Error type for the helper calls made on behalf of the server.
#[derive(Debug)]
pub struct SrvErr(pub String);
impl std::fmt::Display for SrvErr {
    fn fmt(&self, f: &mut std::fmt::Formatter<'_>) -> std::fmt::Result {
        write!(f, "{}", self.0)
    }
}
impl std::error::Error for SrvErr {}
macro_rules! srv_from {
    ($($t:ty),*) => { $(impl From<$t> for SrvErr { fn from(e: $t) -> Self { SrvErr(format!("{e:?}")) } })* };
}
srv_from!(sos_server_storage::Error, sos_core::Error, sos_backend::Error, sos_backend::StorageError);

fn net_err(e: impl std::fmt::Debug) -> sos_net::Error {
    sos_net::Error::Io(std::io::Error::other(format!("server: {e:?}")))
}

pub struct Server {
    pub target: BackendTarget,
    pub account_id: AccountId,
    pub storage: RwLock<Option<Arc<RwLock<ServerStorage>>>>,
    /// every request that reached the server, in order: (device, request kind)
    pub trace: StdMutex<Vec<(String, String)>>,
    /// after every request: (device, kind, request details, server logs as commit lists)
    pub snaps: StdMutex<Vec<Snap>>,
    pub record_snaps: std::sync::atomic::AtomicBool,
}

pub struct Snap {
    pub device: String,
    pub kind: String,
    pub details: String,
    pub ok: bool,
    pub logs: std::collections::BTreeMap<String, Vec<[u8; 32]>>,
}

impl Server {
    pub async fn new(dir: &Path, account_id: AccountId, db: bool) -> Arc<Server> {
        std::fs::create_dir_all(dir).unwrap();
        Paths::scaffold(&dir.to_path_buf()).await.unwrap();
        let paths = Paths::new_server(dir);
        let target = if db {
            let mut client = sos_database::open_file(paths.database_file()).await.unwrap();
            sos_database::migrations::migrate_client(&mut client).await.unwrap();
            BackendTarget::Database(paths, client)
        } else {
            BackendTarget::FileSystem(paths)
        };
        Arc::new(Server { target, account_id, storage: RwLock::new(None), trace: StdMutex::new(vec![]), snaps: StdMutex::new(vec![]), record_snaps: std::sync::atomic::AtomicBool::new(false) })
    }
    pub async fn account(&self) -> Option<Arc<RwLock<ServerStorage>>> {
        self.storage.read().await.clone()
    }
    /// the server's start-up path over an existing storage directory (server/src/backend.rs
    /// load_fs_accounts / load_db_accounts): every account found is opened with ServerStorage::new
    pub async fn try_new(dir: &Path, account_id: AccountId, db: bool) -> Result<Arc<Server>, String> {
        let cls = |e: &dyn std::fmt::Debug| -> String {
            format!("{e:?}").chars().filter(|c| c.is_ascii_alphanumeric() || *c == '_' || *c == ':' || *c == '(').take(60).collect()
        };
        std::fs::create_dir_all(dir).map_err(|e| cls(&e))?;
        Paths::scaffold(&dir.to_path_buf()).await.map_err(|e| cls(&e))?;
        let paths = Paths::new_server(dir);
        let (target, exists) = if db {
            let mut client = sos_database::open_file(paths.database_file()).await.map_err(|e| cls(&e))?;
            sos_database::migrations::migrate_client(&mut client).await.map_err(|e| cls(&e))?;
            let accounts = sos_database::entity::AccountEntity::list_all_accounts(&client).await.map_err(|e| cls(&e))?;
            let exists = accounts.iter().any(|a| *a.identity.account_id() == account_id);
            (BackendTarget::Database(paths, client), exists)
        } else {
            let exists = paths.local_dir().join(account_id.to_string()).is_dir();
            (BackendTarget::FileSystem(paths), exists)
        };
        let storage = if exists {
            let st = ServerStorage::new(target.clone(), &account_id).await.map_err(|e| cls(&e))?;
            Some(Arc::new(RwLock::new(st)))
        } else {
            None
        };
        Ok(Arc::new(Server { target, account_id, storage: RwLock::new(storage), trace: StdMutex::new(vec![]), snaps: StdMutex::new(vec![]), record_snaps: std::sync::atomic::AtomicBool::new(false) }))
    }
    pub async fn log_leaves(&self) -> std::collections::BTreeMap<String, Vec<[u8; 32]>> {
        use sos_core::events::EventLog;
        use sos_sync::StorageEventLogs;
        let mut m = std::collections::BTreeMap::new();
        if let Some(st) = self.account().await {
            let st = st.read().await;
            if let Ok(l) = st.identity_log().await { m.insert("identity".to_string(), l.read().await.tree().leaves().unwrap_or_default()); }
            if let Ok(l) = st.account_log().await { m.insert("account".to_string(), l.read().await.tree().leaves().unwrap_or_default()); }
            if let Ok(l) = st.device_log().await { m.insert("device".to_string(), l.read().await.tree().leaves().unwrap_or_default()); }
            if let Ok(l) = st.file_log().await { m.insert("files".to_string(), l.read().await.tree().leaves().unwrap_or_default()); }
            if let Ok(fs) = st.folder_details().await {
                for s in fs.iter() {
                    if let Ok(l) = st.folder_log(s.id()).await {
                        m.insert(format!("folder:{}", s.id()), l.read().await.tree().leaves().unwrap_or_default());
                    }
                }
            }
        }
        m
    }
    pub async fn snap(&self, device: &str, kind: &str, details: String, ok: bool) {
        if self.record_snaps.load(std::sync::atomic::Ordering::SeqCst) {
            let logs = self.log_leaves().await;
            self.snaps.lock().unwrap().push(Snap { device: device.to_string(), kind: kind.to_string(), details, ok, logs });
        }
    }
}

/// When enabled (C03), every request and response crossing the client/server boundary is encoded
/// with the protocol's own wire encoding and kept: (kind, bytes).
pub static WIRETAP: StdMutex<Option<Vec<(String, Vec<u8>)>>> = StdMutex::new(None);
macro_rules! tap {
    ($kind:expr, $value:expr) => {
        if WIRETAP.lock().unwrap().is_some() {
            use sos_protocol::WireEncodeDecode;
            if let Ok(bytes) = $value.clone().encode().await {
                if let Some(v) = WIRETAP.lock().unwrap().as_mut() {
                    v.push(($kind.to_string(), bytes));
                }
            }
        }
    };
}

/// CreateSet is not Clone: a field-wise copy for the wiretap
struct CsClone<'a>(&'a CreateSet);
impl CsClone<'_> {
    fn clone(&self) -> CreateSet {
        CreateSet {
            identity: self.0.identity.clone(),
            account: self.0.account.clone(),
            device: self.0.device.clone(),
            files: self.0.files.clone(),
            folders: self.0.folders.clone(),
        }
    }
}

/// Turnstile passed before every request (C09 drives it; otherwise open).
#[derive(Clone, Default)]
pub struct Gate(pub Option<Arc<dyn Fn(&str, &str) -> futures::future::BoxFuture<'static, ()> + Send + Sync>>);

pub struct DirectClient {
    pub server: Arc<Server>,
    pub origin: Origin,
    pub device: String,
    pub gate: Gate,
}

impl DirectClient {
    async fn enter(&self, kind: &str) {
        if let Some(g) = &self.gate.0 {
            g(&self.device, kind).await;
        }
        self.server.trace.lock().unwrap().push((self.device.clone(), kind.to_string()));
    }
    async fn acct(&self) -> Result<Arc<RwLock<ServerStorage>>, sos_net::Error> {
        self.server.account().await.ok_or_else(|| net_err("no account"))
    }
}

#[async_trait]
impl SyncClient for DirectClient {
    type Error = sos_net::Error;

    fn origin(&self) -> &Origin {
        &self.origin
    }
    async fn account_exists(&self) -> Result<bool, Self::Error> {
        self.enter("exists").await;
        Ok(self.server.account().await.is_some())
    }
    async fn create_account(&self, account: CreateSet) -> Result<(), Self::Error> {
        self.enter("create").await;
        let mut slot = self.server.storage.write().await;
        if slot.is_some() {
            return Err(net_err("account exists"));
        }
        tap!("create-req", CsClone(&account));
        let target = self.server.target.clone().with_account_id(&self.server.account_id);
        let st = ServerStorage::create_account(target, &self.server.account_id, &account)
            .await
            .map_err(net_err)?;
        *slot = Some(Arc::new(RwLock::new(st)));
        Ok(())
    }
    async fn update_account(&self, account: UpdateSet) -> Result<(), Self::Error> {
        self.enter("update").await;
        tap!("update-req", account);
        let a = self.acct().await?;
        let mut w = a.write().await;
        let mut outcome = MergeOutcome::default();
        w.force_merge_update(account, &mut outcome).await.map_err(net_err)?;
        Ok(())
    }
    async fn fetch_account(&self) -> Result<CreateSet, Self::Error> {
        self.enter("fetch").await;
        let a = self.acct().await?;
        let r = a.read().await;
        let set = r.create_set().await.map_err(net_err)?;
        tap!("fetch-resp", CsClone(&set));
        Ok(set)
    }
    async fn delete_account(&self) -> Result<(), Self::Error> {
        self.enter("delete").await;
        let a = self.acct().await?;
        let mut w = a.write().await;
        w.delete_account().await.map_err(net_err)?;
        *self.server.storage.write().await = None;
        Ok(())
    }
    async fn sync_status(&self) -> Result<SyncStatus, Self::Error> {
        self.enter("status").await;
        let a = self.acct().await?;
        let r = a.read().await;
        let st = r.sync_status().await.map_err(net_err)?;
        tap!("status-resp", st);
        Ok(st)
    }
    async fn sync(&self, packet: SyncPacket) -> Result<SyncPacket, Self::Error> {
        self.enter("sync").await;
        let a = self.acct().await?;
        let mut w = a.write().await;
        let details = describe_packet(&packet);
        tap!("sync-req", packet);
        let res = server_helpers::sync_account::<_, SrvErr>(packet, &mut *w).await;
        drop(w);
        self.server.snap(&self.device, "sync", details, res.is_ok()).await;
        let (packet, _outcome) = res.map_err(net_err)?;
        tap!("sync-resp", packet);
        Ok(packet)
    }
    async fn scan(&self, request: ScanRequest) -> Result<ScanResponse, Self::Error> {
        self.enter("scan").await;
        let a = self.acct().await?;
        let r = a.read().await;
        tap!("scan-req", request);
        let resp = server_helpers::event_scan::<_, SrvErr>(&request, &*r).await.map_err(net_err)?;
        tap!("scan-resp", resp);
        Ok(resp)
    }
    async fn diff(&self, request: DiffRequest) -> Result<DiffResponse, Self::Error> {
        self.enter("diff").await;
        let a = self.acct().await?;
        let r = a.read().await;
        tap!("diff-req", request);
        let resp = server_helpers::event_diff::<_, SrvErr>(&request, &*r).await.map_err(net_err)?;
        tap!("diff-resp", resp);
        Ok(resp)
    }
    async fn patch(&self, request: PatchRequest) -> Result<PatchResponse, Self::Error> {
        self.enter("patch").await;
        let a = self.acct().await?;
        let mut w = a.write().await;
        let details = format!(
            "log={} commit={} proof={}/{} patch={}",
            log_name(&request.log_type),
            request.commit.map(|c| hex::encode(c.as_ref())).unwrap_or("-".into()),
            hex::encode(request.proof.root.as_ref()),
            request.proof.length,
            request.patch.iter().map(|r| hex::encode(r.commit().as_ref())).collect::<Vec<_>>().join(";")
        );
        tap!("patch-req", request);
        let res = server_helpers::event_patch::<_, SrvErr>(request, &mut *w).await;
        drop(w);
        let applied = matches!(&res, Ok((r, _)) if matches!(r.checked_patch, sos_core::events::patch::CheckedPatch::Success(_)));
        self.server.snap(&self.device, "patch", format!("{details} applied={}", applied as u8), res.is_ok()).await;
        let (resp, _outcome) = res.map_err(net_err)?;
        tap!("patch-resp", resp);
        Ok(resp)
    }
}

pub fn log_name(t: &sos_core::events::EventLogType) -> String {
    use sos_core::events::EventLogType as T;
    match t {
        T::Identity => "identity".into(),
        T::Account => "account".into(),
        T::Device => "device".into(),
        T::Files => "files".into(),
        T::Folder(id) => format!("folder:{id}"),
    }
}

fn describe_packet(p: &SyncPacket) -> String {
    use sos_sync::MaybeDiff;
    let mut parts = vec![];
    macro_rules! one {
        ($name:expr, $d:expr) => {
            match $d {
                Some(MaybeDiff::Diff(d)) => parts.push(format!(
                    "{}:diff:{}/{}:{}",
                    $name,
                    hex::encode(d.checkpoint.root.as_ref()),
                    d.checkpoint.length,
                    d.patch.records().iter().map(|r| hex::encode(r.commit().as_ref())).collect::<Vec<_>>().join(";")
                )),
                Some(MaybeDiff::Compare(_)) => parts.push(format!("{}:compare", $name)),
                None => {}
            }
        };
    }
    one!("identity", &p.diff.identity);
    one!("account", &p.diff.account);
    one!("device", &p.diff.device);
    one!("files", &p.diff.files);
    for (id, d) in &p.diff.folders {
        let name = format!("folder:{id}");
        one!(name, &Some(d.clone()));
    }
    parts.join(",")
}

pub struct Bridge {
    pub account_id: AccountId,
    pub account: Arc<Mutex<LocalAccount>>,
    pub client: DirectClient,
    pub queue: FileTransferQueueSender,
}

#[async_trait]
impl RemoteSyncHandler for Bridge {
    type Client = DirectClient;
    type Account = LocalAccount;
    type Error = sos_net::Error;

    fn direction(&self) -> SyncDirection {
        SyncDirection::Push
    }
    fn client(&self) -> &Self::Client {
        &self.client
    }
    fn origin(&self) -> &Origin {
        &self.client.origin
    }
    fn account_id(&self) -> &AccountId {
        &self.account_id
    }
    fn account(&self) -> Arc<Mutex<Self::Account>> {
        self.account.clone()
    }
    fn file_transfer_queue(&self) -> &FileTransferQueueSender {
        &self.queue
    }
    async fn execute_sync_file_transfers(&self) -> Result<(), Self::Error> {
        Ok(())
    }
}

impl AutoMerge for Bridge {}

pub struct Device {
    pub name: String,
    pub dir: PathBuf,
    pub bridge: Bridge,
}

pub fn password() -> secrecy::SecretString {
    secrecy::SecretString::new("harness-fixed-passphrase-0123456789".to_string().into())
}

impl Device {
    /// first device: creates the account
    pub async fn create(name: &str, dir: &Path, server: Arc<Server>, db: bool, gate: Gate) -> Device {
        std::fs::create_dir_all(dir).unwrap();
        let paths = Paths::new_client(dir);
        let target = client_target(&paths, db).await;
        let mut account = LocalAccount::new_account_with_builder("harness".to_string(), password(), target, |b| {
            b.create_file_password(true).create_archive(true)
        })
        .await
        .expect("new_account");
        let key: sos_core::crypto::AccessKey = password().into();
        account.sign_in(&key).await.expect("sign_in");
        let _ = account.initialize_search_index().await;
        Self::wrap(name, dir, account, server, gate)
    }
    /// further devices: a copy of the first device's data directory, signed in
    pub async fn open(name: &str, dir: &Path, account_id: AccountId, server: Arc<Server>, db: bool, gate: Gate) -> Device {
        let paths = Paths::new_client(dir);
        let target = client_target(&paths, db).await;
        let mut account = LocalAccount::new_unauthenticated(account_id, target).await.expect("open");
        let key: sos_core::crypto::AccessKey = password().into();
        account.sign_in(&key).await.expect("sign_in");
        let _ = account.initialize_search_index().await;
        Self::wrap(name, dir, account, server, gate)
    }
    /// the normal open path, reporting failures instead of panicking (crash recovery)
    pub async fn try_open(name: &str, dir: &Path, account_id: AccountId, server: Arc<Server>, db: bool, gate: Gate) -> Result<Device, String> {
        Self::try_open_with(name, dir, account_id, server, db, gate, &[password()]).await
    }
    /// as try_open, with several candidate account passwords (an interrupted password change leaves either)
    pub async fn try_open_with(name: &str, dir: &Path, account_id: AccountId, server: Arc<Server>, db: bool, gate: Gate, passwords: &[secrecy::SecretString]) -> Result<Device, String> {
        let cls = |stage: &str, e: &dyn std::fmt::Debug| -> String {
            let s: String = format!("{e:?}").chars().filter(|c| c.is_ascii_alphanumeric() || *c == '_' || *c == ':' || *c == '(').take(60).collect();
            format!("{stage}:{s}")
        };
        let paths = Paths::new_client(dir);
        let target = if db {
            let mut client = sos_database::open_file(paths.database_file()).await.map_err(|e| cls("db", &e))?;
            sos_database::migrations::migrate_client(&mut client).await.map_err(|e| cls("db", &e))?;
            BackendTarget::Database(paths.clone(), client)
        } else {
            Paths::scaffold(paths.documents_dir()).await.map_err(|e| cls("scaffold", &e))?;
            BackendTarget::FileSystem(paths.clone())
        };
        let mut last = String::from("nopassword");
        for pw in passwords {
            let mut account = LocalAccount::new_unauthenticated(account_id, target.clone()).await.map_err(|e| cls("new", &e))?;
            let key: sos_core::crypto::AccessKey = pw.clone().into();
            match account.sign_in(&key).await {
                Ok(_) => {
                    let _ = account.initialize_search_index().await;
                    return Ok(Self::wrap(name, dir, account, server, gate));
                }
                Err(e) => last = cls("sign_in", &e),
            }
        }
        Err(last)
    }
    fn wrap(name: &str, dir: &Path, account: LocalAccount, server: Arc<Server>, gate: Gate) -> Device {
        let account_id = *account.account_id();
        let (tx, _rx) = tokio::sync::broadcast::channel(8);
        let origin: Origin = url::Url::parse("https://harness.invalid").unwrap().into();
        let client = DirectClient { server, origin, device: name.to_string(), gate };
        Device {
            name: name.to_string(),
            dir: dir.to_path_buf(),
            bridge: Bridge { account_id, account: Arc::new(Mutex::new(account)), client, queue: tx },
        }
    }
    pub async fn sync(&self) -> Result<Option<MergeOutcome>, sos_net::Error> {
        self.bridge.execute_sync(&SyncOptions::default()).await
    }
}

pub async fn client_target(paths: &Arc<Paths>, db: bool) -> BackendTarget {
    if db {
        let mut client = sos_database::open_file(paths.database_file()).await.unwrap();
        sos_database::migrations::migrate_client(&mut client).await.unwrap();
        BackendTarget::Database(paths.clone(), client)
    } else {
        Paths::scaffold(paths.documents_dir()).await.unwrap();
        BackendTarget::FileSystem(paths.clone())
    }
}

pub fn copy_dir(src: &Path, dst: &Path) {
    std::fs::create_dir_all(dst).unwrap();
    for e in std::fs::read_dir(src).unwrap() {
        let e = e.unwrap();
        let to = dst.join(e.file_name());
        if e.file_type().unwrap().is_dir() {
            copy_dir(&e.path(), &to);
        } else if let Err(err) = std::fs::copy(e.path(), &to) {
            // transient SQLite side files (-journal/-wal/-shm) may vanish while copying
            if err.kind() != std::io::ErrorKind::NotFound {
                panic!("copy {:?}: {err}", e.path());
            }
        }
    }
}
