(* Round-trip theorems for model/Formats.v: for every well-formed value v,
   decode (encode v ++ rest) = Some (v, rest).  [wf] states exactly what the encoder silently
   truncates or the decoder rejects. *)
From Coq Require Import List NArith ZArith Bool Lia Arith ZifyN ZifyNat ZifyBool.
From SosModel Require Import base.Bytes gen.Generated model.Formats proofs.Bytes_Lemmas.
Import ListNotations.
Ltac Zify.zify_post_hook ::= Z.div_mod_to_equations.
Local Open Scope N_scope.
Arguments N.mul : simpl never. Arguments N.add : simpl never.
Arguments N.div : simpl never. Arguments N.modulo : simpl never.
Arguments N.land : simpl never. Arguments N.lxor : simpl never.

(* decide closed comparisons of generated tags by computation *)
Ltac tags :=
  repeat match goal with
  | |- context [N.eqb ?a ?b] =>
      let v := eval vm_compute in (N.eqb a b) in
      match v with
      | true => change (N.eqb a b) with true
      | false => change (N.eqb a b) with false
      end; cbv iota
  end; cbv beta iota.

Lemma MAXB_lt32 : MAXB < 4294967296.
Proof. vm_compute. reflexivity. Qed.
Lemma MAXB_ge32 : 32 <= MAXB.
Proof. vm_compute. discriminate. Qed.
Lemma MAXB_val : MAXB = 16777216.
Proof. reflexivity. Qed.

Lemma p_fixed_rt n b rest : lenb b = n -> n <= MAXB -> p_fixed n (b ++ rest) = Some (b, rest).
Proof. apply p_bytes_n_rt. Qed.
Lemma p_b32_rt b rest : lenb b <= MAXB -> p_bytes32' (e_bytes32 b ++ rest) = Some (b, rest).
Proof. intro H. apply p_bytes32_rt; [exact H|pose proof MAXB_lt32; lia]. Qed.
Lemma p_str_rt b rest : lenb b <= MAXB -> utf8_valid b = true ->
  p_str (e_bytes32 b ++ rest) = Some (b, rest).
Proof. intros H Hu. apply p_string_rt; [exact H|pose proof MAXB_lt32; lia|exact Hu]. Qed.

(* ---- time ---- *)
Definition wf_time (t : time) : Prop :=
  (TS_MIN <= t_secs t <= TS_MAX)%Z /\ t_nanos t < 1000000000.

Theorem time_rt t rest : wf_time t -> p_time (e_time t ++ rest) = Some (t, rest).
Proof.
  destruct t as [s n]. unfold wf_time, TS_MIN, TS_MAX. cbn [t_secs t_nanos]. intros [Hs Hn].
  unfold p_time, e_time, bind. cbn [t_secs t_nanos]. rewrite <- app_assoc.
  rewrite p_i64_rt by (unfold two63; lia). rewrite p_u32_rt by lia.
  unfold TS_MIN, TS_MAX.
  assert (((s <? -377705116800) || (253402300799 <? s))%Z = false) as -> by lia.
  assert (n / 1000000000 = 0) as -> by lia.
  assert (n mod 1000000000 = n) as -> by lia.
  assert ((253402300799 <? s + Z.of_N 0)%Z = false) as -> by lia.
  unfold ret. repeat f_equal. lia.
Qed.

(* ---- aead ---- *)
Definition wf_nonce (x : nonce) : Prop :=
  match x with Nonce12 b => lenb b = 12 | Nonce24 b => lenb b = 24 end.
Definition wf_aead (a : aead) : Prop := wf_nonce (a_nonce a) /\ lenb (a_ct a) <= MAXB.

Theorem aead_rt a rest : wf_aead a -> p_aead (e_aead a ++ rest) = Some (a, rest).
Proof.
  destruct a as [[nb|nb] ct]; unfold wf_aead, wf_nonce; cbn [a_nonce a_ct]; intros [Hn Hc];
    unfold p_aead, e_aead, bind; cbn [a_nonce a_ct]; rewrite <- !app_assoc;
    rewrite p_u8_rt by lia; rewrite p_fixed_rt by (rewrite ?MAXB_val; lia); tags;
    rewrite p_b32_rt by exact Hc; reflexivity.
Qed.

Lemma e_aead_len a : wf_aead a -> lenb (e_aead a) <= 29 + MAXB.
Proof.
  destruct a as [[nb|nb] ct]; unfold wf_aead, wf_nonce, e_aead, e_bytes32, e_u8, e_u32, lenb in *;
    cbn [a_nonce a_ct]; intros [Hn Hc]; rewrite !app_length, !le_bytes_length; lia.
Qed.

(* ---- vault commit ---- *)
Definition wf_vcommit (v : vcommit) : Prop :=
  lenb (vc_commit v) = 32 /\ wf_aead (vc_meta v) /\ wf_aead (vc_secret v).

Theorem vcommit_rt v rest : wf_vcommit v -> p_vcommit (e_vcommit v ++ rest) = Some (v, rest).
Proof.
  destruct v as [c m s]. unfold wf_vcommit. cbn [vc_commit vc_meta vc_secret]. intros (Hc & Hm & Hs).
  unfold p_vcommit, e_vcommit, bind. cbn [vc_commit vc_meta vc_secret]. rewrite <- !app_assoc.
  rewrite p_fixed_rt by (rewrite ?MAXB_val; lia).
  rewrite p_u32_rt.
  - rewrite aead_rt by exact Hm. rewrite aead_rt by exact Hs. reflexivity.
  - pose proof (e_aead_len m Hm). pose proof (e_aead_len s Hs). unfold lenb in *.
    rewrite app_length. rewrite MAXB_val in *. lia.
Qed.

(* ---- write events ---- *)
Definition flags_ok (f : N) : Prop :=
  f < two64 /\ N.land f (N.lxor VAULT_FLAGS_ALL 18446744073709551615) = 0.
Definition wf_write_event (e : write_event) : Prop :=
  match e with
  | WCreateVault b => lenb b <= MAXB
  | WSetVaultName s => lenb s <= MAXB /\ utf8_valid s = true
  | WSetVaultFlags f => flags_ok f
  | WSetVaultMeta a => wf_aead a
  | WCreateSecret id c | WUpdateSecret id c => lenb id = 16 /\ wf_vcommit c
  | WDeleteSecret id => lenb id = 16
  end.

Theorem write_event_rt e rest : wf_write_event e ->
  p_write_event (e_write_event e ++ rest) = Some (e, rest).
Proof.
  destruct e as [b|s|f|a|id c|id c|id]; cbn [wf_write_event]; intro H;
    unfold p_write_event, e_write_event, bind; rewrite <- !app_assoc;
    rewrite p_u16_rt by (vm_compute; reflexivity); tags.
  - rewrite p_b32_rt by exact H. reflexivity.
  - destruct H as [Hl Hu]. rewrite p_str_rt by assumption. reflexivity.
  - destruct H as [H64 Hb]. rewrite p_u64_rt by exact H64. rewrite Hb. reflexivity.
  - rewrite aead_rt by exact H. reflexivity.
  - destruct H as [Hi Hc]. rewrite p_fixed_rt by (rewrite ?MAXB_val; lia).
    rewrite vcommit_rt by exact Hc. reflexivity.
  - destruct H as [Hi Hc]. rewrite p_fixed_rt by (rewrite ?MAXB_val; lia).
    rewrite vcommit_rt by exact Hc. reflexivity.
  - rewrite <- (app_nil_r id) at 1. rewrite <- app_assoc. cbn [app].
    rewrite p_fixed_rt by (rewrite ?MAXB_val; lia). reflexivity.
Qed.

(* ---- account events ---- *)
Definition wf_account_event (e : account_event) : Prop :=
  match e with
  | ARenameAccount s => lenb s <= MAXB /\ utf8_valid s = true
  | AUpdateIdentity b => lenb b <= MAXB
  | ACreateFolder id b | AChangeFolderPassword id b | AUpdateFolder id b | ACompactFolder id b =>
      lenb id = 16 /\ lenb b <= MAXB
  | ARenameFolder id s => lenb id = 16 /\ lenb s <= MAXB /\ utf8_valid s = true
  | ADeleteFolder id => lenb id = 16
  end.

Theorem account_event_rt e rest : wf_account_event e ->
  p_account_event (e_account_event e ++ rest) = Some (e, rest).
Proof.
  destruct e as [s|b|id b|id b|id b|id b|id s|id]; cbn [wf_account_event]; intro H;
    unfold p_account_event, e_account_event, bind; rewrite <- !app_assoc;
    rewrite p_u16_rt by (vm_compute; reflexivity); tags.
  - destruct H as [Hl Hu]. rewrite p_str_rt by assumption. reflexivity.
  - rewrite p_b32_rt by exact H. reflexivity.
  - destruct H as [Hi Hb]. rewrite p_fixed_rt by (rewrite ?MAXB_val; lia). rewrite p_b32_rt by exact Hb. reflexivity.
  - destruct H as [Hi Hb]. rewrite p_fixed_rt by (rewrite ?MAXB_val; lia). rewrite p_b32_rt by exact Hb. reflexivity.
  - destruct H as [Hi Hb]. rewrite p_fixed_rt by (rewrite ?MAXB_val; lia). rewrite p_b32_rt by exact Hb. reflexivity.
  - destruct H as [Hi Hb]. rewrite p_fixed_rt by (rewrite ?MAXB_val; lia). rewrite p_b32_rt by exact Hb. reflexivity.
  - destruct H as (Hi & Hl & Hu). rewrite p_fixed_rt by (rewrite ?MAXB_val; lia).
    rewrite p_str_rt by assumption. reflexivity.
  - rewrite <- (app_nil_r id) at 1. rewrite <- app_assoc. cbn [app].
    rewrite p_fixed_rt by (rewrite ?MAXB_val; lia). reflexivity.
Qed.

(* ---- file events ---- *)
Definition wf_file_event (e : file_event) : Prop :=
  match e with
  | FCreateFile f s n | FDeleteFile f s n => lenb f = 16 /\ lenb s = 16 /\ lenb n = 32
  | FMoveFile n a b c d => lenb n = 32 /\ lenb a = 16 /\ lenb b = 16 /\ lenb c = 16 /\ lenb d = 16
  end.

Theorem file_event_rt e rest : wf_file_event e ->
  p_file_event (e_file_event e ++ rest) = Some (e, rest).
Proof.
  destruct e as [f s n|f s n|n a b c d]; cbn [wf_file_event]; intro H;
    unfold p_file_event, e_file_event, bind; rewrite <- !app_assoc;
    rewrite p_u16_rt by (vm_compute; reflexivity); tags.
  - destruct H as (Hf & Hs & Hn). rewrite !p_fixed_rt by (rewrite ?MAXB_val; lia). reflexivity.
  - destruct H as (Hf & Hs & Hn). rewrite !p_fixed_rt by (rewrite ?MAXB_val; lia). reflexivity.
  - destruct H as (Hn & Ha & Hb & Hc & Hd). rewrite !p_fixed_rt by (rewrite ?MAXB_val; lia). reflexivity.
Qed.

(* ---- event records ---- *)
Definition wf_record (r : record) : Prop :=
  wf_time (r_time r) /\ lenb (r_prev r) = 32 /\ lenb (r_commit r) = 32 /\ lenb (r_data r) <= MAXB.

Lemma record_body_len r : wf_record r -> lenb (record_body r) = 80 + lenb (r_data r).
Proof.
  destruct r as [t pv c d]. unfold wf_record, record_body, e_bytes32, e_time, e_i64, e_u64, e_u32, lenb.
  cbn [r_time r_prev r_commit r_data]. intros (_ & Hp & Hc & Hd).
  rewrite !app_length, !le_bytes_length. unfold lenb in *. lia.
Qed.

Theorem record_rt r rest : wf_record r -> p_record (e_record r ++ rest) = Some (r, rest).
Proof.
  intro H. pose proof (record_body_len r H) as Hlen.
  destruct r as [t pv c d]. destruct H as (Ht & Hp & Hc & Hd). cbn [r_time r_prev r_commit r_data] in *.
  unfold p_record, e_record, bind. rewrite Hlen. unfold record_body. cbn [r_time r_prev r_commit r_data].
  rewrite <- !app_assoc. rewrite MAXB_val in *.
  rewrite p_u32_rt by lia. rewrite time_rt by exact Ht.
  rewrite !p_fixed_rt by (rewrite ?MAXB_val; lia).
  rewrite p_b32_rt by (rewrite MAXB_val; exact Hd). rewrite p_u32_rt by lia. reflexivity.
Qed.

(* ---- commit proofs ---- *)
Definition wf_cproof (p : cproof) : Prop :=
  lenb (cp_root p) = 32 /\ lenb (cp_hashes p) <= MAXB /\ lenb (cp_hashes p) mod 32 = 0 /\
  cp_length p < two64 /\ Forall (fun i => i < two64) (cp_indices p) /\
  N.of_nat (length (cp_indices p)) < 4294967296.

Theorem cproof_rt p rest : wf_cproof p -> p_cproof (e_cproof p ++ rest) = Some (p, rest).
Proof.
  destruct p as [r h n ix]. unfold wf_cproof. cbn [cp_root cp_hashes cp_length cp_indices].
  intros (Hr & Hh & Hm & Hn & Hix & Hc).
  unfold p_cproof, e_cproof, bind. cbn [cp_root cp_hashes cp_length cp_indices]. rewrite <- !app_assoc.
  rewrite p_fixed_rt by (rewrite ?MAXB_val; lia). rewrite p_b32_rt by exact Hh.
  rewrite Hm. cbn [N.eqb negb]. rewrite p_u64_rt by exact Hn.
  rewrite (p_vec_rt N p_u64 e_u64 (fun i => i < two64)); [reflexivity| | |exact Hix|exact Hc].
  - intros a rest' Ha. apply p_u64_rt. exact Ha.
  - intro a. unfold e_u64. rewrite le_bytes_length. lia.
Qed.

Theorem cstate_rt c p rest : lenb c = 32 -> wf_cproof p ->
  p_cstate (e_cstate (c, p) ++ rest) = Some ((c, p), rest).
Proof.
  intros Hc Hp. unfold p_cstate, e_cstate, bind. cbn [fst snd]. rewrite <- app_assoc.
  rewrite p_fixed_rt by (rewrite ?MAXB_val; lia). rewrite cproof_rt by exact Hp. reflexivity.
Qed.

(* ---- comparisons ---- *)
Definition wf_comparison (c : comparison_w) : Prop :=
  match c with
  | WContains ix => Forall (fun i => i < two64) ix /\ N.of_nat (length ix) < 4294967296
  | _ => True
  end.

Theorem comparison_rt c rest : wf_comparison c ->
  p_comparison (e_comparison c ++ rest) = Some (c, rest).
Proof.
  destruct c as [|ix|]; cbn [wf_comparison]; intro H; unfold p_comparison, e_comparison, bind;
    rewrite <- ?app_assoc; rewrite p_u8_rt by lia; tags; try reflexivity.
  destruct H as [Hix Hc].
  rewrite (p_vec_rt N p_u64 e_u64 (fun i => i < two64)); [reflexivity| | |exact Hix|exact Hc].
  - intros a rest' Ha. apply p_u64_rt. exact Ha.
  - intro a. unfold e_u64. rewrite le_bytes_length. lia.
Qed.

(* top level: decode::<T>(encode v) = v *)
Theorem decode_top_rt (A : Type) (p : parser A) (e : A -> bytes) (wf : A -> Prop) :
  (forall a rest, wf a -> p (e a ++ rest) = Some (a, rest)) ->
  forall a, wf a -> decode_top p (e a) = Some a.
Proof.
  intros Hrt a Ha. unfold decode_top. rewrite <- (app_nil_r (e a)). rewrite Hrt by exact Ha. reflexivity.
Qed.

(* the values outside wf do NOT round-trip: the restriction is needed *)
Lemma time_wf_needed_nanos :
  p_time (e_time (mkTime 0 1000000000)) = Some (mkTime 1 0, []).
Proof. vm_compute. reflexivity. Qed.
Lemma bool_wf_needed : p_bool [2] = Some (true, []) /\ e_bool true = [1].
Proof. split; vm_compute; reflexivity. Qed.

(* non-vacuity: concrete well-formed values *)
Example wf_example_write :
  wf_write_event (WCreateSecret (repeat 7 16)
    (mkVCommit (repeat 1 32) (mkAead (Nonce12 (repeat 2 12)) [1;2;3]) (mkAead (Nonce24 (repeat 3 24)) []))).
Proof.
  cbn [wf_write_event]. unfold wf_vcommit, wf_aead, wf_nonce. cbn [vc_commit vc_meta vc_secret a_nonce a_ct].
  rewrite MAXB_val. unfold lenb. cbn [repeat length]. repeat split; lia.
Qed.
Example wf_example_record :
  wf_record (mkRecord (mkTime 1700000000 123) (repeat 0 32) (repeat 9 32) [4;0]).
Proof.
  unfold wf_record, wf_time, TS_MIN, TS_MAX. cbn [r_time r_prev r_commit r_data t_secs t_nanos].
  rewrite MAXB_val. unfold lenb. cbn [repeat length]. repeat split; lia.
Qed.

(* ---- robustness facts about the decoders (C15) ---- *)
Lemma p_uint_some k s x r : p_uint k s = Some (x, r) -> exists b, s = b ++ r /\ lenb b = N.of_nat k.
Proof.
  unfold p_uint, bind. destruct (take (N.of_nat k) s) as [[b r']|] eqn:E; [|discriminate].
  unfold ret. intro H. injection H as <- <-. apply take_consumes in E. exists b. exact E.
Qed.

Theorem time_decoded_wf s t r : p_time s = Some (t, r) -> wf_time t.
Proof.
  unfold p_time, bind. destruct (p_i64 s) as [[z s1]|]; [|discriminate].
  destruct (p_u32 s1) as [[n s2]|] eqn:E2; [|discriminate].
  destruct ((z <? TS_MIN) || (TS_MAX <? z))%Z eqn:Er; [discriminate|].
  destruct (TS_MAX <? z + Z.of_N (n / 1000000000))%Z eqn:Eo; [discriminate|].
  unfold ret. intro H. injection H as <- <-. unfold wf_time, TS_MIN, TS_MAX in *.
  cbn [t_secs t_nanos]. lia.
Qed.

Definition write_tags : list N :=
  [EK_CREATE_VAULT; EK_SET_VAULT_NAME; EK_SET_VAULT_FLAGS; EK_SET_VAULT_META;
   EK_CREATE_SECRET; EK_UPDATE_SECRET; EK_DELETE_SECRET].
Definition account_tags : list N :=
  [EK_RENAME_ACCOUNT; EK_UPDATE_IDENTITY; EK_CREATE_VAULT; EK_CHANGE_PASSWORD; EK_UPDATE_VAULT;
   EK_COMPACT_VAULT; EK_SET_VAULT_NAME; EK_DELETE_VAULT].
Definition file_tags : list N := [EK_CREATE_FILE; EK_DELETE_FILE; EK_MOVE_FILE].

Ltac kill_tag k Hn :=
  repeat match goal with
  | |- context [N.eqb k ?t] =>
      let E := fresh "E" in
      destruct (N.eqb k t) eqn:E;
      [exfalso; apply N.eqb_eq in E; apply Hn; rewrite E; cbn [In]; tauto|]
  end.

Theorem write_unknown_tag_rejected k s : k < 65536 -> ~ In k write_tags ->
  p_write_event (e_u16 k ++ s) = None.
Proof.
  intros Hk Hn. unfold p_write_event, bind. rewrite p_u16_rt by exact Hk.
  unfold write_tags in Hn. kill_tag k Hn. reflexivity.
Qed.
Theorem account_unknown_tag_rejected k s : k < 65536 -> ~ In k account_tags ->
  p_account_event (e_u16 k ++ s) = None.
Proof.
  intros Hk Hn. unfold p_account_event, bind. rewrite p_u16_rt by exact Hk.
  unfold account_tags in Hn. kill_tag k Hn. reflexivity.
Qed.
Theorem file_unknown_tag_rejected k s : k < 65536 -> ~ In k file_tags ->
  p_file_event (e_u16 k ++ s) = None.
Proof.
  intros Hk Hn. unfold p_file_event, bind. rewrite p_u16_rt by exact Hk.
  unfold file_tags in Hn. kill_tag k Hn. reflexivity.
Qed.

(* the Noop tag (0) is not a tag of any of the three event families *)
Lemma noop_not_a_tag : ~ In EK_NOOP write_tags /\ ~ In EK_NOOP account_tags /\ ~ In EK_NOOP file_tags.
Proof.
  repeat split; intro H; cbn [In write_tags account_tags file_tags] in H;
    repeat (destruct H as [H|H]; [vm_compute in H; discriminate|]); exact H.
Qed.

(* generic consequence of a round-trip: the encoder is injective on well-formed values *)
Theorem encode_injective (A : Type) (p : parser A) (e : A -> bytes) (wf : A -> Prop) :
  (forall a rest, wf a -> p (e a ++ rest) = Some (a, rest)) ->
  forall a b r1 r2, wf a -> wf b -> e a ++ r1 = e b ++ r2 -> a = b /\ r1 = r2.
Proof.
  intros Hrt a b r1 r2 Ha Hb E. pose proof (Hrt a r1 Ha) as H1. rewrite E, (Hrt b r2 Hb) in H1.
  injection H1 as -> ->. split; reflexivity.
Qed.

(* ---- canonical encoding of a set / map field ---- *)
Require Import Coq.Sorting.Permutation Coq.Sorting.Sorted.
Section CanonSetLemmas.
Variable A : Type.
Variable leb : A -> A -> bool.
Variable e : A -> bytes.
Hypothesis leb_total : forall a b, leb a b = true \/ leb b a = true.
Hypothesis leb_trans : forall a b c, leb a b = true -> leb b c = true -> leb a c = true.
Hypothesis leb_antisym : forall a b, leb a b = true -> leb b a = true -> a = b.
Notation le := (fun a b => leb a b = true).
Notation ins := (ins A leb).
Notation canon := (canon A leb).

Lemma ins_perm x l : Permutation (ins x l) (x :: l).
Proof.
  induction l as [|y r IH]; cbn [Formats.ins]; [apply Permutation_refl|].
  destruct (leb x y); [apply Permutation_refl|].
  eapply perm_trans; [apply perm_skip, IH|apply perm_swap].
Qed.
Lemma canon_perm l : Permutation (canon l) l.
Proof.
  induction l as [|x l IH]; [apply perm_nil|]. unfold Formats.canon in *. cbn [fold_right].
  eapply perm_trans; [apply ins_perm|apply perm_skip, IH].
Qed.
Lemma ins_sorted x l : StronglySorted le l -> StronglySorted le (ins x l).
Proof.
  induction l as [|y r IH]; intro H; cbn [Formats.ins]; [repeat constructor|].
  inversion H as [|y' r' Hs Hall]; subst. destruct (leb x y) eqn:E.
  - constructor; [exact H|]. constructor; [exact E|].
    apply Forall_forall. intros z Hz. apply (leb_trans x y z E). rewrite Forall_forall in Hall. apply Hall, Hz.
  - constructor; [apply IH, Hs|]. apply Forall_forall. intros z Hz.
    apply (Permutation_in _ (ins_perm x r)) in Hz. destruct Hz as [<-|Hz].
    + destruct (leb_total x y) as [Hc|Hc]; [rewrite Hc in E; discriminate|exact Hc].
    + rewrite Forall_forall in Hall. apply Hall, Hz.
Qed.
Lemma canon_sorted l : StronglySorted le (canon l).
Proof.
  induction l as [|x l IH]; [constructor|]. unfold Formats.canon in *. cbn [fold_right]. apply ins_sorted, IH.
Qed.
(* two sorted lists with the same elements are the same list *)
Lemma sorted_perm_eq l : forall l', StronglySorted le l -> StronglySorted le l' -> Permutation l l' -> l = l'.
Proof.
  induction l as [|a l IH]; intros l' Hs Hs' Hp.
  - apply Permutation_nil in Hp. symmetry. exact Hp.
  - destruct l' as [|b l']; [apply Permutation_sym, Permutation_nil in Hp; discriminate|].
    inversion Hs as [|? ? Hsl Hal]; subst. inversion Hs' as [|? ? Hsl' Hal']; subst.
    rewrite Forall_forall in Hal, Hal'.
    assert (a = b) as ->.
    { assert (In b (a :: l)) as Hb by (apply (Permutation_in _ (Permutation_sym Hp)); left; reflexivity).
      assert (In a (b :: l')) as Ha by (apply (Permutation_in _ Hp); left; reflexivity).
      destruct Hb as [Hb|Hb]; [exact Hb|]. destruct Ha as [Ha|Ha]; [symmetry; exact Ha|].
      apply leb_antisym; [apply Hal, Hb|apply Hal', Ha]. }
    f_equal. apply IH; [exact Hsl|exact Hsl'|]. apply Permutation_cons_inv in Hp. exact Hp.
Qed.
Theorem canon_unique l l' : Permutation l l' -> canon l = canon l'.
Proof.
  intro Hp. apply sorted_perm_eq; [apply canon_sorted|apply canon_sorted|].
  eapply perm_trans; [apply canon_perm|]. eapply perm_trans; [exact Hp|]. apply Permutation_sym, canon_perm.
Qed.
(* the bytes written for a set depend on its contents only, not on the order the container yields them *)
Theorem set_encoding_canonical l l' : Permutation l l' -> e_set A leb e l = e_set A leb e l'.
Proof. intro Hp. unfold Formats.e_set. rewrite (canon_unique l l' Hp). reflexivity. Qed.
End CanonSetLemmas.
(* written in iteration order, the same set has two encodings (the behaviour before the fix) *)
Lemma seq_encoding_not_canonical :
  Permutation [1%N; 2%N] [2%N; 1%N] /\ e_seq N e_u8 [1%N; 2%N] <> e_seq N e_u8 [2%N; 1%N].
Proof. split; [apply perm_swap|]. vm_compute. discriminate. Qed.

Lemma bytes_leb_total a : forall b, bytes_leb a b = true \/ bytes_leb b a = true.
Proof.
  induction a as [|x a IH]; intros [|y b]; cbn [bytes_leb]; try (left; reflexivity); try (right; reflexivity).
  destruct (N.ltb_spec x y) as [H|H]; [left; reflexivity|].
  destruct (N.ltb_spec y x) as [H'|H']; [right; reflexivity|].
  assert (x = y) as -> by lia. rewrite N.eqb_refl. apply IH.
Qed.
Lemma bytes_leb_antisym a : forall b, bytes_leb a b = true -> bytes_leb b a = true -> a = b.
Proof.
  induction a as [|x a IH]; intros [|y b]; cbn [bytes_leb]; try discriminate; [reflexivity|].
  destruct (N.ltb_spec x y) as [H|H].
  - intros _. destruct (N.ltb_spec y x) as [H'|H']; [exfalso; lia|]. destruct (N.eqb_spec y x) as [E|E]; [exfalso; lia|discriminate].
  - destruct (N.eqb_spec x y) as [->|E]; [|discriminate]. rewrite N.ltb_irrefl, N.eqb_refl. intros H1 H2. f_equal. apply IH; assumption.
Qed.
Lemma bytes_leb_trans a : forall b c, bytes_leb a b = true -> bytes_leb b c = true -> bytes_leb a c = true.
Proof.
  induction a as [|x a IH]; intros [|y b] [|z c]; cbn [bytes_leb]; try discriminate; try reflexivity.
  intros H1 H2.
  destruct (N.ltb_spec x z) as [Hxz|Hxz]; [reflexivity|].
  destruct (N.ltb_spec x y) as [Hxy|Hxy].
  - destruct (N.ltb_spec y z) as [Hyz|Hyz]; [exfalso; lia|]. destruct (N.eqb_spec y z) as [E|E]; [exfalso; lia|discriminate].
  - destruct (N.eqb_spec x y) as [E|E]; [subst y|discriminate].
    destruct (N.ltb_spec x z) as [Hyz|Hyz]; [exfalso; lia|].
    destruct (N.eqb_spec x z) as [E2|E2]; [|discriminate]. apply (IH b c); assumption.
Qed.
(* the tag field of a secret's meta data: equal sets of tags give equal bytes *)
Theorem tagset_encoding_canonical l l' : Permutation l l' -> e_tagset l = e_tagset l'.
Proof.
  apply set_encoding_canonical; [exact bytes_leb_total|intros a b c; apply bytes_leb_trans|intros a b; apply bytes_leb_antisym].
Qed.
