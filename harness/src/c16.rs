//! C16: integrity reports.  Case: "c16 <id> cbe=fs|db stride=<k> hist=<steps>" (single device).
//! The account is built by the account-history harness; then
//!   1. the integrity report runs on the untouched account:  "<id> clean failures=<n> complete=<0|1>"
//!   2. every content region (stored checksum, encrypted value / event payload) of every folder's
//!      vault and event log is mutated one byte at a time (every <stride>-th byte and region
//!      boundaries); file system: bytes of the files, database: bytes of the SQL columns;
//!      each time the report runs again and the byte is restored:
//!      "<id> mut <store> <folder> <what> pos=<p> detected=<0|1> complete=<0|1>"
//!   3. vault / log removed (file system):  "<id> rm <store> <folder> detected=<0|1> complete=<0|1>"
use crate::acct::World;
use crate::sync::Gate;
use crate::util::{kv, rt};
use sos_account::Account;
use sos_backend::BackendTarget;
use sos_core::{AccountId, VaultId};
use sos_integrity::{account_integrity, FolderIntegrityEvent};
use sos_vault::Summary;
use std::io::Write;
use std::time::Duration;

async fn report(target: &BackendTarget, account_id: &AccountId, folders: Vec<Summary>) -> (usize, bool, Vec<VaultId>) {
    let (mut rx, _cancel) = match account_integrity(target, account_id, folders, 1).await {
        Ok(x) => x,
        Err(_) => return (1, false, vec![]),
    };
    let mut failures = 0usize;
    let mut complete = false;
    let mut failed = vec![];
    let deadline = tokio::time::Instant::now() + Duration::from_secs(5);
    loop {
        match tokio::time::timeout_at(deadline, rx.recv()).await {
            Ok(Some(FolderIntegrityEvent::Failure(id, _))) => {
                failures += 1;
                failed.push(id);
            }
            Ok(Some(FolderIntegrityEvent::Complete)) => {
                complete = true;
            }
            Ok(Some(_)) => {}
            Ok(None) => break,
            Err(_) => break,
        }
    }
    (failures, complete, failed)
}

/// content regions of an event log file: (what, start, end) for commit and payload of each row
fn log_regions(bytes: &[u8], header: usize) -> Vec<(&'static str, usize, usize)> {
    let mut v = vec![];
    let mut pos = header;
    while pos + 4 <= bytes.len() {
        let len = u32::from_le_bytes(bytes[pos..pos + 4].try_into().unwrap()) as usize;
        let body = pos + 4;
        if body + len + 4 > bytes.len() || len < 80 {
            break;
        }
        let commit = body + 12 + 32;
        let dlen = u32::from_le_bytes(bytes[commit + 32..commit + 36].try_into().unwrap()) as usize;
        v.push(("commit", commit, commit + 32));
        v.push(("payload", commit + 36, commit + 36 + dlen));
        pos = body + len + 4;
    }
    v
}

/// content regions of a vault file: rows after the header: len | id16 | commit32 | vlen | value | len
fn vault_regions(bytes: &[u8], content_offset: usize) -> Vec<(&'static str, usize, usize)> {
    let mut v = vec![];
    let mut pos = content_offset;
    while pos + 4 <= bytes.len() {
        let len = u32::from_le_bytes(bytes[pos..pos + 4].try_into().unwrap()) as usize;
        let body = pos + 4;
        if body + len + 4 > bytes.len() || len < 52 {
            break;
        }
        let commit = body + 16;
        let vlen = u32::from_le_bytes(bytes[commit + 32..commit + 36].try_into().unwrap()) as usize;
        v.push(("checksum", commit, commit + 32));
        v.push(("value", commit + 36, commit + 36 + vlen));
        pos = body + len + 4;
    }
    v
}

fn positions(start: usize, end: usize, stride: usize) -> Vec<usize> {
    let mut p: Vec<usize> = (start..end).step_by(stride.max(1)).collect();
    if end > start && !p.contains(&(end - 1)) {
        p.push(end - 1);
    }
    p
}

pub fn run(text: &str, cases_path: &str, out: &mut impl Write) {
    let rt = rt();
    let base = std::path::Path::new(cases_path).parent().unwrap().join("data-c16");
    for line in text.lines() {
        let toks: Vec<&str> = line.split_whitespace().collect();
        if toks.len() < 2 || toks[0].starts_with('#') {
            continue;
        }
        let id = toks[1].to_string();
        let cdb = kv(&toks, "cbe") == Some("db");
        let stride: usize = kv(&toks, "stride").unwrap_or("7").parse().unwrap();
        let hist: Vec<String> = kv(&toks, "hist").unwrap_or("").split('|').filter(|s| !s.is_empty()).map(|s| s.to_string()).collect();
        writeln!(out, "{id} !begin").unwrap();
        out.flush().unwrap();
        rt.block_on(async {
            let mut w = World::new(base.join(&id), cdb, false, 1, Gate::default()).await;
            for op in &hist {
                let _ = w.step(op).await;
            }
            let acct = w.devs[0].bridge.account.clone();
            let mut account = acct.lock().await;
            // two external file blobs (attachments) for the blob half of the property
            {
                let folder = *w.fslots.get("0").unwrap();
                for (k, size) in [(0usize, 300usize), (1, 4000)] {
                    let p = w.base.join(format!("blob-input-{k}.bin"));
                    std::fs::write(&p, format!("c16 blob {k} {}", "b".repeat(size)).into_bytes()).unwrap();
                    if let Ok(secret) = sos_vault::secret::Secret::try_from(p.clone()) {
                        let meta = sos_vault::secret::SecretMeta::new(format!("Fblob{k}"), secret.kind());
                        let _ = account.create_secret(meta, secret, sos_client_storage::AccessOptions { folder: Some(folder), ..Default::default() }).await;
                    }
                }
            }
            let target = account.backend_target().await;
            let folders = account.list_folders().await.unwrap_or_default();
            let account_id = *account.account_id();
            let (f, c, _) = report(&target, &account_id, folders.clone()).await;
            writeln!(out, "{id} clean failures={f} complete={}", c as u8).unwrap();
            // ---- external file blobs: the canonical set is the replay of the file log
            {
                use sos_integrity::{file_integrity, FileIntegrityEvent};
                use sos_sync::StorageEventLogs;
                let files: indexmap::IndexSet<sos_core::ExternalFile> = match account.file_log().await {
                    Ok(log) => {
                        let log = log.read().await;
                        sos_reducers::FileReducer::new(&*log).reduce(None).await.unwrap_or_default()
                    }
                    Err(_) => Default::default(),
                };
                async fn freport(target: &BackendTarget, files: &indexmap::IndexSet<sos_core::ExternalFile>) -> (Vec<sos_core::ExternalFile>, bool) {
                    let Ok((mut rx, _cancel)) = file_integrity(target, files.clone(), 1).await else { return (vec![], false) };
                    let mut failed = vec![];
                    let mut complete = false;
                    let deadline = tokio::time::Instant::now() + Duration::from_secs(5);
                    loop {
                        match tokio::time::timeout_at(deadline, rx.recv()).await {
                            Ok(Some(FileIntegrityEvent::Failure(f, _))) => failed.push(f),
                            Ok(Some(FileIntegrityEvent::Complete)) => complete = true,
                            Ok(Some(_)) => {}
                            Ok(None) => break,
                            Err(_) => break,
                        }
                        if complete {
                            break;
                        }
                    }
                    (failed, complete)
                }
                let (failed, c) = freport(&target, &files).await;
                writeln!(out, "{id} fclean files={} failures={} complete={}", files.len(), failed.len(), c as u8).unwrap();
                let paths = target.paths();
                for (k, file) in files.iter().enumerate() {
                    let path = paths.into_file_path(file);
                    let Ok(orig) = std::fs::read(&path) else {
                        writeln!(out, "{id} fmut blob b{k} content pos=0 detected=0 complete=0 missing-on-disk").unwrap();
                        continue;
                    };
                    for p in positions(0, orig.len(), stride * 9) {
                        let mut m = orig.clone();
                        m[p] ^= 0xff;
                        std::fs::write(&path, &m).unwrap();
                        let (failed, c) = freport(&target, &files).await;
                        writeln!(out, "{id} fmut blob b{k} content pos={p} detected={} complete={}", failed.contains(file) as u8, c as u8).unwrap();
                    }
                    std::fs::write(&path, &orig).unwrap();
                    std::fs::remove_file(&path).unwrap();
                    let (failed, c) = freport(&target, &files).await;
                    writeln!(out, "{id} frm blob b{k} detected={} complete={}", failed.contains(file) as u8, c as u8).unwrap();
                    std::fs::write(&path, &orig).unwrap();
                }
            }
            let fname = |fid: &VaultId| w.fnames.get(fid).cloned().unwrap_or_else(|| "x".into());
            match &target {
                BackendTarget::FileSystem(paths) => {
                    for s in &folders {
                        let fid = *s.id();
                        for (store, path) in [("vault", paths.vault_path(&fid)), ("log", paths.event_log_path(&fid))] {
                            let Ok(orig) = std::fs::read(&path) else { continue };
                            let regions = if store == "vault" {
                                let off = sos_vault::Header::read_content_offset(&path).await.unwrap_or(0) as usize;
                                vault_regions(&orig, off)
                            } else {
                                log_regions(&orig, 4)
                            };
                            for (what, a, b) in regions {
                                for p in positions(a, b, stride) {
                                    let mut m = orig.clone();
                                    m[p] ^= 0xff;
                                    std::fs::write(&path, &m).unwrap();
                                    let (_f, c, failed) = report(&target, &account_id, folders.clone()).await;
                                    writeln!(out, "{id} mut {store} {} {what} pos={p} detected={} complete={}", fname(&fid), failed.contains(&fid) as u8, c as u8).unwrap();
                                }
                            }
                            std::fs::write(&path, &orig).unwrap();
                            // removal
                            std::fs::remove_file(&path).unwrap();
                            let (_f, c, failed) = report(&target, &account_id, folders.clone()).await;
                            writeln!(out, "{id} rm {store} {} detected={} complete={}", fname(&fid), failed.contains(&fid) as u8, c as u8).unwrap();
                            std::fs::write(&path, &orig).unwrap();
                        }
                    }
                }
                BackendTarget::Database(_, client) => {
                    // removal: all the rows that are a folder's vault content (folder_secrets) or its log (folder_events)
                    // deleted inside a transaction on the one connection the report also uses, then rolled back
                    for s in &folders {
                        let fid = *s.id();
                        let ident = fid.to_string();
                        let Ok(folder_row): Result<i64, _> = client
                            .conn(move |conn| conn.query_row("SELECT folder_id FROM folders WHERE identifier=?1", [ident], |r| r.get(0)))
                            .await else { continue };
                        for (table, store) in [("folder_secrets", "vault"), ("folder_events", "log")] {
                            let n: i64 = client
                                .conn(move |conn| conn.query_row(&format!("SELECT COUNT(*) FROM {table} WHERE folder_id=?1"), [folder_row], |r| r.get(0)))
                                .await
                                .unwrap_or(0);
                            if n == 0 {
                                continue;
                            }
                            if client.conn(|conn| conn.execute_batch("BEGIN")).await.is_err() {
                                continue;
                            }
                            let del = client.conn(move |conn| conn.execute(&format!("DELETE FROM {table} WHERE folder_id=?1"), [folder_row])).await;
                            if del.is_ok() {
                                let (_f, c, failed) = report(&target, &account_id, folders.clone()).await;
                                writeln!(out, "{id} rm {store} {} rows={n} detected={} complete={}", fname(&fid), failed.contains(&fid) as u8, c as u8).unwrap();
                            }
                            let _ = client.conn(|conn| conn.execute_batch("ROLLBACK")).await;
                        }
                    }
                    // mutate one byte of a column of one row at a time
                    for (table, cols, store) in [("folder_secrets", vec!["commit_hash", "meta", "secret"], "vault"), ("folder_events", vec!["commit_hash", "event"], "log")] {
                        let key = if table == "folder_secrets" { "secret_id" } else { "event_id" };
                        let rows: Vec<(i64, i64)> = client
                            .conn(move |conn| {
                                let mut stmt = conn.prepare(&format!("SELECT {key}, folder_id FROM {table}"))?;
                                let r = stmt.query_map([], |row| Ok((row.get::<_, i64>(0)?, row.get::<_, i64>(1)?)))?.collect::<Result<Vec<_>, _>>()?;
                                Ok(r)
                            })
                            .await
                            .unwrap_or_default();
                        for (rowid, folder_row) in rows {
                            // which folder (by identifier) does this row belong to
                            let ident: String = client
                                .conn(move |conn| conn.query_row("SELECT identifier FROM folders WHERE folder_id=?1", [folder_row], |r| r.get(0)))
                                .await
                                .unwrap_or_default();
                            let Ok(fid) = ident.parse::<VaultId>() else { continue };
                            if !folders.iter().any(|s| s.id() == &fid) {
                                continue;
                            }
                            for col in &cols {
                                let col = col.to_string();
                                let c1 = col.clone();
                                let orig: Vec<u8> = client
                                    .conn(move |conn| conn.query_row(&format!("SELECT {c1} FROM {table} WHERE {key}=?1"), [rowid], |r| r.get(0)))
                                    .await
                                    .unwrap_or_default();
                                for p in positions(0, orig.len(), stride) {
                                    let mut m = orig.clone();
                                    m[p] ^= 0xff;
                                    let c2 = col.clone();
                                    client.conn(move |conn| conn.execute(&format!("UPDATE {table} SET {c2}=?1 WHERE {key}=?2"), (m, rowid))).await.unwrap();
                                    let (_f, c, failed) = report(&target, &account_id, folders.clone()).await;
                                    writeln!(out, "{id} mut {store} {} {col} pos={p} detected={} complete={}", fname(&fid), failed.contains(&fid) as u8, c as u8).unwrap();
                                }
                                let c3 = col.clone();
                                let o2 = orig.clone();
                                client.conn(move |conn| conn.execute(&format!("UPDATE {table} SET {c3}=?1 WHERE {key}=?2"), (o2, rowid))).await.unwrap();
                            }
                        }
                    }
                }
            }
            crate::acct::set_clock(0);
        });
        let _ = std::fs::remove_dir_all(base.join(&id));
    }
}
