(* Authorisation model: evaluates the extracted [authorize] on every request of a case's plan,
   with idealised signatures (a signature = the key that made it and the bytes it was made over).
   input:  c11 <case> access=<cfg> sbe=.. reqs=<route>.<cred>.<phase>,...                  *)
open Model
open Glue

let verify (k : string) (m : string) ((k', m') : string * string) : bool = k = k' && m = m'

let cfg_of = function
  | "allowA" -> Some { allow = Some ["A"; "B"]; deny = None }
  | "denyA2" -> Some { allow = None; deny = Some ["A2"] }
  | "denyO" -> Some { allow = None; deny = Some ["O"] }
  | "both" -> Some { allow = Some ["A"; "B"; "A2"]; deny = Some ["A2"] }
  | _ -> None

(* the device log of account A at each phase, as the harness builds it; the trusted set is its replay by the
   extracted [reduce_devices]: d3 is trusted, revoked and trusted again before phase 0; phase 1 appends
   Revoke(d1) and a second Revoke(d3); phase 2 rewinds the log to [Trust d0; Trust d1] and appends a new device *)
let device_log phase =
  let pre = [DevTrust "d0"; DevTrust "d1"; DevTrust "d2"; DevTrust "d3"; DevRevoke "d3"; DevTrust "d3"] in
  if phase = 0 then pre
  else if phase = 1 then pre @ [DevRevoke "d1"; DevRevoke "d3"]
  else [DevTrust "d0"; DevTrust "d1"; DevTrust "c"]
let trusted phase = function
  | "A" -> Some (reduce_devices String.equal (device_log phase))
  | "B" -> Some ["bk"]
  | _ -> None

let request_of cred : (string, string * string, string) auth_request =
  let r a t = { ar_account = a; ar_token = t; ar_signed = "m" } in
  match cred with
  | "valid" -> r (Some "A") (TokSig ("d0", "m"))
  (* a swapped body on a route whose handler passes the PATH as signed bytes: the signed bytes are unchanged *)
  | "bodyswap" -> r (Some "A") (TokSig ("d0", "m"))
  | "none" -> r (Some "A") TokAbsent
  | "malformed" | "short" -> r (Some "A") TokMalformed
  | "dotted" -> r (Some "A") TokDotted
  | "nohdr" -> r None (TokSig ("d0", "m"))
  | "unknown" -> r (Some "A") (TokSig ("unk", "m"))
  | "revoked" -> r (Some "A") (TokSig ("d1", "m"))
  | "dropped" -> r (Some "A") (TokSig ("d2", "m"))
  | "rerevoked" -> r (Some "A") (TokSig ("d3", "m"))
  | "otherbytes" -> r (Some "A") (TokSig ("d0", "m'"))
  | "otheracct" -> r (Some "A") (TokSig ("bk", "m"))
  | "toB" -> r (Some "B") (TokSig ("d0", "m"))
  | "denyhdr" -> r (Some "A2") (TokSig ("a2k", "m"))
  | _ -> r None TokAbsent

let run_line (line : string) : unit =
  match String.split_on_char ' ' line |> List.filter (fun s -> s <> "") with
  | _ :: case :: rest ->
    let cfg = cfg_of (match kv rest "access" with Some a -> a | None -> "none") in
    let reqs = match kv rest "reqs" with Some r -> split_on ',' r | None -> [] in
    List.iteri (fun n spec ->
      match String.split_on_char '.' spec with
      | route :: cred :: tl ->
        let phase = match tl with p :: _ -> int_of_string p | [] -> 0 in
        let v = authorize String.equal verify cfg (trusted phase) (request_of cred) in
        let cls = match v with
          | Accept -> "passed"
          | BadRequest -> "refused400"
          | Forbidden -> if route = "ws" then "refused400" else "refused403" in
        Printf.printf "%s req %d route=%s cred=%s phase=%d class=%s\n" case n route cred phase cls
      | _ -> ()) reqs
  | _ -> ()
