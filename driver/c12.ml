(* C12: the folder replay of C02, plus the identity vault as a key store: the history of saved folder
   passwords (fingerprints), folded with the extracted [id_save], answers every lookup with the extracted
   [id_lookup]; printed in the format of the harness' idkeys line.
   input:  c12 <case> idkeys <step> <who> order=<f;f;..> hist=<f:fp,f:fp,..>      (else: a C02 line) *)
open Model
open Glue

let run_line (line : string) : unit =
  match String.split_on_char ' ' line |> List.filter (fun s -> s <> "") with
  | _ :: case :: "idkeys" :: step :: who :: rest ->
    let order = match kv rest "order" with Some o -> split_on ';' o | None -> [] in
    let hist = match kv rest "hist" with Some h -> split_on ',' h | None -> [] in
    let store = List.fold_left (fun l e ->
      match String.index_opt e ':' with
      | Some k -> id_save l (String.sub e 0 k) (String.sub e (k + 1) (String.length e - k - 1))
      | None -> l) [] hist in
    let ks = List.map (fun f ->
      f ^ "=" ^ (match id_lookup String.equal store f with Some fp -> fp | None -> "-")) order in
    Printf.printf "%s %s %s idkeys %s\n" case step who (String.concat ";" ks)
  | _ -> C02.run_line line
