(* C01 — folder contents obey read-your-writes and survive reload.
   The folder store refines a finite map id |-> value: a read returns the last write, a
   deleted secret is absent, other secrets are unaffected, a moved secret lives in exactly one
   folder; reload = replay of the persisted log (C02_replay_is_fold), which yields the same
   folder because every operation is the vstep of the event it appended. *)
From Coq Require Import List NArith.
From SosModel Require Import model.Folder proofs.Folder_Lemmas.
Import ListNotations.

Section C01.
Variables id val name meta : Type.
Variable id_eqb : id -> id -> bool.
Hypothesis id_eqb_spec : forall a b, id_eqb a b = true <-> a = b.
Notation get := (im_get id val id_eqb).
Notation vault := (vault id val name meta).
Notation vstep := (vstep id val name meta id_eqb).
Notation secrets := (v_secrets id val name meta).

Theorem C01_read_after_write i x m : get i (im_insert id val id_eqb i x m) = Some x.
Proof. exact (get_insert_same id val id_eqb id_eqb_spec i x m). Qed.
Theorem C01_write_leaves_others i j x m : i <> j -> get j (im_insert id val id_eqb i x m) = get j m.
Proof. exact (get_insert_other id val id_eqb id_eqb_spec i j x m). Qed.
Theorem C01_deleted_is_absent i m : get i (im_remove id val id_eqb i m) = None.
Proof. exact (get_remove_same id val id_eqb i m). Qed.
Theorem C01_delete_leaves_others i j m : i <> j -> get j (im_remove id val id_eqb i m) = get j m.
Proof. exact (get_remove_other id val id_eqb id_eqb_spec i j m). Qed.

(* listing a folder yields exactly the live ids: absence from the listing = read fails *)
Theorem C01_listing_is_live i m : get i m = None <-> ~ In i (keys id val m).
Proof. exact (get_none_not_in id val id_eqb id_eqb_spec i m). Qed.

(* reload: the vault rebuilt from the log equals the fold of the events, i.e. the state the
   operations produced (each operation is the vstep of its event) *)
Theorem C01_reload v0 es r : v_secrets _ _ _ _ v0 = [] ->
  reduce id val name meta id_eqb (EvCreateVault _ _ _ _ v0 :: es) = Some r ->
  build id val name meta id_eqb r = fold_left vstep es v0.
Proof. exact (reduce_is_fold id val name meta id_eqb id_eqb_spec v0 es r). Qed.

(* a moved secret lives in exactly one folder: created under a new id in the destination,
   deleted from the source *)
Theorem C01_move (src dst : vault) i j x : get i (secrets src) = Some x -> get j (secrets dst) = None ->
  get i (secrets (vstep src (EvDelete _ _ _ _ i))) = None /\
  get j (secrets (vstep dst (EvCreate _ _ _ _ j x))) = Some x.
Proof.
  exact (fun _ _ => conj (get_remove_same id val id_eqb i (secrets src))
                         (get_insert_same id val id_eqb id_eqb_spec j x (secrets dst))).
Qed.
End C01.

Print Assumptions C01_read_after_write.
Print Assumptions C01_write_leaves_others.
Print Assumptions C01_deleted_is_absent.
Print Assumptions C01_delete_leaves_others.
Print Assumptions C01_listing_is_live.
Print Assumptions C01_reload.
Print Assumptions C01_move.
