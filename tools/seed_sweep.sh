#!/bin/sh
# runs every claimed check's quick command for the given seeds; prints one line per run
cd "$(dirname "$0")/.."
for seed in "$@"; do
  for id in $(python3 -c "import json; print(' '.join(c['property_id'] for c in json.load(open('MANIFEST.json'))['checks']))"); do
    out=$(VERIF_SEED=$seed bin/check $id 2>&1); rc=$?
    echo "seed=$seed $id rc=$rc $(echo "$out" | grep -c '^VIOLATION') violations $(echo "$out" | grep '^VIOLATION' | head -1 | cut -c1-120)"
  done
done
