(* Archive entry names -> destination paths: sos_archive::sanitize_file_path over
   sanitize-filename 0.6 (windows = false, truncate = true, empty replacement) and the
   collection of the sanitised components into a PathBuf (empty components vanish).
   Strings are lists of Unicode code points.  Definitions only. *)
From Coq Require Import List NArith Bool.
Import ListNotations.
Local Open Scope N_scope.

Definition cp := N.
Definition str := list cp.

(* illegal_re: slash, question mark, angle brackets, backslash, colon, star, bar, double quote;
   control_re: U+0000-U+001F and U+0080-U+009F *)
Definition illegal (c : cp) : bool :=
  (c =? 47) || (c =? 63) || (c =? 60) || (c =? 62) || (c =? 92) || (c =? 58) || (c =? 42) || (c =? 124) || (c =? 34).
Definition control (c : cp) : bool := (c <=? 31) || ((128 <=? c) && (c <=? 159)).
Definition all_dots (s : str) : bool :=
  match s with [] => false | _ => forallb (fun c => c =? 46) s end.

Definition utf8_len (c : cp) : nat :=
  if c <? 128 then 1%nat else if c <? 2048 then 2%nat else if c <? 65536 then 3%nat else 4%nat.
(* keep whole characters while the running byte count stays <= limit: the result of cutting
   at byte [limit] and backing up to a character boundary *)
Fixpoint take_bytes (limit : nat) (s : str) : str :=
  match s with
  | [] => []
  | c :: r => if Nat.leb (utf8_len c) limit then c :: take_bytes (limit - utf8_len c) r else []
  end.
Definition byte_len (s : str) : nat := fold_right (fun c n => (utf8_len c + n)%nat) 0%nat s.

Definition sanitize (name : str) : str :=
  let a := filter (fun c => negb (illegal c)) name in
  let b := filter (fun c => negb (control c)) a in
  let c := if all_dots b then [] else b in
  if Nat.ltb 255 (byte_len c) then take_bytes 255 c else c.

(* split on '/' after replacing '\' by '/' *)
Fixpoint split_aux (s : str) (cur : str) : list str :=
  match s with
  | [] => [rev cur]
  | c :: r => if (c =? 47) || (c =? 92) then rev cur :: split_aux r [] else split_aux r (c :: cur)
  end.
Definition split_path (s : str) : list str := split_aux s [].

(* the components of the PathBuf: sanitised, empty ones dropped *)
Definition sanitize_file_path (s : str) : list str :=
  filter (fun c => match c with [] => false | _ => true end) (map sanitize (split_path s)).

Definition dot : str := [46].
Definition dotdot : str := [46; 46].
