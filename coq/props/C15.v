(* C15 — placeholder until proofs/Formats_Lemmas.v lands *)
From Coq Require Import List NArith.
From SosModel Require Import base.Bytes model.Formats.
Theorem C15_pfail_total (A : Type) (s : bytes) : decode_top (@pfail A) s = None.
Proof. exact eq_refl. Qed.
Print Assumptions C15_pfail_total.
